/-
Helper lemmas for C15: the symbolic run of the class wiring simulates every concrete run
(parametricity), and a certificate `check w objs = true` covers every reachable object.
-/
import DefconModel.Spec.Classes

namespace DefconModel
namespace Classes

/-- the map applied to slot tables / argument lists by `interpObj` -/
abbrev F (cfg : Cfg) : Ident × AVal → Ident × Option Val := fun p => (p.1, interp cfg p.2)

theorem interp_aorDefault (cfg : Cfg) (v : AVal) (c : CName) :
    interp cfg (aorDefault v c) = orDefault (interp cfg v) c := by
  cases v with
  | param r =>
    simp only [aorDefault, interp, registered, orDefault]
    cases cfg r <;> rfl
  | paramOr r c' => rfl
  | const c' => rfl
  | none => rfl

theorem look_map (cfg : Cfg) (l : List (Ident × AVal)) (k : Ident) :
    look (l.map (F cfg)) k = interp cfg (alook l k) := by
  unfold look alook
  rw [AL.get?_map_val (interp cfg) l k]
  cases AL.get? l k <;> rfl

theorem map_set {α β : Type} (f : α → β) (l : List (String × α)) (k : String) (v : α) :
    (AL.set l k v).map (fun p => (p.1, f p.2)) = AL.set (l.map (fun p => (p.1, f p.2))) k (f v) := by
  induction l with
  | nil => rfl
  | cons p r ih =>
    obtain ⟨k', v'⟩ := p
    by_cases h : k' = k
    · simp [AL.set, h]
    · simp [AL.set, h, ih]

theorem execInit_map (cfg : Cfg) (stmts : List InitStmt) :
    ∀ (locals : List (Ident × AVal)) (slots : ASlots),
      execInit stmts (locals.map (F cfg)) (slots.map (F cfg)) = (aexecInit stmts locals slots).map (F cfg) := by
  induction stmts with
  | nil => intro locals slots; rfl
  | cons st r ih =>
    intro locals slots
    cases st with
    | dflt p c =>
      simp only [execInit, aexecInit]
      rw [look_map, ← interp_aorDefault, ← map_set (interp cfg)]
      exact ih _ _
    | force p c =>
      simp only [execInit, aexecInit]
      have : (some (Val.builtin c) : Option Val) = interp cfg (.const c) := rfl
      rw [this, ← map_set (interp cfg)]
      exact ih _ _
    | store a p =>
      simp only [execInit, aexecInit]
      rw [look_map, ← map_set (interp cfg)]
      exact ih _ _

theorem runInit_map (cfg : Cfg) (cd : ClassDef) (args : List (Ident × AVal)) :
    runInit cd (args.map (F cfg)) = (arunInit cd args).map (F cfg) := by
  unfold runInit arunInit
  have h : (cd.params.map fun p => (p, look (args.map (F cfg)) p))
      = (cd.params.map fun p => (p, alook args p)).map (F cfg) := by
    rw [List.map_map]
    apply List.map_congr_left
    intro p _
    simp [look_map]
  rw [h]
  exact execInit_map cfg cd.init _ []

theorem interp_of_abase {cfg : Cfg} {v : AVal} {b : CName} (h : abase v = some b) :
    ∃ k, interp cfg v = some k ∧ k.base = b := by
  cases v with
  | param r => simp [abase] at h
  | paramOr r c =>
    simp only [abase] at h
    split at h
    · rename_i hc
      cases h
      simp only [interp]
      cases cfg r with
      | none => exact ⟨_, rfl, rfl⟩
      | some i => exact ⟨_, rfl, hc.symm ▸ rfl⟩
    · cases h
  | const c => simp only [abase] at h; cases h; exact ⟨_, rfl, rfl⟩
  | none => simp [abase] at h

/-- the symbolic object's own class is a class for every configuration -/
def SelfOk (o : AObj) : Prop := (abase o.self).isSome = true

theorem self_interp {cfg : Cfg} {o : AObj} (h : SelfOk o) :
    some (interpObj cfg o).self = interp cfg o.self := by
  unfold SelfOk at h
  cases hb : abase o.self with
  | none => simp [hb] at h
  | some b =>
    obtain ⟨k, hk, _⟩ := interp_of_abase (cfg := cfg) hb
    simp [interpObj, hk]

theorem evalCls_interp (cfg : Cfg) (cd : ClassDef) (o : AObj) (h : SelfOk o) (e : ClsExpr) :
    evalCls cd (interpObj cfg o) e = interp cfg (aevalCls cd o e) := by
  cases e with
  | slot a => exact look_map cfg o.slots a
  | prop p =>
    simp only [evalCls, aevalCls]
    cases AL.get? cd.props p with
    | none => rfl
    | some a => exact look_map cfg o.slots a
  | sameClass => exact self_interp h
  | hard c => rfl

theorem evalSrc_interp (cfg : Cfg) (cd : ClassDef) (o : AObj) (s : Src) :
    evalSrc cd (interpObj cfg o) s = interp cfg (aevalSrc cd o s) := by
  unfold evalSrc aevalSrc
  cases slotOf cd s with
  | none => rfl
  | some a => exact look_map cfg o.slots a

theorem classAt_interp (cfg : Cfg) (w : Wiring) (o : AObj) (h : SelfOk o) (s : Site) :
    classAt w (interpObj cfg o) s = interp cfg (aclassAt w o s) := by
  unfold classAt aclassAt
  have hcd : (interpObj cfg o).cd = o.cd := rfl
  rw [hcd]
  by_cases ho : s.owner = o.cd
  · simp only [ho, if_true]
    cases w.classDef o.cd with
    | none => rfl
    | some cd => exact evalCls_interp cfg cd o h s.cls
  · simp only [ho, if_false]; rfl

theorem interp_none_of_det {cfg : Cfg} {v : AVal} (hd : determinate v = true) (hb : abase v = none) :
    interp cfg v = none := by
  cases v with
  | param r => simp [determinate] at hd
  | paramOr r c =>
    simp only [determinate, decide_eq_true_eq] at hd
    simp [abase, hd] at hb
  | const c => simp [abase] at hb
  | none => rfl

theorem interpObj_mk (cfg : Cfg) (n : CName) (v : AVal) (sl : ASlots) :
    interpObj cfg ⟨n, v, sl⟩ = ⟨n, (interp cfg v).getD (.builtin n), sl.map (F cfg)⟩ := rfl

/-- PARAMETRICITY, one creation step: when the symbolic class at the site is determinate, the concrete
step from the interpreted object is the interpretation of the symbolic step — for every configuration. -/
theorem step_interp (cfg : Cfg) (w : Wiring) (o : AObj) (h : SelfOk o) (s : Site)
    (hd : ∀ cd, w.classDef o.cd = some cd → determinate (aevalCls cd o s.cls) = true) :
    step w (interpObj cfg o) s = (astep w o s).map (interpObj cfg) := by
  unfold step astep
  have hcd : (interpObj cfg o).cd = o.cd := rfl
  rw [hcd]
  by_cases ho : s.owner = o.cd
  · simp only [ho, if_true]
    cases hc : w.classDef o.cd with
    | none => rfl
    | some cd =>
      simp only
      rw [evalCls_interp cfg cd o h]
      have hdet := hd cd hc
      have hargs : (s.kwargs.map fun kv => (kv.1, evalSrc cd (interpObj cfg o) kv.2))
          = (s.kwargs.map fun kv => (kv.1, aevalSrc cd o kv.2)).map (F cfg) := by
        rw [List.map_map]
        apply List.map_congr_left
        intro kv _
        simp [evalSrc_interp]
      rw [hargs]
      generalize aevalCls cd o s.cls = v at hdet ⊢
      cases hb : abase v with
      | none => rw [interp_none_of_det hdet hb]; rfl
      | some b =>
        obtain ⟨k, hk, hkb⟩ := interp_of_abase (cfg := cfg) hb
        rw [hk]
        simp only [hkb]
        cases w.classDef b with
        | none => rfl
        | some cd' =>
          simp only [Option.map_some]
          rw [interpObj_mk, hk, runInit_map]
          rfl
  · simp only [ho, if_false]; rfl

theorem root_interp (cfg : Cfg) (w : Wiring) : root w cfg = (aroot w).map (interpObj cfg) := by
  unfold root aroot
  cases w.classDef "Font" with
  | none => rfl
  | some cd =>
    simp only [Option.map_some]
    rw [interpObj_mk]
    have : (fontKw.map fun kr => (kr.1, registered cfg kr.2))
        = (fontKw.map fun kr => (kr.1, AVal.param kr.2)).map (F cfg) := by
      rw [List.map_map]; rfl
    rw [this, runInit_map]
    rfl

theorem reachFrom_none (w : Wiring) (chain : List Site) : reachFrom w none chain = none := by
  cases chain <;> rfl

/-! ## What a certificate gives -/

theorem check_root {w : Wiring} {objs : List AObj} (h : check w objs = true) :
    ∃ o, aroot w = some o ∧ o ∈ objs := by
  unfold check at h
  simp only [Bool.and_eq_true] at h
  obtain ⟨⟨⟨⟨h1, _⟩, _⟩, _⟩, _⟩ := h
  cases hr : aroot w with
  | none => simp [hr] at h1
  | some o => rw [hr] at h1; exact ⟨o, rfl, List.contains_iff_mem.mp h1⟩

theorem check_self {w : Wiring} {objs : List AObj} (h : check w objs = true) :
    ∀ o ∈ objs, SelfOk o := by
  unfold check at h
  simp only [Bool.and_eq_true] at h
  obtain ⟨⟨⟨⟨_, h2⟩, _⟩, _⟩, _⟩ := h
  intro o ho
  exact List.all_eq_true.mp h2 o ho

theorem check_site {w : Wiring} {objs : List AObj} (h : check w objs = true) :
    ∀ o ∈ objs, ∀ s ∈ w.sites, siteOk w objs o s = true := by
  unfold check at h
  simp only [Bool.and_eq_true] at h
  obtain ⟨⟨⟨⟨_, _⟩, h3⟩, _⟩, _⟩ := h
  intro o ho s hs
  exact List.all_eq_true.mp (List.all_eq_true.mp h3 o ho) s hs

theorem check_catalogued {w : Wiring} {objs : List AObj} (h : check w objs = true) :
    ∀ s ∈ w.sites, (dispOf s.id).isSome = true := by
  unfold check at h
  simp only [Bool.and_eq_true] at h
  obtain ⟨⟨_, h4⟩, _⟩ := h
  intro s hs
  exact List.all_eq_true.mp h4 s hs

/-- the facts packed in `siteOk` for a site of the object's own class -/
theorem siteOk_own {w : Wiring} {objs : List AObj} {o : AObj} {s : Site}
    (h : siteOk w objs o s = true) (ho : s.owner = o.cd) :
    ∃ cd, w.classDef o.cd = some cd ∧ determinate (aevalCls cd o s.cls) = true ∧
      (∀ r, (dispOf s.id = some (.handedOut r) ∨ dispOf s.id = some (.guard r)) →
        aevalCls cd o s.cls = .paramOr r (dfltName r)) ∧
      (∀ o', astep w o s = some o' → o' ∈ objs) := by
  unfold siteOk at h
  simp only [ho, if_true] at h
  cases hc : w.classDef o.cd with
  | none => simp [hc] at h
  | some cd =>
    simp only [hc, Bool.and_eq_true] at h
    obtain ⟨⟨⟨hdet, _⟩, hdisp⟩, hstep⟩ := h
    refine ⟨cd, rfl, hdet, ?_, ?_⟩
    · intro r hr
      rcases hr with hr | hr
      · rw [hr] at hdisp
        simp only [Bool.and_eq_true, beq_iff_eq] at hdisp
        exact hdisp.1
      · rw [hr] at hdisp
        simp only [Bool.and_eq_true, beq_iff_eq] at hdisp
        exact hdisp.1
    · intro o' ho'
      rw [ho'] at hstep
      simp only [Bool.and_eq_true] at hstep
      exact List.contains_iff_mem.mp hstep.1.1.1.1

theorem areachFrom_none (w : Wiring) (chain : List Site) : areachFrom w none chain = none := by
  cases chain <;> rfl

/-- PARAMETRICITY, whole chains: with a certificate, following any chain of creation sites from the
interpretation of a member of `objs` is the interpretation of following it symbolically. -/
theorem reachFrom_interp {w : Wiring} {objs : List AObj} (hc : check w objs = true) (cfg : Cfg) :
    ∀ (chain : List Site) (ao : AObj), ao ∈ objs → (∀ s ∈ chain, s ∈ w.sites) →
      reachFrom w (some (interpObj cfg ao)) chain = (areachFrom w (some ao) chain).map (interpObj cfg) := by
  intro chain
  induction chain with
  | nil => intro ao _ _; rfl
  | cons s r ih =>
    intro ao hao hin
    simp only [reachFrom, areachFrom]
    have hs : s ∈ w.sites := hin s (List.mem_cons_self ..)
    have hok := check_site hc ao hao s hs
    by_cases ho : s.owner = ao.cd
    · obtain ⟨cd, hcd, hdet, _, hstep⟩ := siteOk_own hok ho
      have hsim := step_interp cfg w ao (check_self hc ao hao) s (by
        intro cd' hcd'
        rw [hcd] at hcd'
        cases hcd'
        exact hdet)
      rw [hsim]
      cases hst : astep w ao s with
      | none => simp [reachFrom_none, areachFrom_none]
      | some ao' =>
        simp only [Option.map_some]
        exact ih ao' (hstep ao' hst) (fun x hx => hin x (List.mem_cons_of_mem _ hx))
    · have h1 : step w (interpObj cfg ao) s = none := by
        unfold step
        have hcd : (interpObj cfg ao).cd = ao.cd := rfl
        rw [hcd]
        simp [ho]
      have h2 : astep w ao s = none := by
        unfold astep
        simp [ho]
      rw [h1, h2, reachFrom_none, areachFrom_none]
      rfl

/-- the symbolic objects met along a chain stay inside a certified set -/
theorem areachFrom_mem {w : Wiring} {objs : List AObj} (hc : check w objs = true) :
    ∀ (chain : List Site) (ao ao' : AObj), ao ∈ objs → (∀ s ∈ chain, s ∈ w.sites) →
      areachFrom w (some ao) chain = some ao' → ao' ∈ objs := by
  intro chain
  induction chain with
  | nil =>
    intro ao ao' hao _ h
    simp only [areachFrom, Option.some.injEq] at h
    exact h ▸ hao
  | cons s r ih =>
    intro ao ao' hao hin h
    simp only [areachFrom] at h
    have hs : s ∈ w.sites := hin s (List.mem_cons_self ..)
    cases hst : astep w ao s with
    | none => rw [hst, areachFrom_none] at h; cases h
    | some a1 =>
      rw [hst] at h
      have ho : s.owner = ao.cd := by
        by_cases ho : s.owner = ao.cd
        · exact ho
        · unfold astep at hst; simp [ho] at hst
      obtain ⟨_, _, _, _, hstep⟩ := siteOk_own (check_site hc ao hao s hs) ho
      exact ih a1 ao' (hstep a1 hst) (fun x hx => hin x (List.mem_cons_of_mem _ hx)) h

theorem reach_interp {w : Wiring} {objs : List AObj} (hc : check w objs = true) (cfg : Cfg)
    (chain : List Site) (hin : ∀ s ∈ chain, s ∈ w.sites) :
    reach w cfg chain = (areachFrom w (aroot w) chain).map (interpObj cfg) := by
  obtain ⟨ar, har, hmem⟩ := check_root hc
  unfold reach
  rw [root_interp, har]
  exact reachFrom_interp hc cfg chain ar hmem hin

/-- COVERAGE: with a certificate, whatever chain of creation sites is followed from the font, the
object reached is the interpretation of a member of `objs`. -/
theorem reach_covered {w : Wiring} {objs : List AObj} (hc : check w objs = true) (cfg : Cfg)
    (chain : List Site) (o : Obj) (hin : ∀ s ∈ chain, s ∈ w.sites) (hr : reach w cfg chain = some o) :
    ∃ ao ∈ objs, o = interpObj cfg ao := by
  rw [reach_interp hc cfg chain hin] at hr
  obtain ⟨ar, har, hmem⟩ := check_root hc
  rw [har] at hr
  cases h : areachFrom w (some ar) chain with
  | none => rw [h] at hr; cases hr
  | some ao =>
    rw [h] at hr
    simp only [Option.map_some, Option.some.injEq] at hr
    exact ⟨ao, areachFrom_mem hc chain ar ao hmem hin h, hr.symm⟩

theorem interp_paramOr_dflt (cfg : Cfg) (r : Role) :
    interp cfg (.paramOr r (dfltName r)) = some (expected cfg r) := by
  cases h : cfg r <;> simp [interp, expected, h]

/-- FLOW: with a certificate, in every object reachable by any chain, every site catalogued as creating
(or guarding) role `r` uses exactly the class expected for `r` under the configuration. -/
theorem flow_of_check {w : Wiring} {objs : List AObj} (hc : check w objs = true) (cfg : Cfg)
    (chain : List Site) (o : Obj) (s : Site) (r : Role)
    (hin : ∀ x ∈ chain, x ∈ w.sites) (hr : reach w cfg chain = some o)
    (hs : s ∈ w.sites) (hown : s.owner = o.cd)
    (hd : dispOf s.id = some (.handedOut r) ∨ dispOf s.id = some (.guard r)) :
    classAt w o s = some (expected cfg r) := by
  obtain ⟨ao, hao, rfl⟩ := reach_covered hc cfg chain o hin hr
  have hown' : s.owner = ao.cd := hown
  obtain ⟨cd, hcd, _, hval, _⟩ := siteOk_own (check_site hc ao hao s hs) hown'
  rw [classAt_interp cfg w ao (check_self hc ao hao) s]
  unfold aclassAt
  simp only [hown', if_true, hcd]
  rw [hval r hd]
  exact interp_paramOr_dflt cfg r

/-- with certificates, a listed class property of any reachable object returns the expected class -/
theorem props_of_check {w : Wiring} {objs : List AObj} (hc : check w objs = true) (hp : propsOk w objs = true)
    (cfg : Cfg) (chain : List Site) (o : Obj) (c : CName) (p : Ident) (r : Role)
    (hin : ∀ x ∈ chain, x ∈ w.sites) (hr : reach w cfg chain = some o)
    (hm : (c, p, r) ∈ propRoles) (hcd : o.cd = c) :
    propValue w o p = some (expected cfg r) := by
  obtain ⟨ao, hao, rfl⟩ := reach_covered hc cfg chain o hin hr
  unfold propsOk at hp
  simp only [Bool.and_eq_true] at hp
  have h1 := List.all_eq_true.mp (List.all_eq_true.mp hp.2 ao hao) (c, p, r) hm
  have hcd' : ao.cd = c := hcd
  simp only [hcd', if_true] at h1
  unfold propValue
  have e : (interpObj cfg ao).cd = c := hcd
  rw [e]
  cases hw : w.classDef c with
  | none => simp [hw] at h1
  | some cd =>
    simp only [hw, beq_iff_eq] at h1
    show evalCls cd (interpObj cfg ao) (.prop p) = some (expected cfg r)
    rw [evalCls_interp cfg cd ao (check_self hc ao hao), h1]
    exact interp_paramOr_dflt cfg r

/-! ## Looking sites up by id -/

theorem site_some {w : Wiring} {id : String} {s : Site} (h : w.site id = some s) : s ∈ w.sites ∧ s.id = id := by
  unfold Wiring.site at h
  refine ⟨List.mem_of_find?_eq_some h, ?_⟩
  have := List.find?_some h
  simpa using this

/-! ## Free-standing roots (round 3) -/

/-- PARAMETRICITY for a constructor the user calls himself with the registered classes handed in -/
theorem freeRoot_interp (cfg : Cfg) (w : Wiring) (c : CName) (aself : AVal) (v : Val) (kws : List (Ident × Role))
    (hv : interp cfg aself = some v) :
    freeRoot w cfg c v kws = (afreeRoot w c aself kws).map (interpObj cfg) := by
  unfold freeRoot afreeRoot
  cases w.classDef c with
  | none => rfl
  | some cd =>
    simp only [Option.map_some]
    rw [interpObj_mk, hv]
    simp only [Option.getD_some]
    have : (kws.map fun kr => (kr.1, registered cfg kr.2))
        = (kws.map fun kr => (kr.1, AVal.param kr.2)).map (F cfg) := by
      rw [List.map_map]; rfl
    rw [this, runInit_map]

theorem freeRootsOk_mem {w : Wiring} {objs : List AObj} (h : freeRootsOk w objs = true)
    {c : CName} {aself : AVal} {kws : List (Ident × Role)} (hm : (c, aself, kws) ∈ freeRoots) :
    ∃ ao, afreeRoot w c aself kws = some ao ∧ ao ∈ objs := by
  unfold freeRootsOk at h
  have h1 := List.all_eq_true.mp h (c, aself, kws) hm
  simp only [Bool.and_eq_true] at h1
  cases hr : afreeRoot w c aself kws with
  | none => simp [hr] at h1
  | some ao =>
    simp only [hr] at h1
    exact ⟨ao, rfl, List.contains_iff_mem.mp h1.1⟩

/-- FLOW from any member of a certified set: in every object reachable by any chain from the
interpretation of `ao ∈ objs`, every site catalogued as creating (or guarding) role `r` uses exactly the
class expected for `r`. -/
theorem flow_from_member {w : Wiring} {objs : List AObj} (hc : check w objs = true) (cfg : Cfg)
    (ao : AObj) (hao : ao ∈ objs) (chain : List Site) (o : Obj) (s : Site) (r : Role)
    (hin : ∀ x ∈ chain, x ∈ w.sites) (hr : reachFrom w (some (interpObj cfg ao)) chain = some o)
    (hs : s ∈ w.sites) (hown : s.owner = o.cd)
    (hd : dispOf s.id = some (.handedOut r) ∨ dispOf s.id = some (.guard r)) :
    classAt w o s = some (expected cfg r) := by
  rw [reachFrom_interp hc cfg chain ao hao hin] at hr
  cases h : areachFrom w (some ao) chain with
  | none => rw [h] at hr; cases hr
  | some ao' =>
    rw [h] at hr
    simp only [Option.map_some, Option.some.injEq] at hr
    subst hr
    have hao' := areachFrom_mem hc chain ao ao' hao hin h
    have hown' : s.owner = ao'.cd := hown
    obtain ⟨cd, hcd, _, hval, _⟩ := siteOk_own (check_site hc ao' hao' s hs) hown'
    rw [classAt_interp cfg w ao' (check_self hc ao' hao') s]
    unfold aclassAt
    simp only [hown', if_true, hcd]
    rw [hval r hd]
    exact interp_paramOr_dflt cfg r

/-! ## Entry points that accept an object (round 3) -/

theorem isInstance_refl (v : Val) : isInstance v v = true := by
  cases v <;> simp [isInstance]

theorem entry_some {w : Wiring} {id : String} {e : Entry} (h : w.entry id = some e) : e ∈ w.entries ∧ e.id = id := by
  unfold Wiring.entry at h
  refine ⟨List.mem_of_find?_eq_some h, ?_⟩
  have := List.find?_some h
  simpa using this

/-- a resolved entry point is not a delegation -/
theorem resolveEntry_not_delegate (w : Wiring) : ∀ (n : Nat) (e e' : Entry),
    resolveEntry w n e = some e' → ∀ t, e'.how ≠ .delegate t := by
  intro n
  induction n with
  | zero => intro e e' h; simp [resolveEntry] at h
  | succ n ih =>
    intro e e' h t
    unfold resolveEntry at h
    cases hh : e.how with
    | delegate t' =>
      simp only [hh] at h
      cases he : w.entry t' with
      | none => simp [he] at h
      | some e2 =>
        simp only [he, Option.bind_some] at h
        exact ih e2 e' h t
    | adopt => simp only [hh, Option.some.injEq] at h; subst h; rw [hh]; intro hc; cases hc
    | convertUnless g f => simp only [hh, Option.some.injEq] at h; subst h; rw [hh]; intro hc; cases hc
    | rebuild f => simp only [hh, Option.some.injEq] at h; subst h; rw [hh]; intro hc; cases hc

/-- what the certificate gives for an entry point of the wiring -/
theorem entriesOk_entry {w : Wiring} (h : entriesOk w = true) {e : Entry} (he : e ∈ w.entries) :
    ∃ r e', entryRole e.id = some r ∧ resolveEntry w 4 e = some e' ∧ entryRole e'.id = some r ∧
      e' ∈ w.entries ∧ entryOk w e' r = true ∧ (r ∈ convertedRoles → e'.how ≠ .adopt) := by
  unfold entriesOk at h
  simp only [Bool.and_eq_true] at h
  have h1 := List.all_eq_true.mp h.1 e he
  cases hr : entryRole e.id with
  | none => simp [hr] at h1
  | some r =>
    cases hres : resolveEntry w 4 e with
    | none => simp [hr, hres] at h1
    | some e' =>
      simp only [hr, hres, Bool.and_eq_true, beq_iff_eq, Bool.or_eq_true, Bool.not_eq_true', bne_iff_ne] at h1
      refine ⟨r, e', rfl, rfl, h1.1.1.1, List.contains_iff_mem.mp h1.1.1.2, h1.1.2, ?_⟩
      intro hm
      rcases h1.2 with h2 | h2
      · have := List.contains_iff_mem.mpr hm
        rw [h2] at this; cases this
      · exact h2

/-- CONVERSION: in an object where the guard and the factory of a (non-delegating) entry point use the
class expected for role `r`, whatever is handed in, what is stored is an instance of that class: the very
object when it already was one, else a new object of exactly the expected class. -/
theorem store_converts {w : Wiring} {o : Obj} {e : Entry} {r : Role} {cfg : Cfg} (hok : entryOk w e r = true)
    (hown : e.owner = o.cd)
    (hflow : ∀ s ∈ w.sites, s.owner = o.cd →
      (dispOf s.id = some (.handedOut r) ∨ dispOf s.id = some (.guard r)) → classAt w o s = some (expected cfg r))
    (given : Val) :
    (e.how = .adopt ∧ store w o e given = some .asIs) ∨
    (e.how ≠ .adopt ∧ ∃ st, store w o e given = some st ∧
      isInstance (st.cls given) (expected cfg r) = true ∧
      (st = .asIs ∧ isInstance given (expected cfg r) = true ∨
       st = .rebuilt (expected cfg r) ∧ (isInstance given (expected cfg r) = false ∨ ∃ f, e.how = .rebuild f))) := by
  unfold entryOk at hok
  cases hh : e.how with
  | adopt => left; exact ⟨rfl, by simp [store, hh]⟩
  | delegate t => simp [hh] at hok
  | rebuild f =>
    right
    refine ⟨(by intro hc; cases hc), ?_⟩
    simp only [hh] at hok
    cases hs : w.site f with
    | none => simp [hs] at hok
    | some s =>
      simp only [hs, Bool.and_eq_true, beq_iff_eq] at hok
      have hmem := site_some hs
      have hcls := hflow s hmem.1 (hok.1.trans hown) (Or.inl (by rw [hmem.2]; exact hok.2))
      refine ⟨.rebuilt (expected cfg r), ?_, isInstance_refl _, Or.inr ⟨rfl, Or.inr ⟨f, rfl⟩⟩⟩
      simp [store, hh, hs, hcls]
  | convertUnless g f =>
    right
    refine ⟨(by intro hc; cases hc), ?_⟩
    simp only [hh, Bool.and_eq_true] at hok
    obtain ⟨hg, hf⟩ := hok
    cases hsg : w.site g with
    | none => simp [hsg] at hg
    | some sg =>
      cases hsf : w.site f with
      | none => simp [hsf] at hf
      | some sf =>
        simp only [hsg, Bool.and_eq_true, beq_iff_eq] at hg
        simp only [hsf, Bool.and_eq_true, beq_iff_eq] at hf
        have hmg := site_some hsg
        have hmf := site_some hsf
        have hcg := hflow sg hmg.1 (hg.1.trans hown) (Or.inr (by rw [hmg.2]; exact hg.2))
        have hcf := hflow sf hmf.1 (hf.1.trans hown) (Or.inl (by rw [hmf.2]; exact hf.2))
        by_cases hi : isInstance given (expected cfg r) = true
        · refine ⟨.asIs, ?_, hi, Or.inl ⟨rfl, hi⟩⟩
          simp [store, hh, hsg, hsf, hcg, hcf, hi]
        · refine ⟨.rebuilt (expected cfg r), ?_, isInstance_refl _, Or.inr ⟨rfl, Or.inl (by simpa using hi)⟩⟩
          simp [store, hh, hsg, hsf, hcg, hcf, hi]

/-! ## Chains of site ids -/

theorem mapM_site_mem {w : Wiring} : ∀ {ids : List String} {chain : List Site},
    ids.mapM w.site = some chain → ∀ s ∈ chain, s ∈ w.sites := by
  intro ids
  induction ids with
  | nil =>
    intro chain h s hs
    simp at h
    subst h
    cases hs
  | cons i r ih =>
    intro chain h s hs
    rw [List.mapM_cons] at h
    cases h1 : w.site i with
    | none => simp [h1] at h
    | some s1 =>
      cases h2 : r.mapM w.site with
      | none => simp [h1, h2] at h
      | some c2 =>
        simp [h1, h2] at h
        subst h
        rcases List.mem_cons.mp hs with e | e
        · exact e ▸ (site_some h1).1
        · exact ih h2 s e

theorem mem_roleAll (r : Role) : r ∈ Role.all := by
  cases r <;> simp [Role.all]

end Classes
end DefconModel
