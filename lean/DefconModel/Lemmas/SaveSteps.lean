/-
Helper lemmas about M-SaveSteps: the disk as an association list of UFOs by path.
-/
import DefconModel.SaveSteps

namespace DefconModel
namespace SaveSteps

theorem lookup_nil (q : Nat) : lookup [] q = none := rfl

theorem lookup_cons (a : Nat) (u : Ufo) (d : List (Nat × Ufo)) (q : Nat) :
    lookup ((a, u) :: d) q = if a = q then some u else lookup d q := by
  unfold lookup
  by_cases h : a = q <;> simp [List.find?_cons, h]

theorem remove_nil (p : Nat) : remove [] p = [] := rfl

theorem remove_cons (a : Nat) (u : Ufo) (d : List (Nat × Ufo)) (p : Nat) :
    remove ((a, u) :: d) p = if a = p then remove d p else (a, u) :: remove d p := by
  unfold remove
  by_cases h : a = p <;> simp [List.filter_cons, h]

theorem lookup_remove_self (d : List (Nat × Ufo)) (p : Nat) : lookup (remove d p) p = none := by
  induction d with
  | nil => rfl
  | cons x xs ih =>
    obtain ⟨a, u⟩ := x
    rw [remove_cons]
    by_cases h : a = p
    · rw [if_pos h]; exact ih
    · rw [if_neg h, lookup_cons, if_neg h]; exact ih

theorem lookup_remove_ne (d : List (Nat × Ufo)) (p q : Nat) (h : q ≠ p) : lookup (remove d p) q = lookup d q := by
  induction d with
  | nil => rfl
  | cons x xs ih =>
    obtain ⟨a, u⟩ := x
    rw [remove_cons, lookup_cons]
    by_cases hp : a = p
    · rw [if_pos hp, if_neg (fun e : a = q => h (e.symm.trans hp))]; exact ih
    · rw [if_neg hp, lookup_cons]
      by_cases hq : a = q
      · rw [if_pos hq, if_pos hq]
      · rw [if_neg hq, if_neg hq]; exact ih

theorem lookup_remove_of_none (d : List (Nat × Ufo)) (p q : Nat) (h : lookup d p = none) :
    lookup (remove d p) q = lookup d q := by
  by_cases hq : q = p
  · subst hq; rw [lookup_remove_self, h]
  · exact lookup_remove_ne d p q hq

theorem store_eq (d : List (Nat × Ufo)) (p : Nat) (u : Ufo) : store d p u = (p, u) :: remove d p := rfl

theorem lookup_store_self (d : List (Nat × Ufo)) (p : Nat) (u : Ufo) : lookup (store d p u) p = some u := by
  rw [store_eq, lookup_cons, if_pos rfl]

theorem lookup_store_ne (d : List (Nat × Ufo)) (p q : Nat) (u : Ufo) (h : q ≠ p) :
    lookup (store d p u) q = lookup d q := by
  rw [store_eq, lookup_cons, if_neg (fun e : p = q => h e.symm)]
  exact lookup_remove_ne d p q h

end SaveSteps
end DefconModel
