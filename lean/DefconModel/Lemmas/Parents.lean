/-
Helper lemmas for C11 (M-Parents).
-/
import DefconModel.Spec.Parents

set_option linter.unusedSimpArgs false
set_option linter.unusedVariables false

namespace DefconModel
namespace Parents

/-! ### Heap primitives -/

theorem get_upd (h : Heap) (i : Id) (f : Node → Node) (j : Id) :
    (h.upd i f).get j = if i = j then (h.get i).map f else h.get j := by
  unfold Heap.upd
  cases hi : h.get i with
  | none =>
    by_cases e : i = j
    · subst e; simp [hi]
    · simp [e]
  | some n =>
    simp only [Heap.setNode, Heap.get, Option.map_some]
    by_cases e : i = j
    · subst e
      have : i < h.nodes.length := by
        simp only [Heap.get] at hi
        exact (List.getElem?_eq_some_iff.mp hi).1
      simp [this]
    · simp [e, List.getElem?_set_ne e]

theorem get_alloc (h : Heap) (n : Node) (j : Id) :
    (h.alloc n).get j = if j = h.next then some n else h.get j := by
  simp only [Heap.alloc, Heap.get, Heap.next]
  rcases Nat.lt_trichotomy j h.nodes.length with lt | e | gt
  · have e : j ≠ h.nodes.length := Nat.ne_of_lt lt
    simp [e, List.getElem?_append_left lt]
  · subst e; simp
  · have e : j ≠ h.nodes.length := Nat.ne_of_gt gt
    simp only [e, if_false]
    rw [List.getElem?_eq_none (by simp only [List.length_append, List.length_cons, List.length_nil]; omega),
      List.getElem?_eq_none (by omega)]

theorem get_next (h : Heap) : h.get h.next = none := by
  simp [Heap.get, Heap.next]

theorem get_lt {h : Heap} {i : Id} {n : Node} (e : h.get i = some n) : i < h.next := by
  simp only [Heap.get] at e
  exact (List.getElem?_eq_some_iff.mp e).1

@[simp] theorem regs_upd (h : Heap) (i : Id) (f : Node → Node) : (h.upd i f).regs = h.regs := by
  unfold Heap.upd; split <;> rfl
@[simp] theorem regs_alloc (h : Heap) (n : Node) : (h.alloc n).regs = h.regs := rfl
@[simp] theorem next_upd (h : Heap) (i : Id) (f : Node → Node) : (h.upd i f).next = h.next := by
  unfold Heap.upd; split <;> simp [Heap.next, Heap.setNode]
@[simp] theorem next_alloc (h : Heap) (n : Node) : (h.alloc n).next = h.next + 1 := by
  simp [Heap.next, Heap.alloc]

/-! ### Derived reads after an update -/

theorem kindOf_eq {h : Heap} {x : Id} {n : Node} (e : h.get x = some n) : h.kindOf x = some n.kind := by
  simp [Heap.kindOf, e]

theorem kindOf_some {h : Heap} {x : Id} {k : Kind} (e : h.kindOf x = some k) : ∃ n, h.get x = some n ∧ n.kind = k := by
  unfold Heap.kindOf at e
  cases eg : h.get x with
  | none => simp [eg] at e
  | some n => exact ⟨n, rfl, by simpa [eg] using e⟩

theorem ownerOf_eq {h : Heap} {x : Id} {n : Node} (e : h.get x = some n) : h.ownerOf x = owner n := by
  simp [Heap.ownerOf, e]

theorem ownerOf_some {h : Heap} {x p : Id} (e : h.ownerOf x = some p) : ∃ n, h.get x = some n ∧ owner n = some p := by
  unfold Heap.ownerOf at e
  cases eg : h.get x with
  | none => simp [eg] at e
  | some n => exact ⟨n, rfl, by simpa [eg] using e⟩

theorem kidsOf_eq {h : Heap} {x : Id} {n : Node} (e : h.get x = some n) : h.kidsOf x = n.kids := by
  simp [Heap.kidsOf, e]

theorem mem_kidsOf {h : Heap} {x p : Id} (e : x ∈ h.kidsOf p) : ∃ n, h.get p = some n ∧ x ∈ n.kids := by
  unfold Heap.kidsOf at e
  cases eg : h.get p with
  | none => simp [eg] at e
  | some n => exact ⟨n, rfl, by simpa [eg] using e⟩

/-! ### The ancestor walk -/

theorem anc_succ (h : Heap) (k : Kind) (f : Nat) (x : Id) :
    anc h k (f + 1) x = match h.ownerOf x with
      | none => none
      | some p => if h.kindOf p = some k then some p else anc h k f p := rfl

theorem anc_owner_none {h : Heap} {k : Kind} {f : Nat} {x : Id} (e : h.ownerOf x = none) : anc h k f x = none := by
  cases f with
  | zero => rfl
  | succ f => simp [anc_succ, e]

theorem anc_step_eq {h : Heap} {k : Kind} {f : Nat} {x p : Id} (e : h.ownerOf x = some p) (ek : h.kindOf p = some k) :
    anc h k (f + 1) x = some p := by simp [anc_succ, e, ek]

theorem anc_step_ne {h : Heap} {k : Kind} {f : Nat} {x p : Id} (e : h.ownerOf x = some p) (ek : h.kindOf p ≠ some k) :
    anc h k (f + 1) x = anc h k f p := by simp [anc_succ, e, ek]

theorem anc_kind {h : Heap} {k : Kind} {f : Nat} {x a : Id} (e : anc h k f x = some a) : h.kindOf a = some k := by
  induction f generalizing x with
  | zero => simp [anc] at e
  | succ f ih =>
    rw [anc_succ] at e
    split at e
    · simp at e
    · rename_i p ep
      by_cases ek : h.kindOf p = some k
      · simp [ek] at e; subst e; exact ek
      · simp [ek] at e; exact ih e

theorem anc_congr {h h' : Heap} (ho : ∀ i, h'.ownerOf i = h.ownerOf i) (hk : ∀ i, h'.kindOf i = h.kindOf i)
    (k : Kind) (f : Nat) (x : Id) : anc h' k f x = anc h k f x := by
  induction f generalizing x with
  | zero => rfl
  | succ f ih =>
    rw [anc_succ, anc_succ, ho x]
    cases h.ownerOf x with
    | none => rfl
    | some p => simp only [hk p, ih p]

/-- changing one object that owns nothing does not change what is above anything else -/
theorem anc_frame {h h' : Heap} {z : Id} (hg : ∀ i, i ≠ z → h'.get i = h.get i)
    (hz : ∀ i, h.ownerOf i ≠ some z) (k : Kind) (f : Nat) (x : Id) (hx : x ≠ z) :
    anc h' k f x = anc h k f x := by
  induction f generalizing x with
  | zero => rfl
  | succ f ih =>
    have e1 : h'.ownerOf x = h.ownerOf x := by simp [Heap.ownerOf, hg x hx]
    rw [anc_succ, anc_succ, e1]
    cases ep : h.ownerOf x with
    | none => rfl
    | some p =>
      have hp : p ≠ z := by intro e; subst e; exact hz x ep
      have e2 : h'.kindOf p = h.kindOf p := by simp [Heap.kindOf, hg p hp]
      simp only [e2, ih p hp]

/-! ### Consequences of the structural invariant: the walk does not depend on fuel -/

/-- depth of a kind in the tree -/
def rank : Kind → Nat
  | .font => 0 | .layerSet => 1 | .layer => 2 | .glyph => 3 | _ => 4

def rankOf (h : Heap) (x : Id) : Nat := match h.kindOf x with | some k => rank k | none => 4

theorem allowed_rank {kp kx : Kind} (e : allowed kp kx = true) : rank kp < rank kx ∧ rank kp ≤ 3 := by
  cases kp <;> cases kx <;> simp [allowed, Kind.isLeaf, rank] at e ⊢

theorem owner_node {ds} {h : Heap} (s : Struct ds h) {x p : Id} {n : Node} (e : h.get x = some n)
    (eo : owner n = some p) : ∃ np, h.get p = some np ∧ x ∈ np.kids ∧ allowed np.kind n.kind = true := by
  obtain ⟨np, ep, hm⟩ := mem_kidsOf (s.up x n p e eo)
  obtain ⟨nx, ex, ha⟩ := s.kKids p np x ep hm
  rw [e] at ex; cases ex
  exact ⟨np, ep, hm, ha⟩

theorem ownerOf_node {ds} {h : Heap} (s : Struct ds h) {x p : Id} (eo : h.ownerOf x = some p) :
    ∃ n np, h.get x = some n ∧ owner n = some p ∧ h.get p = some np ∧ x ∈ np.kids ∧ allowed np.kind n.kind = true := by
  obtain ⟨n, e, eo'⟩ := ownerOf_some eo
  obtain ⟨np, a, b, c⟩ := owner_node s e eo'
  exact ⟨n, np, e, eo', a, b, c⟩

theorem owner_font (n : Node) (e : n.kind = .font) : owner n = none := by simp [owner, e]

theorem anc_fuel {ds} {h : Heap} (s : Struct ds h) (k : Kind) (r : Nat) :
    ∀ x, rankOf h x ≤ r → ∀ f, r ≤ f → anc h k f x = anc h k r x := by
  induction r with
  | zero =>
    intro x hr f _
    have : h.ownerOf x = none := by
      unfold rankOf at hr
      cases ek : h.kindOf x with
      | none => simp [Heap.ownerOf]; unfold Heap.kindOf at ek; cases eg : h.get x <;> simp_all
      | some kx =>
        obtain ⟨n, eg, ekn⟩ := kindOf_some ek
        simp [ek] at hr
        have : kx = .font := by cases kx <;> simp [rank] at hr ⊢
        subst this
        rw [ownerOf_eq eg]; exact owner_font n ekn
    rw [anc_owner_none this, anc_owner_none this]
  | succ r ih =>
    intro x hr f hf
    obtain ⟨f', rfl⟩ : ∃ f', f = f' + 1 := ⟨f - 1, by omega⟩
    rw [anc_succ, anc_succ]
    cases eo : h.ownerOf x with
    | none => rfl
    | some p =>
      obtain ⟨n, np, e, _, ep, _, ha⟩ := ownerOf_node s eo
      have hr2 : rankOf h p ≤ r := by
        have := (allowed_rank ha).1
        simp only [rankOf, kindOf_eq e, kindOf_eq ep] at hr ⊢
        omega
      simp only [ih p hr2 f' (by omega)]

theorem ancOf_rec {ds} {h : Heap} (s : Struct ds h) (k : Kind) (x : Id) :
    ancOf h k x = match h.ownerOf x with
      | none => none
      | some p => if h.kindOf p = some k then some p else ancOf h k p := by
  unfold ancOf
  rw [anc_succ]
  cases eo : h.ownerOf x with
  | none => rfl
  | some p =>
    obtain ⟨n, np, e, _, ep, _, ha⟩ := ownerOf_node s eo
    have hr2 : rankOf h p ≤ 3 := by
      have := (allowed_rank ha).2
      simp only [rankOf, kindOf_eq ep]; omega
    simp only [anc_fuel s k 3 p hr2 4 (by omega)]


theorem ancOf_none {ds} {h : Heap} (s : Struct ds h) {k : Kind} {x : Id} (e : h.ownerOf x = none) : ancOf h k x = none := by
  rw [ancOf_rec s, e]

theorem ancOf_eq {ds} {h : Heap} (s : Struct ds h) {k : Kind} {x p : Id} (e : h.ownerOf x = some p)
    (ek : h.kindOf p = some k) : ancOf h k x = some p := by
  rw [ancOf_rec s, e]; simp [ek]

theorem ancOf_ne {ds} {h : Heap} (s : Struct ds h) {k : Kind} {x p : Id} (e : h.ownerOf x = some p)
    (ek : h.kindOf p ≠ some k) : ancOf h k x = ancOf h k p := by
  rw [ancOf_rec s, e]; simp [ek]

theorem ancOf_kind {h : Heap} {k : Kind} {x a : Id} (e : ancOf h k x = some a) : h.kindOf a = some k := anc_kind e

/-- the kind of an owner, by the kind of what it owns -/
theorem owner_kind {ds} {h : Heap} (s : Struct ds h) {x p : Id} {n : Node} (e : h.get x = some n)
    (eo : owner n = some p) :
    ∃ np, h.get p = some np ∧
      (n.kind = .layerSet → np.kind = .font) ∧ (n.kind = .layer → np.kind = .layerSet) ∧
      (n.kind = .glyph → np.kind = .layer) ∧
      (n.kind.isLeaf = true → np.kind = .glyph ∨ np.kind = .layer ∨ np.kind = .font) ∧ n.kind ≠ .font := by
  obtain ⟨np, ep, _, ha⟩ := owner_node s e eo
  refine ⟨np, ep, ?_⟩
  cases hk : n.kind <;> cases hp : np.kind <;> simp [allowed, Kind.isLeaf, hk, hp] at ha ⊢

/-- exactness of the stored references of a layer set -/
theorem exact_layerSet {ds} {h : Heap} (s : Struct ds h) {x : Id} {n : Node} (e : h.get x = some n)
    (k : n.kind = .layerSet) : n.pFont = ancOf h .font x ∧ n.pFont ≠ none := by
  have hf := ((s.full x n e).2.2 k)
  cases ef : n.pFont with
  | none => exact absurd ef hf
  | some f => exact ⟨(((s.refs x n f e).2.2.2.1) ef).symm, by simp⟩

theorem exact_layer {ds} {h : Heap} (s : Struct ds h) {x : Id} {n : Node} (e : h.get x = some n)
    (k : n.kind = .layer) :
    n.pLayerSet = ancOf h .layerSet x ∧ n.pLayerSet.bind h.storedFont = ancOf h .font x := by
  have ho : h.ownerOf x = n.pLayerSet := by rw [ownerOf_eq e]; simp [owner, k]
  cases es : n.pLayerSet with
  | none =>
    rw [es] at ho
    simp [ancOf_none s ho]
  | some sid =>
    rw [es] at ho
    obtain ⟨np, ep, _, hk, _⟩ := owner_kind s e (by rw [← ownerOf_eq e]; exact ho)
    have kp : h.kindOf sid = some .layerSet := by rw [kindOf_eq ep, hk k]
    refine ⟨(ancOf_eq s ho kp).symm, ?_⟩
    rw [ancOf_ne s ho (by rw [kp]; simp)]
    simp only [Option.bind_some, Heap.storedFont, ep]
    exact (exact_layerSet s ep (hk k)).1

theorem exact_glyph {ds} {h : Heap} (s : Struct ds h) {x : Id} {n : Node} (e : h.get x = some n)
    (k : n.kind = .glyph) :
    n.pLayer = ancOf h .layer x ∧ n.pLayerSet = ancOf h .layerSet x ∧ n.pFont = ancOf h .font x := by
  have ho : h.ownerOf x = n.pLayer := by rw [ownerOf_eq e]; simp [owner, k]
  cases es : n.pLayer with
  | none =>
    rw [es] at ho
    have := s.loose x n e (by rw [← ownerOf_eq e]; exact ho)
    simp [ancOf_none s ho, this]
  | some l =>
    rw [es] at ho
    obtain ⟨np, ep, _, _, hk, _⟩ := owner_kind s e (by rw [← ownerOf_eq e]; exact ho)
    have kp : h.kindOf l = some .layer := by rw [kindOf_eq ep, hk k]
    have hfull := (s.full x n e).1 k (by simp [es])
    refine ⟨(ancOf_eq s ho kp).symm, ?_, ?_⟩
    · cases e2 : n.pLayerSet with
      | none => exact absurd e2 hfull.1
      | some a => exact (((s.refs x n a e).2.2.1) e2).symm
    · cases e2 : n.pFont with
      | none => exact absurd e2 hfull.2
      | some a => exact (((s.refs x n a e).2.2.2.1) e2).symm


theorem anc_rank {ds} {h : Heap} (s : Struct ds h) {k : Kind} {f : Nat} {x a : Id} (e : anc h k f x = some a) :
    rank k < rankOf h x := by
  induction f generalizing x with
  | zero => simp [anc] at e
  | succ f ih =>
    rw [anc_succ] at e
    cases eo : h.ownerOf x with
    | none => simp [eo] at e
    | some p =>
      obtain ⟨n, np, en, _, ep, _, ha⟩ := ownerOf_node s eo
      have hr := (allowed_rank ha).1
      simp only [eo] at e
      by_cases ek : h.kindOf p = some k
      · rw [kindOf_eq ep] at ek
        simp only [rankOf, kindOf_eq en]
        have : np.kind = k := by simpa using ek
        subst this
        omega
      · simp only [ek, if_false] at e
        have := ih e
        simp only [rankOf, kindOf_eq en, kindOf_eq ep] at this ⊢
        omega

theorem ancOf_low {ds} {h : Heap} (s : Struct ds h) {k : Kind} {x : Id} (hr : rankOf h x ≤ rank k) : ancOf h k x = none := by
  cases e : ancOf h k x with
  | none => rfl
  | some a => have := anc_rank s e; omega

theorem or_sub {α} {o X : Option α} (hsub : ∀ a, o = some a → X = some a) : o.or X = X := by
  cases o with
  | none => simp
  | some a => simp [hsub a rfl]


/-! unfolding the accessors by kind -/
theorem glyphOf_leaf {h : Heap} {x : Id} {n : Node} (e : h.get x = some n) (k : n.kind.isLeaf = true) :
    glyphOf h x = n.pGlyph := by simp [glyphOf, e, k]

theorem layerOf_leaf {h : Heap} {x : Id} {n : Node} (e : h.get x = some n) (k : n.kind.isLeaf = true) :
    layerOf h x = n.pLayer.or (n.pGlyph.bind h.storedLayer) := by
  unfold layerOf; simp only [e]; cases hk : n.kind <;> simp [hk, Kind.isLeaf] at k ⊢

def Kind.viaLayer : Kind → Bool
  | .guideline | .lib => true
  | _ => false

theorem layerSetOf_leaf_via {h : Heap} {x : Id} {n : Node} (e : h.get x = some n) (k : n.kind.viaLayer = true) :
    layerSetOf h x = n.pLayerSet.or ((layerOf h x).bind h.storedLayerSet) := by
  unfold layerSetOf; simp only [e]; cases hk : n.kind <;> simp [hk, Kind.viaLayer] at k ⊢

theorem layerSetOf_leaf_direct {h : Heap} {x : Id} {n : Node} (e : h.get x = some n) (k : n.kind.isLeaf = true)
    (k2 : n.kind.viaLayer = false) : layerSetOf h x = n.pLayerSet.or (n.pGlyph.bind h.storedLayerSet) := by
  unfold layerSetOf; simp only [e]; cases hk : n.kind <;> simp [hk, Kind.viaLayer, Kind.isLeaf] at k k2 ⊢

theorem fontOf_leaf_via {h : Heap} {x : Id} {n : Node} (e : h.get x = some n) (k : n.kind.viaLayer = true) :
    fontOf h x = n.pFont.or ((layerSetOf h x).bind h.storedFont) := by
  unfold fontOf; simp only [e]; cases hk : n.kind <;> simp [hk, Kind.viaLayer] at k ⊢

theorem fontOf_leaf_direct {h : Heap} {x : Id} {n : Node} (e : h.get x = some n) (k : n.kind.isLeaf = true)
    (k2 : n.kind.viaLayer = false) : fontOf h x = n.pFont.or (n.pGlyph.bind h.storedFont) := by
  unfold fontOf; simp only [e]; cases hk : n.kind <;> simp [hk, Kind.viaLayer, Kind.isLeaf] at k k2 ⊢

theorem dispOf_nonfont {h : Heap} {x : Id} {n : Node} (e : h.get x = some n) (k : n.kind ≠ .font) :
    dispOf h x = n.disp.or (fontOf h x) := by
  unfold dispOf; simp only [e]

theorem dispOf_font {h : Heap} {x : Id} {n : Node} (e : h.get x = some n) (k : n.kind = .font) :
    dispOf h x = some x := by
  unfold dispOf; simp only [e, k]

theorem viaLayer_leaf {k : Kind} (e : k.viaLayer = true) : k.isLeaf = true := by
  cases k <;> simp [Kind.viaLayer, Kind.isLeaf] at e ⊢

/-- a glyph's stored layer set is its layer's, its stored font its layer set's -/
theorem glyph_via {ds} {h : Heap} (s : Struct ds h) {g : Id} {ng : Node} (e : h.get g = some ng) (k : ng.kind = .glyph) :
    ng.pLayer.bind h.storedLayerSet = ng.pLayerSet ∧ ng.pLayerSet.bind h.storedFont = ng.pFont := by
  obtain ⟨E1, E2, E3⟩ := exact_glyph s e k
  have ho : h.ownerOf g = ng.pLayer := by rw [ownerOf_eq e]; simp [owner, k]
  cases el : ng.pLayer with
  | none =>
    rw [el] at ho
    have := s.loose g ng e (by rw [← ownerOf_eq e]; exact ho)
    simp [this]
  | some l =>
    rw [el] at ho
    have kl : h.kindOf l = some .layer := ancOf_kind (by rw [← E1]; exact el)
    obtain ⟨nl, enl, knl⟩ := kindOf_some kl
    obtain ⟨L1, L2⟩ := exact_layer s enl knl
    have a1 : ancOf h .layerSet g = ancOf h .layerSet l := ancOf_ne s ho (by rw [kl]; simp)
    have a2 : ancOf h .font g = ancOf h .font l := ancOf_ne s ho (by rw [kl]; simp)
    have e1 : nl.pLayerSet = ng.pLayerSet := by rw [L1, E2, a1]
    constructor
    · simp [Heap.storedLayerSet, enl, e1]
    · rw [← e1, L2, E3, a2]

theorem owner_leaf_glyph {n : Node} {g : Id} (k : n.kind.isLeaf = true) (eg : n.pGlyph = some g) : owner n = some g := by
  cases hk : n.kind <;> simp [owner, hk, eg, Kind.isLeaf] at k ⊢


/-- a leaf owned by a glyph -/
theorem exact_leaf_glyph {ds} {h : Heap} (s : Struct ds h) {x g : Id} {n : Node} (e : h.get x = some n)
    (k : n.kind.isLeaf = true) (eg : n.pGlyph = some g) :
    ∃ ng, h.get g = some ng ∧ ng.kind = .glyph ∧ h.ownerOf x = some g ∧
      ancOf h .glyph x = some g ∧ ancOf h .layer x = ng.pLayer ∧ ancOf h .layerSet x = ng.pLayerSet ∧
      ancOf h .font x = ng.pFont ∧
      layerOf h x = ng.pLayer ∧ layerSetOf h x = ng.pLayerSet ∧ fontOf h x = ng.pFont ∧ dispOf h x = ng.pFont := by
  have ho : h.ownerOf x = some g := by rw [ownerOf_eq e]; exact owner_leaf_glyph k eg
  have kg : h.kindOf g = some .glyph := ancOf_kind ((s.refs x n g e).1 eg)
  obtain ⟨ng, eng, kng⟩ := kindOf_some kg
  obtain ⟨E1, E2, E3⟩ := exact_glyph s eng kng
  obtain ⟨V1, V2⟩ := glyph_via s eng kng
  have A1 : ancOf h .glyph x = some g := ancOf_eq s ho kg
  have A2 : ancOf h .layer x = ng.pLayer := by rw [ancOf_ne s ho (by rw [kg]; simp), E1]
  have A3 : ancOf h .layerSet x = ng.pLayerSet := by rw [ancOf_ne s ho (by rw [kg]; simp), E2]
  have A4 : ancOf h .font x = ng.pFont := by rw [ancOf_ne s ho (by rw [kg]; simp), E3]
  have sl : h.storedLayer g = ng.pLayer := by simp [Heap.storedLayer, eng]
  have ss : h.storedLayerSet g = ng.pLayerSet := by simp [Heap.storedLayerSet, eng]
  have sf : h.storedFont g = ng.pFont := by simp [Heap.storedFont, eng]
  have L : layerOf h x = ng.pLayer := by
    rw [layerOf_leaf e k, eg, Option.bind_some, sl]
    exact or_sub fun a ea => by rw [← A2]; exact (s.refs x n a e).2.1 ea
  have subLS : ∀ a, n.pLayerSet = some a → ng.pLayerSet = some a := fun a ea => by
    rw [← A3]; exact (s.refs x n a e).2.2.1 ea
  have subF : ∀ a, n.pFont = some a → ng.pFont = some a := fun a ea => by
    rw [← A4]; exact (s.refs x n a e).2.2.2.1 ea
  have LS : layerSetOf h x = ng.pLayerSet := by
    cases hv : n.kind.viaLayer with
    | true => rw [layerSetOf_leaf_via e hv, L, V1]; exact or_sub subLS
    | false => rw [layerSetOf_leaf_direct e k hv, eg, Option.bind_some, ss]; exact or_sub subLS
  have F : fontOf h x = ng.pFont := by
    cases hv : n.kind.viaLayer with
    | true => rw [fontOf_leaf_via e hv, LS, V2]; exact or_sub subF
    | false => rw [fontOf_leaf_direct e k hv, eg, Option.bind_some, sf]; exact or_sub subF
  have knf : n.kind ≠ .font := by intro hk; simp [hk, Kind.isLeaf] at k
  have D : dispOf h x = ng.pFont := by
    rw [dispOf_nonfont e knf, F]
    exact or_sub fun a ea => by rw [← A4]; exact (s.refs x n a e).2.2.2.2 ea
  exact ⟨ng, eng, kng, ho, A1, A2, A3, A4, L, LS, F, D⟩


/-- an object that points to no owner answers nothing -/
theorem exact_loose {ds} {h : Heap} (s : Struct ds h) {x : Id} {n : Node} (e : h.get x = some n)
    (k : n.kind ≠ .font) (eo : owner n = none) :
    (∀ kk, ancOf h kk x = none) ∧ glyphOf h x = none ∧ layerOf h x = none ∧ layerSetOf h x = none ∧
      fontOf h x = none ∧ dispOf h x = none ∧ parentOf h x = none := by
  obtain ⟨l1, l2, l3, l4, l5⟩ := s.loose x n e eo
  have ho : h.ownerOf x = none := by rw [ownerOf_eq e]; exact eo
  refine ⟨fun kk => ancOf_none s ho, ?_, ?_, ?_, ?_, ?_, ?_⟩
  · simp [glyphOf, e, l1]
  · have : layerOf h x = none := by unfold layerOf; simp only [e]; cases hk : n.kind <;> simp [hk, l1, l2]
    exact this
  · have L : layerOf h x = none := by unfold layerOf; simp only [e]; cases hk : n.kind <;> simp [hk, l1, l2]
    unfold layerSetOf; simp only [e]; cases hk : n.kind <;> simp [hk, l1, l3, L]
  · have L : layerOf h x = none := by unfold layerOf; simp only [e]; cases hk : n.kind <;> simp [hk, l1, l2]
    have LS : layerSetOf h x = none := by unfold layerSetOf; simp only [e]; cases hk : n.kind <;> simp [hk, l1, l3, L]
    unfold fontOf; simp only [e]; cases hk : n.kind <;> simp [hk, l1, l3, l4, LS]
  · have L : layerOf h x = none := by unfold layerOf; simp only [e]; cases hk : n.kind <;> simp [hk, l1, l2]
    have LS : layerSetOf h x = none := by unfold layerSetOf; simp only [e]; cases hk : n.kind <;> simp [hk, l1, l3, L]
    have F : fontOf h x = none := by unfold fontOf; simp only [e]; cases hk : n.kind <;> simp [hk, l1, l3, l4, LS]
    rw [dispOf_nonfont e k, F, l5]; rfl
  · unfold parentOf; simp only [e]; cases hk : n.kind <;> simp [hk, l1, l2, l3, l4]

theorem ownerOf_font {h : Heap} {f : Id} (k : h.kindOf f = some .font) : h.ownerOf f = none := by
  obtain ⟨n, e, kn⟩ := kindOf_some k
  rw [ownerOf_eq e]; exact owner_font n kn

/-- a guideline or lib owned by a font -/
theorem exact_leaf_font {ds} {h : Heap} (s : Struct ds h) {x f : Id} {n : Node} (e : h.get x = some n)
    (k : n.kind.isLeaf = true) (eg : n.pGlyph = none) (el : n.pLayer = none) (ef : n.pFont = some f) :
    h.kindOf f = some .font ∧ h.ownerOf x = some f ∧
      ancOf h .glyph x = none ∧ ancOf h .layer x = none ∧ ancOf h .layerSet x = none ∧ ancOf h .font x = some f ∧
      layerOf h x = none ∧ layerSetOf h x = none ∧ fontOf h x = some f ∧ dispOf h x = some f := by
  have kf : h.kindOf f = some .font := ancOf_kind ((s.refs x n f e).2.2.2.1 ef)
  have hv : n.kind.viaLayer = true := by
    -- only guidelines and libs may point to a font without pointing to a glyph
    cases hk : n.kind <;> simp [Kind.viaLayer, Kind.isLeaf, hk] at k ⊢ <;>
      (have := s.loose x n e (by simp [owner, hk, eg]); simp [ef] at this)
  have ho : h.ownerOf x = some f := by
    rw [ownerOf_eq e]; cases hk : n.kind <;> simp [owner, hk, eg, el, ef, Kind.viaLayer] at hv ⊢
  have of : h.ownerOf f = none := ownerOf_font kf
  have A : ∀ kk, kk ≠ .font → ancOf h kk x = none := fun kk hkk => by
    rw [ancOf_ne s ho (by rw [kf]; simpa using hkk.symm)]; exact ancOf_none s of
  have A4 : ancOf h .font x = some f := ancOf_eq s ho kf
  have ls : n.pLayerSet = none := by
    cases e2 : n.pLayerSet with
    | none => rfl
    | some a => have := (s.refs x n a e).2.2.1 e2; rw [A .layerSet (by simp)] at this; simp at this
  have L : layerOf h x = none := by rw [layerOf_leaf e k, eg, el]; rfl
  have LS : layerSetOf h x = none := by rw [layerSetOf_leaf_via e hv, L, ls]; rfl
  have F : fontOf h x = some f := by rw [fontOf_leaf_via e hv, ef]; rfl
  have knf : n.kind ≠ .font := by intro hk; simp [hk, Kind.isLeaf] at k
  have D : dispOf h x = some f := by
    rw [dispOf_nonfont e knf, F]
    exact or_sub fun a ea => by rw [← A4]; exact (s.refs x n a e).2.2.2.2 ea
  exact ⟨kf, ho, A .glyph (by simp), A .layer (by simp), A .layerSet (by simp), A4, L, LS, F, D⟩

/-- a lib owned by a layer -/
theorem exact_leaf_layer {ds} {h : Heap} (s : Struct ds h) {x l : Id} {n : Node} (e : h.get x = some n)
    (k : n.kind.isLeaf = true) (eg : n.pGlyph = none) (el : n.pLayer = some l) :
    ∃ nl, h.get l = some nl ∧ nl.kind = .layer ∧ h.ownerOf x = some l ∧
      ancOf h .glyph x = none ∧ ancOf h .layer x = some l ∧ ancOf h .layerSet x = nl.pLayerSet ∧
      ancOf h .font x = nl.pLayerSet.bind h.storedFont ∧
      layerOf h x = some l ∧ layerSetOf h x = nl.pLayerSet ∧ fontOf h x = nl.pLayerSet.bind h.storedFont ∧
      dispOf h x = nl.pLayerSet.bind h.storedFont := by
  have kl : h.kindOf l = some .layer := ancOf_kind ((s.refs x n l e).2.1 el)
  obtain ⟨nl, enl, knl⟩ := kindOf_some kl
  have hk : n.kind = .lib := by
    by_cases hl : n.kind = .lib
    · exact hl
    exfalso
    by_cases hg : n.kind = .guideline
    · -- guideline: owner would be the font reference; a layer reference needs a glyph or lib
      cases ef : n.pFont with
      | none => have := s.loose x n e (by simp [owner, hg, eg, ef]); simp [el] at this
      | some f =>
        have h1 := (s.refs x n f e).2.2.2.1 ef
        have ho : h.ownerOf x = some f := by rw [ownerOf_eq e]; simp [owner, hg, eg, ef]
        have kf := ancOf_kind h1
        have h2 := (s.refs x n l e).2.1 el
        rw [ancOf_ne s ho (by rw [kf]; simp), ancOf_none s (ownerOf_font kf)] at h2
        simp at h2
    · have : owner n = none := by cases hk : n.kind <;> simp [owner, hk, eg, Kind.isLeaf] at k hl hg ⊢
      have := s.loose x n e this
      simp [el] at this
  have hv : n.kind.viaLayer = true := by simp [hk, Kind.viaLayer]
  have ho : h.ownerOf x = some l := by rw [ownerOf_eq e]; simp [owner, hk, eg, el]
  obtain ⟨L1, L2⟩ := exact_layer s enl knl
  have A1 : ancOf h .glyph x = none := by
    rw [ancOf_ne s ho (by rw [kl]; simp)]
    exact ancOf_low s (by simp [rankOf, kl, rank])
  have A2 : ancOf h .layer x = some l := ancOf_eq s ho kl
  have A3 : ancOf h .layerSet x = nl.pLayerSet := by rw [ancOf_ne s ho (by rw [kl]; simp), L1]
  have A4 : ancOf h .font x = nl.pLayerSet.bind h.storedFont := by rw [ancOf_ne s ho (by rw [kl]; simp), L2]
  have L : layerOf h x = some l := by rw [layerOf_leaf e k, el]; rfl
  have LS : layerSetOf h x = nl.pLayerSet := by
    rw [layerSetOf_leaf_via e hv, L, Option.bind_some]
    have : h.storedLayerSet l = nl.pLayerSet := by simp [Heap.storedLayerSet, enl]
    rw [this]
    exact or_sub fun a ea => by rw [← A3]; exact (s.refs x n a e).2.2.1 ea
  have F : fontOf h x = nl.pLayerSet.bind h.storedFont := by
    rw [fontOf_leaf_via e hv, LS]
    exact or_sub fun a ea => by rw [← A4]; exact (s.refs x n a e).2.2.2.1 ea
  have knf : n.kind ≠ .font := by simp [hk]
  have D : dispOf h x = nl.pLayerSet.bind h.storedFont := by
    rw [dispOf_nonfont e knf, F]
    exact or_sub fun a ea => by rw [← A4]; exact (s.refs x n a e).2.2.2.2 ea
  exact ⟨nl, enl, knl, ho, A1, A2, A3, A4, L, LS, F, D⟩


/-- the font and dispatcher accessors of anything but a font answer the font above it -/
theorem font_exact {ds} {h : Heap} (s : Struct ds h) {x : Id} {n : Node} (e : h.get x = some n) (k : n.kind ≠ .font) :
    fontOf h x = ancOf h .font x ∧ dispOf h x = ancOf h .font x := by
  have D : fontOf h x = ancOf h .font x → dispOf h x = ancOf h .font x := fun F => by
    rw [dispOf_nonfont e k, F]
    exact or_sub fun a ea => (s.refs x n a e).2.2.2.2 ea
  suffices F : fontOf h x = ancOf h .font x from ⟨F, D F⟩
  cases hl : n.kind.isLeaf with
  | false =>
    cases hk : n.kind <;> simp [hk, Kind.isLeaf] at hl k
    · have := (exact_layerSet s e hk).1
      simp only [fontOf, e, hk]; exact this
    · have := (exact_layer s e hk).2
      simp only [fontOf, e, hk]; exact this
    · have := (exact_glyph s e hk).2.2
      simp only [fontOf, e, hk]; exact this
  | true =>
    cases eg : n.pGlyph with
    | some g =>
      obtain ⟨ng, _, _, _, _, _, _, A4, _, _, F, _⟩ := exact_leaf_glyph s e hl eg
      rw [F, A4]
    | none =>
      cases el : n.pLayer with
      | some l =>
        obtain ⟨nl, _, _, _, _, _, _, A4, _, _, F, _⟩ := exact_leaf_layer s e hl eg el
        rw [F, A4]
      | none =>
        cases ef : n.pFont with
        | some f =>
          obtain ⟨_, _, _, _, _, A4, _, _, F, _⟩ := exact_leaf_font s e hl eg el ef
          rw [F, A4]
        | none =>
          have eo : owner n = none := by cases hk : n.kind <;> simp [owner, hk, eg, el, ef, Kind.isLeaf] at hl ⊢
          obtain ⟨A, _, _, _, F, _⟩ := exact_loose s e k eo
          rw [F, A]

theorem disp_exact {ds} {h : Heap} (s : Struct ds h) (x : Id) : dispOf h x = centreOf h x := by
  cases e : h.get x with
  | none =>
    have : h.ownerOf x = none := by simp [Heap.ownerOf, e]
    simp [dispOf, e, centreOf, Heap.kindOf, ancOf_none s this]
  | some n =>
    by_cases k : n.kind = .font
    · rw [dispOf_font e k]; simp [centreOf, kindOf_eq e, k]
    · rw [(font_exact s e k).2]; simp [centreOf, kindOf_eq e, k]

end Parents
end DefconModel
