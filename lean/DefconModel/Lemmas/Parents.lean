/-
Helper lemmas for C11 (M-Parents).
-/
import DefconModel.Spec.Parents

set_option linter.unusedSimpArgs false
set_option linter.unusedVariables false

namespace DefconModel
namespace Parents

/-! ### Heap primitives -/

theorem get_upd (h : Heap) (i : Id) (f : Node → Node) (j : Id) :
    (h.upd i f).get j = if i = j then (h.get i).map f else h.get j := by
  unfold Heap.upd
  cases hi : h.get i with
  | none =>
    by_cases e : i = j
    · subst e; simp [hi]
    · simp [e]
  | some n =>
    simp only [Heap.setNode, Heap.get, Option.map_some]
    by_cases e : i = j
    · subst e
      have : i < h.nodes.length := by
        simp only [Heap.get] at hi
        exact (List.getElem?_eq_some_iff.mp hi).1
      simp [this]
    · simp [e, List.getElem?_set_ne e]

theorem get_alloc (h : Heap) (n : Node) (j : Id) :
    (h.alloc n).get j = if j = h.next then some n else h.get j := by
  simp only [Heap.alloc, Heap.get, Heap.next]
  rcases Nat.lt_trichotomy j h.nodes.length with lt | e | gt
  · have e : j ≠ h.nodes.length := Nat.ne_of_lt lt
    simp [e, List.getElem?_append_left lt]
  · subst e; simp
  · have e : j ≠ h.nodes.length := Nat.ne_of_gt gt
    simp only [e, if_false]
    rw [List.getElem?_eq_none (by simp only [List.length_append, List.length_cons, List.length_nil]; omega),
      List.getElem?_eq_none (by omega)]

theorem get_next (h : Heap) : h.get h.next = none := by
  simp [Heap.get, Heap.next]

theorem get_lt {h : Heap} {i : Id} {n : Node} (e : h.get i = some n) : i < h.next := by
  simp only [Heap.get] at e
  exact (List.getElem?_eq_some_iff.mp e).1

@[simp] theorem regs_upd (h : Heap) (i : Id) (f : Node → Node) : (h.upd i f).regs = h.regs := by
  unfold Heap.upd; split <;> rfl
@[simp] theorem regs_alloc (h : Heap) (n : Node) : (h.alloc n).regs = h.regs := rfl
@[simp] theorem next_upd (h : Heap) (i : Id) (f : Node → Node) : (h.upd i f).next = h.next := by
  unfold Heap.upd; split <;> simp [Heap.next, Heap.setNode]
@[simp] theorem next_alloc (h : Heap) (n : Node) : (h.alloc n).next = h.next + 1 := by
  simp [Heap.next, Heap.alloc]

/-! ### Derived reads after an update -/

theorem kindOf_eq {h : Heap} {x : Id} {n : Node} (e : h.get x = some n) : h.kindOf x = some n.kind := by
  simp [Heap.kindOf, e]

theorem kindOf_some {h : Heap} {x : Id} {k : Kind} (e : h.kindOf x = some k) : ∃ n, h.get x = some n ∧ n.kind = k := by
  unfold Heap.kindOf at e
  cases eg : h.get x with
  | none => simp [eg] at e
  | some n => exact ⟨n, rfl, by simpa [eg] using e⟩

theorem ownerOf_eq {h : Heap} {x : Id} {n : Node} (e : h.get x = some n) : h.ownerOf x = owner n := by
  simp [Heap.ownerOf, e]

theorem ownerOf_some {h : Heap} {x p : Id} (e : h.ownerOf x = some p) : ∃ n, h.get x = some n ∧ owner n = some p := by
  unfold Heap.ownerOf at e
  cases eg : h.get x with
  | none => simp [eg] at e
  | some n => exact ⟨n, rfl, by simpa [eg] using e⟩

theorem kidsOf_eq {h : Heap} {x : Id} {n : Node} (e : h.get x = some n) : h.kidsOf x = n.kids := by
  simp [Heap.kidsOf, e]

theorem mem_kidsOf {h : Heap} {x p : Id} (e : x ∈ h.kidsOf p) : ∃ n, h.get p = some n ∧ x ∈ n.kids := by
  unfold Heap.kidsOf at e
  cases eg : h.get p with
  | none => simp [eg] at e
  | some n => exact ⟨n, rfl, by simpa [eg] using e⟩

/-! ### The ancestor walk -/

theorem anc_succ (h : Heap) (k : Kind) (f : Nat) (x : Id) :
    anc h k (f + 1) x = match h.ownerOf x with
      | none => none
      | some p => if h.kindOf p = some k then some p else anc h k f p := rfl

theorem anc_owner_none {h : Heap} {k : Kind} {f : Nat} {x : Id} (e : h.ownerOf x = none) : anc h k f x = none := by
  cases f with
  | zero => rfl
  | succ f => simp [anc_succ, e]

theorem anc_step_eq {h : Heap} {k : Kind} {f : Nat} {x p : Id} (e : h.ownerOf x = some p) (ek : h.kindOf p = some k) :
    anc h k (f + 1) x = some p := by simp [anc_succ, e, ek]

theorem anc_step_ne {h : Heap} {k : Kind} {f : Nat} {x p : Id} (e : h.ownerOf x = some p) (ek : h.kindOf p ≠ some k) :
    anc h k (f + 1) x = anc h k f p := by simp [anc_succ, e, ek]

theorem anc_kind {h : Heap} {k : Kind} {f : Nat} {x a : Id} (e : anc h k f x = some a) : h.kindOf a = some k := by
  induction f generalizing x with
  | zero => simp [anc] at e
  | succ f ih =>
    rw [anc_succ] at e
    split at e
    · simp at e
    · rename_i p ep
      by_cases ek : h.kindOf p = some k
      · simp [ek] at e; subst e; exact ek
      · simp [ek] at e; exact ih e

theorem anc_congr {h h' : Heap} (ho : ∀ i, h'.ownerOf i = h.ownerOf i) (hk : ∀ i, h'.kindOf i = h.kindOf i)
    (k : Kind) (f : Nat) (x : Id) : anc h' k f x = anc h k f x := by
  induction f generalizing x with
  | zero => rfl
  | succ f ih =>
    rw [anc_succ, anc_succ, ho x]
    cases h.ownerOf x with
    | none => rfl
    | some p => simp only [hk p, ih p]

/-- changing one object that owns nothing does not change what is above anything else -/
theorem anc_frame {h h' : Heap} {z : Id} (hg : ∀ i, i ≠ z → h'.get i = h.get i)
    (hz : ∀ i, h.ownerOf i ≠ some z) (k : Kind) (f : Nat) (x : Id) (hx : x ≠ z) :
    anc h' k f x = anc h k f x := by
  induction f generalizing x with
  | zero => rfl
  | succ f ih =>
    have e1 : h'.ownerOf x = h.ownerOf x := by simp [Heap.ownerOf, hg x hx]
    rw [anc_succ, anc_succ, e1]
    cases ep : h.ownerOf x with
    | none => rfl
    | some p =>
      have hp : p ≠ z := by intro e; subst e; exact hz x ep
      have e2 : h'.kindOf p = h.kindOf p := by simp [Heap.kindOf, hg p hp]
      simp only [e2, ih p hp]

/-! ### Consequences of the structural invariant: the walk does not depend on fuel -/

/-- depth of a kind in the tree -/
def rank : Kind → Nat
  | .font => 0 | .layerSet => 1 | .layer => 2 | .glyph => 3 | _ => 4

def rankOf (h : Heap) (x : Id) : Nat := match h.kindOf x with | some k => rank k | none => 4

theorem allowed_rank {kp kx : Kind} (e : allowed kp kx = true) : rank kp < rank kx ∧ rank kp ≤ 3 := by
  cases kp <;> cases kx <;> simp [allowed, Kind.isLeaf, rank] at e ⊢

theorem owner_node {ds} {h : Heap} (s : Struct ds h) {x p : Id} {n : Node} (e : h.get x = some n)
    (eo : owner n = some p) : ∃ np, h.get p = some np ∧ x ∈ np.kids ∧ allowed np.kind n.kind = true := by
  obtain ⟨np, ep, hm⟩ := mem_kidsOf (s.up x n p e eo)
  obtain ⟨nx, ex, ha⟩ := s.kKids p np x ep hm
  rw [e] at ex; cases ex
  exact ⟨np, ep, hm, ha⟩

theorem ownerOf_node {ds} {h : Heap} (s : Struct ds h) {x p : Id} (eo : h.ownerOf x = some p) :
    ∃ n np, h.get x = some n ∧ owner n = some p ∧ h.get p = some np ∧ x ∈ np.kids ∧ allowed np.kind n.kind = true := by
  obtain ⟨n, e, eo'⟩ := ownerOf_some eo
  obtain ⟨np, a, b, c⟩ := owner_node s e eo'
  exact ⟨n, np, e, eo', a, b, c⟩

theorem owner_font (n : Node) (e : n.kind = .font) : owner n = none := by simp [owner, e]

theorem anc_fuel {ds} {h : Heap} (s : Struct ds h) (k : Kind) (r : Nat) :
    ∀ x, rankOf h x ≤ r → ∀ f, r ≤ f → anc h k f x = anc h k r x := by
  induction r with
  | zero =>
    intro x hr f _
    have : h.ownerOf x = none := by
      unfold rankOf at hr
      cases ek : h.kindOf x with
      | none => simp [Heap.ownerOf]; unfold Heap.kindOf at ek; cases eg : h.get x <;> simp_all
      | some kx =>
        obtain ⟨n, eg, ekn⟩ := kindOf_some ek
        simp [ek] at hr
        have : kx = .font := by cases kx <;> simp [rank] at hr ⊢
        subst this
        rw [ownerOf_eq eg]; exact owner_font n ekn
    rw [anc_owner_none this, anc_owner_none this]
  | succ r ih =>
    intro x hr f hf
    obtain ⟨f', rfl⟩ : ∃ f', f = f' + 1 := ⟨f - 1, by omega⟩
    rw [anc_succ, anc_succ]
    cases eo : h.ownerOf x with
    | none => rfl
    | some p =>
      obtain ⟨n, np, e, _, ep, _, ha⟩ := ownerOf_node s eo
      have hr2 : rankOf h p ≤ r := by
        have := (allowed_rank ha).1
        simp only [rankOf, kindOf_eq e, kindOf_eq ep] at hr ⊢
        omega
      simp only [ih p hr2 f' (by omega)]

theorem ancOf_rec {ds} {h : Heap} (s : Struct ds h) (k : Kind) (x : Id) :
    ancOf h k x = match h.ownerOf x with
      | none => none
      | some p => if h.kindOf p = some k then some p else ancOf h k p := by
  unfold ancOf
  rw [anc_succ]
  cases eo : h.ownerOf x with
  | none => rfl
  | some p =>
    obtain ⟨n, np, e, _, ep, _, ha⟩ := ownerOf_node s eo
    have hr2 : rankOf h p ≤ 3 := by
      have := (allowed_rank ha).2
      simp only [rankOf, kindOf_eq ep]; omega
    simp only [anc_fuel s k 3 p hr2 4 (by omega)]


theorem ancOf_none {ds} {h : Heap} (s : Struct ds h) {k : Kind} {x : Id} (e : h.ownerOf x = none) : ancOf h k x = none := by
  rw [ancOf_rec s, e]

theorem ancOf_eq {ds} {h : Heap} (s : Struct ds h) {k : Kind} {x p : Id} (e : h.ownerOf x = some p)
    (ek : h.kindOf p = some k) : ancOf h k x = some p := by
  rw [ancOf_rec s, e]; simp [ek]

theorem ancOf_ne {ds} {h : Heap} (s : Struct ds h) {k : Kind} {x p : Id} (e : h.ownerOf x = some p)
    (ek : h.kindOf p ≠ some k) : ancOf h k x = ancOf h k p := by
  rw [ancOf_rec s, e]; simp [ek]

theorem ancOf_kind {h : Heap} {k : Kind} {x a : Id} (e : ancOf h k x = some a) : h.kindOf a = some k := anc_kind e

/-- the kind of an owner, by the kind of what it owns -/
theorem owner_kind {ds} {h : Heap} (s : Struct ds h) {x p : Id} {n : Node} (e : h.get x = some n)
    (eo : owner n = some p) :
    ∃ np, h.get p = some np ∧
      (n.kind = .layerSet → np.kind = .font) ∧ (n.kind = .layer → np.kind = .layerSet) ∧
      (n.kind = .glyph → np.kind = .layer) ∧
      (n.kind.isLeaf = true → np.kind = .glyph ∨ np.kind = .layer ∨ np.kind = .font) ∧ n.kind ≠ .font := by
  obtain ⟨np, ep, _, ha⟩ := owner_node s e eo
  refine ⟨np, ep, ?_⟩
  cases hk : n.kind <;> cases hp : np.kind <;> simp [allowed, Kind.isLeaf, hk, hp] at ha ⊢

/-- exactness of the stored references of a layer set -/
theorem exact_layerSet {ds} {h : Heap} (s : Struct ds h) {x : Id} {n : Node} (e : h.get x = some n)
    (k : n.kind = .layerSet) : n.pFont = ancOf h .font x := by
  cases ef : n.pFont with
  | none =>
    have ho : h.ownerOf x = none := by rw [ownerOf_eq e]; simp [owner, k, ef]
    rw [ancOf_none s ho]
  | some f => exact (((s.refs x n f e).2.2.2.1) ef).symm

theorem exact_layer {ds} {h : Heap} (s : Struct ds h) {x : Id} {n : Node} (e : h.get x = some n)
    (k : n.kind = .layer) :
    n.pLayerSet = ancOf h .layerSet x ∧ n.pLayerSet.bind h.storedFont = ancOf h .font x := by
  have ho : h.ownerOf x = n.pLayerSet := by rw [ownerOf_eq e]; simp [owner, k]
  cases es : n.pLayerSet with
  | none =>
    rw [es] at ho
    simp [ancOf_none s ho]
  | some sid =>
    rw [es] at ho
    obtain ⟨np, ep, _, hk, _⟩ := owner_kind s e (by rw [← ownerOf_eq e]; exact ho)
    have kp : h.kindOf sid = some .layerSet := by rw [kindOf_eq ep, hk k]
    refine ⟨(ancOf_eq s ho kp).symm, ?_⟩
    rw [ancOf_ne s ho (by rw [kp]; simp)]
    simp only [Option.bind_some, Heap.storedFont, ep]
    exact exact_layerSet s ep (hk k)

theorem exact_glyph {ds} {h : Heap} (s : Struct ds h) {x : Id} {n : Node} (e : h.get x = some n)
    (k : n.kind = .glyph) :
    n.pLayer = ancOf h .layer x ∧ n.pLayerSet = ancOf h .layerSet x ∧ n.pFont = ancOf h .font x := by
  have ho : h.ownerOf x = n.pLayer := by rw [ownerOf_eq e]; simp [owner, k]
  cases es : n.pLayer with
  | none =>
    rw [es] at ho
    have := s.loose x n e (by rw [← ownerOf_eq e]; exact ho)
    simp [ancOf_none s ho, this]
  | some l =>
    rw [es] at ho
    obtain ⟨np, ep, _, _, hk, _⟩ := owner_kind s e (by rw [← ownerOf_eq e]; exact ho)
    have kp : h.kindOf l = some .layer := by rw [kindOf_eq ep, hk k]
    have hfull := (s.full x n e).1 k (by simp [es])
    refine ⟨(ancOf_eq s ho kp).symm, ?_, ?_⟩
    · cases e2 : n.pLayerSet with
      | none => exact absurd e2 hfull.1
      | some a => exact (((s.refs x n a e).2.2.1) e2).symm
    · cases e2 : n.pFont with
      | none => exact absurd e2 hfull.2
      | some a => exact (((s.refs x n a e).2.2.2.1) e2).symm


theorem anc_rank {ds} {h : Heap} (s : Struct ds h) {k : Kind} {f : Nat} {x a : Id} (e : anc h k f x = some a) :
    rank k < rankOf h x := by
  induction f generalizing x with
  | zero => simp [anc] at e
  | succ f ih =>
    rw [anc_succ] at e
    cases eo : h.ownerOf x with
    | none => simp [eo] at e
    | some p =>
      obtain ⟨n, np, en, _, ep, _, ha⟩ := ownerOf_node s eo
      have hr := (allowed_rank ha).1
      simp only [eo] at e
      by_cases ek : h.kindOf p = some k
      · rw [kindOf_eq ep] at ek
        simp only [rankOf, kindOf_eq en]
        have : np.kind = k := by simpa using ek
        subst this
        omega
      · simp only [ek, if_false] at e
        have := ih e
        simp only [rankOf, kindOf_eq en, kindOf_eq ep] at this ⊢
        omega

theorem ancOf_low {ds} {h : Heap} (s : Struct ds h) {k : Kind} {x : Id} (hr : rankOf h x ≤ rank k) : ancOf h k x = none := by
  cases e : ancOf h k x with
  | none => rfl
  | some a => have := anc_rank s e; omega

theorem or_sub {α} {o X : Option α} (hsub : ∀ a, o = some a → X = some a) : o.or X = X := by
  cases o with
  | none => simp
  | some a => simp [hsub a rfl]


/-! unfolding the accessors by kind -/
theorem glyphOf_leaf {h : Heap} {x : Id} {n : Node} (e : h.get x = some n) (k : n.kind.isLeaf = true) :
    glyphOf h x = n.pGlyph := by simp [glyphOf, e, k]

theorem layerOf_leaf {h : Heap} {x : Id} {n : Node} (e : h.get x = some n) (k : n.kind.isLeaf = true) :
    layerOf h x = n.pLayer.or (n.pGlyph.bind h.storedLayer) := by
  unfold layerOf; simp only [e]; cases hk : n.kind <;> simp [hk, Kind.isLeaf] at k ⊢

def Kind.viaLayer : Kind → Bool
  | .guideline | .lib => true
  | _ => false

theorem layerSetOf_leaf_via {h : Heap} {x : Id} {n : Node} (e : h.get x = some n) (k : n.kind.viaLayer = true) :
    layerSetOf h x = n.pLayerSet.or ((layerOf h x).bind h.storedLayerSet) := by
  unfold layerSetOf; simp only [e]; cases hk : n.kind <;> simp [hk, Kind.viaLayer] at k ⊢

theorem layerSetOf_leaf_direct {h : Heap} {x : Id} {n : Node} (e : h.get x = some n) (k : n.kind.isLeaf = true)
    (k2 : n.kind.viaLayer = false) : layerSetOf h x = n.pLayerSet.or (n.pGlyph.bind h.storedLayerSet) := by
  unfold layerSetOf; simp only [e]; cases hk : n.kind <;> simp [hk, Kind.viaLayer, Kind.isLeaf] at k k2 ⊢

theorem fontOf_leaf_via {h : Heap} {x : Id} {n : Node} (e : h.get x = some n) (k : n.kind.viaLayer = true) :
    fontOf h x = n.pFont.or ((layerSetOf h x).bind h.storedFont) := by
  unfold fontOf; simp only [e]; cases hk : n.kind <;> simp [hk, Kind.viaLayer] at k ⊢

theorem fontOf_leaf_direct {h : Heap} {x : Id} {n : Node} (e : h.get x = some n) (k : n.kind.isLeaf = true)
    (k2 : n.kind.viaLayer = false) : fontOf h x = n.pFont.or (n.pGlyph.bind h.storedFont) := by
  unfold fontOf; simp only [e]; cases hk : n.kind <;> simp [hk, Kind.viaLayer, Kind.isLeaf] at k k2 ⊢

theorem dispOf_nonfont {h : Heap} {x : Id} {n : Node} (e : h.get x = some n) (k : n.kind ≠ .font) :
    dispOf h x = n.disp.or (fontOf h x) := by
  unfold dispOf; simp only [e]

theorem dispOf_font {h : Heap} {x : Id} {n : Node} (e : h.get x = some n) (k : n.kind = .font) :
    dispOf h x = some x := by
  unfold dispOf; simp only [e, k]

theorem viaLayer_leaf {k : Kind} (e : k.viaLayer = true) : k.isLeaf = true := by
  cases k <;> simp [Kind.viaLayer, Kind.isLeaf] at e ⊢

/-- a glyph's stored layer set is its layer's, its stored font its layer set's -/
theorem glyph_via {ds} {h : Heap} (s : Struct ds h) {g : Id} {ng : Node} (e : h.get g = some ng) (k : ng.kind = .glyph) :
    ng.pLayer.bind h.storedLayerSet = ng.pLayerSet ∧ ng.pLayerSet.bind h.storedFont = ng.pFont := by
  obtain ⟨E1, E2, E3⟩ := exact_glyph s e k
  have ho : h.ownerOf g = ng.pLayer := by rw [ownerOf_eq e]; simp [owner, k]
  cases el : ng.pLayer with
  | none =>
    rw [el] at ho
    have := s.loose g ng e (by rw [← ownerOf_eq e]; exact ho)
    simp [this]
  | some l =>
    rw [el] at ho
    have kl : h.kindOf l = some .layer := ancOf_kind (by rw [← E1]; exact el)
    obtain ⟨nl, enl, knl⟩ := kindOf_some kl
    obtain ⟨L1, L2⟩ := exact_layer s enl knl
    have a1 : ancOf h .layerSet g = ancOf h .layerSet l := ancOf_ne s ho (by rw [kl]; simp)
    have a2 : ancOf h .font g = ancOf h .font l := ancOf_ne s ho (by rw [kl]; simp)
    have e1 : nl.pLayerSet = ng.pLayerSet := by rw [L1, E2, a1]
    constructor
    · simp [Heap.storedLayerSet, enl, e1]
    · rw [← e1, L2, E3, a2]

theorem owner_leaf_glyph {n : Node} {g : Id} (k : n.kind.isLeaf = true) (eg : n.pGlyph = some g) : owner n = some g := by
  cases hk : n.kind <;> simp [owner, hk, eg, Kind.isLeaf] at k ⊢


/-- a leaf owned by a glyph -/
theorem exact_leaf_glyph {ds} {h : Heap} (s : Struct ds h) {x g : Id} {n : Node} (e : h.get x = some n)
    (k : n.kind.isLeaf = true) (eg : n.pGlyph = some g) :
    ∃ ng, h.get g = some ng ∧ ng.kind = .glyph ∧ h.ownerOf x = some g ∧
      ancOf h .glyph x = some g ∧ ancOf h .layer x = ng.pLayer ∧ ancOf h .layerSet x = ng.pLayerSet ∧
      ancOf h .font x = ng.pFont ∧
      layerOf h x = ng.pLayer ∧ layerSetOf h x = ng.pLayerSet ∧ fontOf h x = ng.pFont ∧ dispOf h x = ng.pFont := by
  have ho : h.ownerOf x = some g := by rw [ownerOf_eq e]; exact owner_leaf_glyph k eg
  have kg : h.kindOf g = some .glyph := ancOf_kind ((s.refs x n g e).1 eg)
  obtain ⟨ng, eng, kng⟩ := kindOf_some kg
  obtain ⟨E1, E2, E3⟩ := exact_glyph s eng kng
  obtain ⟨V1, V2⟩ := glyph_via s eng kng
  have A1 : ancOf h .glyph x = some g := ancOf_eq s ho kg
  have A2 : ancOf h .layer x = ng.pLayer := by rw [ancOf_ne s ho (by rw [kg]; simp), E1]
  have A3 : ancOf h .layerSet x = ng.pLayerSet := by rw [ancOf_ne s ho (by rw [kg]; simp), E2]
  have A4 : ancOf h .font x = ng.pFont := by rw [ancOf_ne s ho (by rw [kg]; simp), E3]
  have sl : h.storedLayer g = ng.pLayer := by simp [Heap.storedLayer, eng]
  have ss : h.storedLayerSet g = ng.pLayerSet := by simp [Heap.storedLayerSet, eng]
  have sf : h.storedFont g = ng.pFont := by simp [Heap.storedFont, eng]
  have L : layerOf h x = ng.pLayer := by
    rw [layerOf_leaf e k, eg, Option.bind_some, sl]
    exact or_sub fun a ea => by rw [← A2]; exact (s.refs x n a e).2.1 ea
  have subLS : ∀ a, n.pLayerSet = some a → ng.pLayerSet = some a := fun a ea => by
    rw [← A3]; exact (s.refs x n a e).2.2.1 ea
  have subF : ∀ a, n.pFont = some a → ng.pFont = some a := fun a ea => by
    rw [← A4]; exact (s.refs x n a e).2.2.2.1 ea
  have LS : layerSetOf h x = ng.pLayerSet := by
    cases hv : n.kind.viaLayer with
    | true => rw [layerSetOf_leaf_via e hv, L, V1]; exact or_sub subLS
    | false => rw [layerSetOf_leaf_direct e k hv, eg, Option.bind_some, ss]; exact or_sub subLS
  have F : fontOf h x = ng.pFont := by
    cases hv : n.kind.viaLayer with
    | true => rw [fontOf_leaf_via e hv, LS, V2]; exact or_sub subF
    | false => rw [fontOf_leaf_direct e k hv, eg, Option.bind_some, sf]; exact or_sub subF
  have knf : n.kind ≠ .font := by intro hk; simp [hk, Kind.isLeaf] at k
  have D : dispOf h x = ng.pFont := by
    rw [dispOf_nonfont e knf, F]
    exact or_sub fun a ea => by rw [← A4]; exact (s.refs x n a e).2.2.2.2 ea
  exact ⟨ng, eng, kng, ho, A1, A2, A3, A4, L, LS, F, D⟩


/-- an object that points to no owner answers nothing -/
theorem exact_loose {ds} {h : Heap} (s : Struct ds h) {x : Id} {n : Node} (e : h.get x = some n)
    (k : n.kind ≠ .font) (eo : owner n = none) :
    (∀ kk, ancOf h kk x = none) ∧ glyphOf h x = none ∧ layerOf h x = none ∧ layerSetOf h x = none ∧
      fontOf h x = none ∧ dispOf h x = none ∧ parentOf h x = none := by
  obtain ⟨l1, l2, l3, l4, l5⟩ := s.loose x n e eo
  have ho : h.ownerOf x = none := by rw [ownerOf_eq e]; exact eo
  refine ⟨fun kk => ancOf_none s ho, ?_, ?_, ?_, ?_, ?_, ?_⟩
  · simp [glyphOf, e, l1]
  · have : layerOf h x = none := by unfold layerOf; simp only [e]; cases hk : n.kind <;> simp [hk, l1, l2]
    exact this
  · have L : layerOf h x = none := by unfold layerOf; simp only [e]; cases hk : n.kind <;> simp [hk, l1, l2]
    unfold layerSetOf; simp only [e]; cases hk : n.kind <;> simp [hk, l1, l3, L]
  · have L : layerOf h x = none := by unfold layerOf; simp only [e]; cases hk : n.kind <;> simp [hk, l1, l2]
    have LS : layerSetOf h x = none := by unfold layerSetOf; simp only [e]; cases hk : n.kind <;> simp [hk, l1, l3, L]
    unfold fontOf; simp only [e]; cases hk : n.kind <;> simp [hk, l1, l3, l4, LS]
  · have L : layerOf h x = none := by unfold layerOf; simp only [e]; cases hk : n.kind <;> simp [hk, l1, l2]
    have LS : layerSetOf h x = none := by unfold layerSetOf; simp only [e]; cases hk : n.kind <;> simp [hk, l1, l3, L]
    have F : fontOf h x = none := by unfold fontOf; simp only [e]; cases hk : n.kind <;> simp [hk, l1, l3, l4, LS]
    rw [dispOf_nonfont e k, F, l5]; rfl
  · unfold parentOf; simp only [e]; cases hk : n.kind <;> simp [hk, l1, l2, l3, l4]

theorem ownerOf_font {h : Heap} {f : Id} (k : h.kindOf f = some .font) : h.ownerOf f = none := by
  obtain ⟨n, e, kn⟩ := kindOf_some k
  rw [ownerOf_eq e]; exact owner_font n kn

/-- a guideline or lib owned by a font -/
theorem exact_leaf_font {ds} {h : Heap} (s : Struct ds h) {x f : Id} {n : Node} (e : h.get x = some n)
    (k : n.kind.isLeaf = true) (eg : n.pGlyph = none) (el : n.pLayer = none) (ef : n.pFont = some f) :
    h.kindOf f = some .font ∧ h.ownerOf x = some f ∧
      ancOf h .glyph x = none ∧ ancOf h .layer x = none ∧ ancOf h .layerSet x = none ∧ ancOf h .font x = some f ∧
      layerOf h x = none ∧ layerSetOf h x = none ∧ fontOf h x = some f ∧ dispOf h x = some f := by
  have kf : h.kindOf f = some .font := ancOf_kind ((s.refs x n f e).2.2.2.1 ef)
  have hv : n.kind.viaLayer = true := by
    -- only guidelines and libs may point to a font without pointing to a glyph
    cases hk : n.kind <;> simp [Kind.viaLayer, Kind.isLeaf, hk] at k ⊢ <;>
      (have := s.loose x n e (by simp [owner, hk, eg]); simp [ef] at this)
  have ho : h.ownerOf x = some f := by
    rw [ownerOf_eq e]; cases hk : n.kind <;> simp [owner, hk, eg, el, ef, Kind.viaLayer] at hv ⊢
  have of : h.ownerOf f = none := ownerOf_font kf
  have A : ∀ kk, kk ≠ .font → ancOf h kk x = none := fun kk hkk => by
    rw [ancOf_ne s ho (by rw [kf]; simpa using hkk.symm)]; exact ancOf_none s of
  have A4 : ancOf h .font x = some f := ancOf_eq s ho kf
  have ls : n.pLayerSet = none := by
    cases e2 : n.pLayerSet with
    | none => rfl
    | some a => have := (s.refs x n a e).2.2.1 e2; rw [A .layerSet (by simp)] at this; simp at this
  have L : layerOf h x = none := by rw [layerOf_leaf e k, eg, el]; rfl
  have LS : layerSetOf h x = none := by rw [layerSetOf_leaf_via e hv, L, ls]; rfl
  have F : fontOf h x = some f := by rw [fontOf_leaf_via e hv, ef]; rfl
  have knf : n.kind ≠ .font := by intro hk; simp [hk, Kind.isLeaf] at k
  have D : dispOf h x = some f := by
    rw [dispOf_nonfont e knf, F]
    exact or_sub fun a ea => by rw [← A4]; exact (s.refs x n a e).2.2.2.2 ea
  exact ⟨kf, ho, A .glyph (by simp), A .layer (by simp), A .layerSet (by simp), A4, L, LS, F, D⟩

/-- a lib owned by a layer -/
theorem exact_leaf_layer {ds} {h : Heap} (s : Struct ds h) {x l : Id} {n : Node} (e : h.get x = some n)
    (k : n.kind.isLeaf = true) (eg : n.pGlyph = none) (el : n.pLayer = some l) :
    ∃ nl, h.get l = some nl ∧ nl.kind = .layer ∧ h.ownerOf x = some l ∧
      ancOf h .glyph x = none ∧ ancOf h .layer x = some l ∧ ancOf h .layerSet x = nl.pLayerSet ∧
      ancOf h .font x = nl.pLayerSet.bind h.storedFont ∧
      layerOf h x = some l ∧ layerSetOf h x = nl.pLayerSet ∧ fontOf h x = nl.pLayerSet.bind h.storedFont ∧
      dispOf h x = nl.pLayerSet.bind h.storedFont := by
  have kl : h.kindOf l = some .layer := ancOf_kind ((s.refs x n l e).2.1 el)
  obtain ⟨nl, enl, knl⟩ := kindOf_some kl
  have hk : n.kind = .lib := by
    by_cases hl : n.kind = .lib
    · exact hl
    exfalso
    by_cases hg : n.kind = .guideline
    · -- guideline: owner would be the font reference; a layer reference needs a glyph or lib
      cases ef : n.pFont with
      | none => have := s.loose x n e (by simp [owner, hg, eg, ef]); simp [el] at this
      | some f =>
        have h1 := (s.refs x n f e).2.2.2.1 ef
        have ho : h.ownerOf x = some f := by rw [ownerOf_eq e]; simp [owner, hg, eg, ef]
        have kf := ancOf_kind h1
        have h2 := (s.refs x n l e).2.1 el
        rw [ancOf_ne s ho (by rw [kf]; simp), ancOf_none s (ownerOf_font kf)] at h2
        simp at h2
    · have : owner n = none := by cases hk : n.kind <;> simp [owner, hk, eg, Kind.isLeaf] at k hl hg ⊢
      have := s.loose x n e this
      simp [el] at this
  have hv : n.kind.viaLayer = true := by simp [hk, Kind.viaLayer]
  have ho : h.ownerOf x = some l := by rw [ownerOf_eq e]; simp [owner, hk, eg, el]
  obtain ⟨L1, L2⟩ := exact_layer s enl knl
  have A1 : ancOf h .glyph x = none := by
    rw [ancOf_ne s ho (by rw [kl]; simp)]
    exact ancOf_low s (by simp [rankOf, kl, rank])
  have A2 : ancOf h .layer x = some l := ancOf_eq s ho kl
  have A3 : ancOf h .layerSet x = nl.pLayerSet := by rw [ancOf_ne s ho (by rw [kl]; simp), L1]
  have A4 : ancOf h .font x = nl.pLayerSet.bind h.storedFont := by rw [ancOf_ne s ho (by rw [kl]; simp), L2]
  have L : layerOf h x = some l := by rw [layerOf_leaf e k, el]; rfl
  have LS : layerSetOf h x = nl.pLayerSet := by
    rw [layerSetOf_leaf_via e hv, L, Option.bind_some]
    have : h.storedLayerSet l = nl.pLayerSet := by simp [Heap.storedLayerSet, enl]
    rw [this]
    exact or_sub fun a ea => by rw [← A3]; exact (s.refs x n a e).2.2.1 ea
  have F : fontOf h x = nl.pLayerSet.bind h.storedFont := by
    rw [fontOf_leaf_via e hv, LS]
    exact or_sub fun a ea => by rw [← A4]; exact (s.refs x n a e).2.2.2.1 ea
  have knf : n.kind ≠ .font := by simp [hk]
  have D : dispOf h x = nl.pLayerSet.bind h.storedFont := by
    rw [dispOf_nonfont e knf, F]
    exact or_sub fun a ea => by rw [← A4]; exact (s.refs x n a e).2.2.2.2 ea
  exact ⟨nl, enl, knl, ho, A1, A2, A3, A4, L, LS, F, D⟩


/-- the font and dispatcher accessors of anything but a font answer the font above it -/
theorem font_exact {ds} {h : Heap} (s : Struct ds h) {x : Id} {n : Node} (e : h.get x = some n) (k : n.kind ≠ .font) :
    fontOf h x = ancOf h .font x ∧ dispOf h x = ancOf h .font x := by
  have D : fontOf h x = ancOf h .font x → dispOf h x = ancOf h .font x := fun F => by
    rw [dispOf_nonfont e k, F]
    exact or_sub fun a ea => (s.refs x n a e).2.2.2.2 ea
  suffices F : fontOf h x = ancOf h .font x from ⟨F, D F⟩
  cases hl : n.kind.isLeaf with
  | false =>
    cases hk : n.kind <;> simp [hk, Kind.isLeaf] at hl k
    · have := exact_layerSet s e hk
      simp only [fontOf, e, hk]; exact this
    · have := (exact_layer s e hk).2
      simp only [fontOf, e, hk]; exact this
    · have := (exact_glyph s e hk).2.2
      simp only [fontOf, e, hk]; exact this
  | true =>
    cases eg : n.pGlyph with
    | some g =>
      obtain ⟨ng, _, _, _, _, _, _, A4, _, _, F, _⟩ := exact_leaf_glyph s e hl eg
      rw [F, A4]
    | none =>
      cases el : n.pLayer with
      | some l =>
        obtain ⟨nl, _, _, _, _, _, _, A4, _, _, F, _⟩ := exact_leaf_layer s e hl eg el
        rw [F, A4]
      | none =>
        cases ef : n.pFont with
        | some f =>
          obtain ⟨_, _, _, _, _, A4, _, _, F, _⟩ := exact_leaf_font s e hl eg el ef
          rw [F, A4]
        | none =>
          have eo : owner n = none := by cases hk : n.kind <;> simp [owner, hk, eg, el, ef, Kind.isLeaf] at hl ⊢
          obtain ⟨A, _, _, _, F, _⟩ := exact_loose s e k eo
          rw [F, A]

theorem disp_exact {ds} {h : Heap} (s : Struct ds h) (x : Id) : dispOf h x = centreOf h x := by
  cases e : h.get x with
  | none =>
    have : h.ownerOf x = none := by simp [Heap.ownerOf, e]
    simp [dispOf, e, centreOf, Heap.kindOf, ancOf_none s this]
  | some n =>
    by_cases k : n.kind = .font
    · rw [dispOf_font e k]; simp [centreOf, kindOf_eq e, k]
    · rw [(font_exact s e k).2]; simp [centreOf, kindOf_eq e, k]


/-! ### The invariant looks at the nodes through `get` only -/

section congr
variable {h h' : Heap} (hg : ∀ i, h'.get i = h.get i)
include hg

theorem kidsOf_congr (i : Id) : h'.kidsOf i = h.kidsOf i := by simp [Heap.kidsOf, hg i]
theorem ownerOf_congr (i : Id) : h'.ownerOf i = h.ownerOf i := by simp [Heap.ownerOf, hg i]
theorem kindOf_congr (i : Id) : h'.kindOf i = h.kindOf i := by simp [Heap.kindOf, hg i]
theorem ancOf_congr (k : Kind) (i : Id) : ancOf h' k i = ancOf h k i :=
  anc_congr (ownerOf_congr hg) (kindOf_congr hg) k 4 i
theorem alive_congr (i : Id) : h'.alive i ↔ h.alive i := by simp [Heap.alive, hg i]

theorem struct_congr {ds} (s : Struct ds h) : Struct ds h' where
  kKids p np x e hx := by rw [hg p] at e; simpa [hg x] using s.kKids p np x e hx
  kidsNodup p np e := by rw [hg p] at e; exact s.kidsNodup p np e
  shape x n e := by rw [hg x] at e; exact s.shape x n e
  up x n p e eo := by rw [hg x] at e; rw [kidsOf_congr hg]; exact s.up x n p e eo
  down p x ha hd hx := by
    rw [alive_congr hg] at ha; rw [kidsOf_congr hg] at hx; rw [ownerOf_congr hg]; exact s.down p x ha hd hx
  loose x n e := by rw [hg x] at e; exact s.loose x n e
  refs x n a e := by rw [hg x] at e; simp only [ancOf_congr hg]; exact s.refs x n a e
  full x n e := by rw [hg x] at e; simp only [ancOf_congr hg]; exact s.full x n e

end congr

theorem struct_mono {ds ds'} {h : Heap} (s : Struct ds h) (sub : ∀ d, d ∈ ds → d ∈ ds') : Struct ds' h :=
  { s with down := fun p x ha hd hx => s.down p x ha (fun hm => hd (sub p hm)) hx }

/-- a container stops dying once everything it lists points to it (or it is not alive) -/
theorem struct_undying {ds} {h : Heap} {d : Id} (s : Struct (d :: ds) h)
    (hd : h.alive d → ∀ x ∈ h.kidsOf d, h.ownerOf x = some d) : Struct ds h := by
  refine { s with down := ?_ }
  intro p x ha hp hx
  by_cases e : p = d
  · subst e
    exact hd ha x hx
  · exact s.down p x ha (by simp [e, hp]) hx


/-! ### Changing a child list only -/

theorem get_addKid (h : Heap) (p x i : Id) :
    (h.addKid p x).get i = if p = i then (h.get p).map (fun n => { n with kids := n.kids ++ [x] }) else h.get i := by
  simp [Heap.addKid, get_upd]

theorem get_unlist (h : Heap) (p x i : Id) :
    (h.unlist p x).get i = if p = i then (h.get p).map (fun n => { n with kids := n.kids.filter (· ≠ x) }) else h.get i := by
  simp [Heap.unlist, get_upd]

/-- a change of one node's child list leaves owners and kinds alone -/
theorem kidsChange_owner {h h' : Heap} {p : Id} {np : Node} {f : List Id → List Id} (ep : h.get p = some np)
    (hg : ∀ i, h'.get i = if p = i then (h.get p).map (fun n => { n with kids := f n.kids }) else h.get i) :
    (∀ i, h'.ownerOf i = h.ownerOf i) ∧ (∀ i, h'.kindOf i = h.kindOf i) ∧
    (∀ k i, ancOf h' k i = ancOf h k i) ∧ (∀ i, h'.alive i ↔ h.alive i) ∧
    (∀ i, h'.kidsOf i = if p = i then f np.kids else h.kidsOf i) ∧
    (∀ i n', h'.get i = some n' → ∃ n, h.get i = some n ∧ n' = { n with kids := n'.kids }) := by
  have ho : ∀ i, h'.ownerOf i = h.ownerOf i := fun i => by
    simp only [Heap.ownerOf, hg i]
    by_cases e : p = i
    · subst e; simp [ep, owner]
    · simp [e]
  have hk : ∀ i, h'.kindOf i = h.kindOf i := fun i => by
    simp only [Heap.kindOf, hg i]
    by_cases e : p = i
    · subst e; simp [ep]
    · simp [e]
  refine ⟨ho, hk, fun k i => anc_congr ho hk k 4 i, fun i => ?_, fun i => ?_, fun i n' e => ?_⟩
  · simp only [Heap.alive, hg i]
    by_cases e : p = i
    · subst e; simp [ep, owner]
    · simp [e]
  · simp only [Heap.kidsOf, hg i]
    by_cases e : p = i
    · subst e; simp [ep]
    · simp [e]
  · rw [hg i] at e
    by_cases e2 : p = i
    · subst e2
      simp only [if_true, ep, Option.map_some, Option.some.injEq] at e
      exact ⟨np, ep, by subst e; rfl⟩
    · simp only [e2, if_false] at e
      exact ⟨n', e, rfl⟩

theorem struct_kidsChange {ds} {h h' : Heap} (s : Struct ds h) {p : Id} {np : Node} {f : List Id → List Id}
    (ep : h.get p = some np)
    (hg : ∀ i, h'.get i = if p = i then (h.get p).map (fun n => { n with kids := f n.kids }) else h.get i)
    (kk : ∀ y ∈ f np.kids, ∃ ny, h.get y = some ny ∧ allowed np.kind ny.kind = true)
    (nd : (f np.kids).Nodup)
    (hup : ∀ y, h.ownerOf y = some p → y ∈ f np.kids)
    (hdn : p ∈ ds ∨ ∀ y ∈ f np.kids, y ∈ np.kids) : Struct ds h' := by
  obtain ⟨ho, hk, ha', hal, hkids, hnode⟩ := kidsChange_owner ep hg
  have exists' : ∀ y ny, h.get y = some ny → ∃ ny', h'.get y = some ny' ∧ ny'.kind = ny.kind := fun y ny ey => by
    have := hk y
    rw [kindOf_eq ey] at this
    obtain ⟨ny', e1, e2⟩ := kindOf_some this
    exact ⟨ny', e1, e2⟩
  have kidsAt : ∀ q nq, h'.get q = some nq → nq.kids = if p = q then f np.kids else h.kidsOf q := fun q nq e => by
    rw [← hkids q, kidsOf_eq e]
  refine ⟨?_, ?_, ?_, ?_, ?_, ?_, ?_, ?_⟩
  · intro q nq y e hy
    obtain ⟨n0, e0, en⟩ := hnode q nq e
    rw [kidsAt q nq e] at hy
    have : ∃ ny, h.get y = some ny ∧ allowed nq.kind ny.kind = true := by
      by_cases eq : p = q
      · subst eq
        rw [ep] at e0; cases e0
        simp only [if_true] at hy
        rw [en]; exact kk y hy
      · simp only [eq, if_false] at hy
        rw [kidsOf_eq e0] at hy
        rw [en]; exact s.kKids q n0 y e0 hy
    obtain ⟨ny, ey, hay⟩ := this
    obtain ⟨ny', ey', ek⟩ := exists' y ny ey
    exact ⟨ny', ey', by rw [ek]; exact hay⟩
  · intro q nq e
    obtain ⟨n0, e0, en⟩ := hnode q nq e
    rw [kidsAt q nq e]
    by_cases eq : p = q
    · simp [eq, nd]
    · simp only [eq, if_false]; rw [kidsOf_eq e0]; exact s.kidsNodup q n0 e0
  · intro y n e
    obtain ⟨n0, e0, en⟩ := hnode y n e
    rw [en]; exact s.shape y n0 e0
  · intro y n q e eo
    have hoy : h.ownerOf y = some q := by rw [← ho, ownerOf_eq e]; exact eo
    obtain ⟨n0, e0, eo0⟩ := ownerOf_some hoy
    have := s.up y n0 q e0 eo0
    rw [hkids]; by_cases eq : p = q
    · subst eq; simp [hup y hoy]
    · simp [eq, this]
  · intro q y hq hqd hy
    rw [hal] at hq
    rw [hkids] at hy
    rw [ho]
    by_cases eq : p = q
    · subst eq
      simp only [if_true] at hy
      rcases hdn with hdn | hdn
      · exact absurd hdn hqd
      · exact s.down p y hq hqd (by rw [kidsOf_eq ep]; exact hdn y hy)
    · simp only [eq, if_false] at hy
      exact s.down q y hq hqd hy
  · intro y n e
    obtain ⟨n0, e0, en⟩ := hnode y n e
    rw [en]; exact s.loose y n0 e0
  · intro y n a e
    obtain ⟨n0, e0, en⟩ := hnode y n e
    simp only [ha']; rw [en]; exact s.refs y n0 a e0
  · intro y n e
    obtain ⟨n0, e0, en⟩ := hnode y n e
    simp only [ha']; rw [en]; exact s.full y n0 e0

theorem struct_addKid {ds} {h : Heap} (s : Struct ds h) {p x : Id} {np nx : Node}
    (ep : h.get p = some np) (ex : h.get x = some nx) (ha : allowed np.kind nx.kind = true)
    (hn : x ∉ np.kids) (hd : p ∈ ds) : Struct ds (h.addKid p x) := by
  refine struct_kidsChange s (f := fun ks => ks ++ [x]) ep (get_addKid h p x) ?_ ?_ ?_ (Or.inl hd)
  · intro y hy
    simp only [List.mem_append, List.mem_singleton] at hy
    rcases hy with hy | hy
    · exact s.kKids p np y ep hy
    · subst hy; exact ⟨nx, ex, ha⟩
  · have := s.kidsNodup p np ep
    simp only [List.nodup_append, this, List.nodup_cons, List.not_mem_nil, not_false_eq_true, List.nodup_nil,
      and_self, List.mem_singleton, true_and]
    intro a ha b hb; subst hb; intro e; subst e; exact hn ha
  · intro y hy
    obtain ⟨ny, ey, eo⟩ := ownerOf_some hy
    have := s.up y ny p ey eo
    rw [kidsOf_eq ep] at this
    simp [this]

theorem struct_unlist {ds} {h : Heap} (s : Struct ds h) {p x : Id} (hx : h.ownerOf x ≠ some p) :
    Struct ds (h.unlist p x) := by
  cases ep : h.get p with
  | none => exact struct_congr (fun i => by rw [get_unlist]; by_cases e : p = i <;> simp [e, ep]; subst e; simp [ep]) s
  | some np =>
    refine struct_kidsChange s (f := fun ks => ks.filter (· ≠ x)) ep (get_unlist h p x) ?_ ?_ ?_ (Or.inr ?_)
    · intro y hy
      exact s.kKids p np y ep (List.mem_filter.mp hy).1
    · exact (s.kidsNodup p np ep).filter _
    · intro y hy
      obtain ⟨ny, ey, eo⟩ := ownerOf_some hy
      have := s.up y ny p ey eo
      rw [kidsOf_eq ep] at this
      refine List.mem_filter.mpr ⟨this, ?_⟩
      simp only [ne_eq, decide_not, Bool.not_eq_eq_eq_not, Bool.not_true, decide_eq_false_iff_not]
      intro e; subst e; exact hx hy
    · intro y hy; exact (List.mem_filter.mp hy).1


/-! ### Replacing the references of one node that owns nothing -/

/-- what is above a node whose owner pointer is `o` -/
def ancVia (h : Heap) (k : Kind) (o : Option Id) : Option Id :=
  match o with
  | none => none
  | some p => if h.kindOf p = some k then some p else ancOf h k p

/-- the conditions on the new content `n'` of node `z` -/
structure NodeOK (ds : List Id) (h : Heap) (z : Id) (n' : Node) : Prop where
  ownerOK : ∀ p, owner n' = some p → p ≠ z ∧ z ∈ h.kidsOf p
  shape : (n'.kind.isLeaf = false → n'.pGlyph = none) ∧
    (n'.kind = .font → n'.pLayer = none ∧ n'.pLayerSet = none ∧ n'.pFont = none ∧ n'.disp = none) ∧
    (n'.kind = .layerSet → n'.pLayer = none ∧ n'.pLayerSet = none) ∧
    (n'.kind = .layer → n'.pLayer = none ∧ n'.pFont = none)
  loose : owner n' = none →
    n'.pGlyph = none ∧ n'.pLayer = none ∧ n'.pLayerSet = none ∧ n'.pFont = none ∧ n'.disp = none
  refs : ∀ a,
    (n'.pGlyph = some a → ancVia h .glyph (owner n') = some a) ∧
    (n'.pLayer = some a → ancVia h .layer (owner n') = some a) ∧
    (n'.pLayerSet = some a → ancVia h .layerSet (owner n') = some a) ∧
    (n'.pFont = some a → ancVia h .font (owner n') = some a) ∧
    (n'.disp = some a → ancVia h .font (owner n') = some a)
  full : (n'.kind = .glyph → n'.pLayer ≠ none → n'.pLayerSet ≠ none ∧ n'.pFont ≠ none) ∧
    (n'.kind = .layer → n'.pLayerSet ≠ none → ancVia h .font (owner n') ≠ none)
  downUp : ∀ p, z ∈ h.kidsOf p → p ≠ z → h.alive p → p ∉ ds → owner n' = some p

theorem struct_replace {ds} {h h' : Heap} (s : Struct ds h) {z : Id} {n n' : Node}
    (ez : h.get z = some n) (hg : ∀ i, h'.get i = if z = i then some n' else h.get i)
    (hkind : n'.kind = n.kind) (hkids : n'.kids = n.kids)
    (hz : ∀ i, h.ownerOf i ≠ some z)
    (ok : NodeOK ds h z n')
    (dz : z ∈ ds ∨ n.kids = [] ∨ (n'.kind ≠ .font ∧ owner n' = none)) : Struct ds h' := by
  have hne : ∀ i, i ≠ z → h'.get i = h.get i := fun i hi => by rw [hg]; simp [Ne.symm hi]
  have hzz : h'.get z = some n' := by rw [hg]; simp
  have hk : ∀ i, h'.kindOf i = h.kindOf i := fun i => by
    by_cases e : i = z
    · subst e; simp [Heap.kindOf, hzz, ez, hkind]
    · simp [Heap.kindOf, hne i e]
  have hkidsOf : ∀ i, h'.kidsOf i = h.kidsOf i := fun i => by
    by_cases e : i = z
    · subst e; simp [Heap.kidsOf, hzz, ez, hkids]
    · simp [Heap.kidsOf, hne i e]
  have hoo : ∀ i, i ≠ z → h'.ownerOf i = h.ownerOf i := fun i hi => by simp [Heap.ownerOf, hne i hi]
  have hoz : h'.ownerOf z = owner n' := by simp [Heap.ownerOf, hzz]
  have hanc : ∀ k i, i ≠ z → ancOf h' k i = ancOf h k i := fun k i hi => anc_frame hne hz k 4 i hi
  have hancz : ∀ k, ancOf h' k z = ancVia h k (owner n') := fun k => by
    unfold ancOf; rw [anc_succ, hoz]
    cases eo : owner n' with
    | none => rfl
    | some p =>
      obtain ⟨hpz, hzp⟩ := ok.ownerOK p eo
      obtain ⟨np, ep, hm⟩ := mem_kidsOf hzp
      obtain ⟨nz, ez', ha⟩ := s.kKids p np z ep hm
      have hr : rankOf h p ≤ 3 := by simp only [rankOf, kindOf_eq ep]; exact (allowed_rank ha).2
      simp only [ancVia, hk p]
      rw [anc_frame hne hz k 3 p hpz, ← anc_fuel s k 3 p hr 4 (by omega)]
      rfl
  have halive : ∀ p, p ≠ z → (h'.alive p ↔ h.alive p) := fun p hp => by simp [Heap.alive, hne p hp]
  refine ⟨?_, ?_, ?_, ?_, ?_, ?_, ?_, ?_⟩
  · intro q nq y e hy
    have : y ∈ h.kidsOf q := by rw [← hkidsOf, kidsOf_eq e]; exact hy
    obtain ⟨nq0, eq0, hm⟩ := mem_kidsOf this
    obtain ⟨ny, ey, hay⟩ := s.kKids q nq0 y eq0 hm
    have k1 : nq.kind = nq0.kind := by
      have := hk q; rw [kindOf_eq e, kindOf_eq eq0] at this; simpa using this
    have := hk y
    rw [kindOf_eq ey] at this
    obtain ⟨ny', ey', eky⟩ := kindOf_some this
    exact ⟨ny', ey', by rw [k1, eky]; exact hay⟩
  · intro q nq e
    by_cases eq : q = z
    · subst eq; rw [hzz] at e; cases e; rw [hkids]; exact s.kidsNodup q n ez
    · rw [hne q eq] at e; exact s.kidsNodup q nq e
  · intro y ny e
    by_cases eq : y = z
    · subst eq; rw [hzz] at e; cases e; exact ok.shape
    · rw [hne y eq] at e; exact s.shape y ny e
  · intro y ny q e eo
    rw [hkidsOf]
    by_cases eq : y = z
    · subst eq; rw [hzz] at e; cases e; exact (ok.ownerOK q eo).2
    · rw [hne y eq] at e; exact s.up y ny q e eo
  · intro q y hq hqd hy
    rw [hkidsOf] at hy
    by_cases eq : q = z
    · subst eq
      exfalso
      rcases dz with dz | dz | dz
      · exact hqd dz
      · rw [kidsOf_eq ez, dz] at hy; simp at hy
      · obtain ⟨nq, enq, hal⟩ := hq
        rw [hzz] at enq; cases enq
        rcases hal with hal | hal
        · exact dz.1 hal
        · exact hal dz.2
    · have hq0 := (halive q eq).mp hq
      by_cases ey : y = z
      · subst ey; rw [hoz]; exact ok.downUp q hy eq hq0 hqd
      · rw [hoo y ey]; exact s.down q y hq0 hqd hy
  · intro y ny e eo
    by_cases eq : y = z
    · subst eq; rw [hzz] at e; cases e; exact ok.loose eo
    · rw [hne y eq] at e; exact s.loose y ny e eo
  · intro y ny a e
    by_cases eq : y = z
    · subst eq; rw [hzz] at e; cases e; simp only [hancz]; exact ok.refs a
    · rw [hne y eq] at e; simp only [hanc _ y eq]; exact s.refs y ny a e
  · intro y ny e
    by_cases eq : y = z
    · subst eq; rw [hzz] at e; cases e; simp only [hancz]; exact ok.full
    · rw [hne y eq] at e; simp only [hanc _ y eq]; exact s.full y ny e


/-- a node without any reference and without children -/
def blank (k : Kind) : Node := { kind := k }

theorem nobody_owned_by_missing {ds} {h : Heap} (s : Struct ds h) {z : Id} (ez : h.get z = none) :
    ∀ i, h.ownerOf i ≠ some z := by
  intro i hi
  obtain ⟨ni, ei, eo⟩ := ownerOf_some hi
  obtain ⟨nz, e, _⟩ := mem_kidsOf (s.up i ni z ei eo)
  rw [ez] at e; cases e

theorem struct_alloc {ds} {h : Heap} (s : Struct ds h) (k : Kind) : Struct ds (h.alloc (blank k)) := by
  have ez : h.get h.next = none := get_next h
  have hg := get_alloc h (blank k)
  have hne : ∀ i, i ≠ h.next → (h.alloc (blank k)).get i = h.get i := fun i hi => by rw [hg]; simp [hi]
  have hzz : (h.alloc (blank k)).get h.next = some (blank k) := by rw [hg]; simp
  have hz := nobody_owned_by_missing s ez
  have hanc : ∀ kk i, i ≠ h.next → ancOf (h.alloc (blank k)) kk i = ancOf h kk i :=
    fun kk i hi => anc_frame hne hz kk 4 i hi
  have old : ∀ i n, h.get i = some n → i ≠ h.next := fun i n e hi => by subst hi; rw [ez] at e; cases e
  have hkidsOf : ∀ i, (h.alloc (blank k)).kidsOf i = h.kidsOf i := fun i => by
    by_cases e : i = h.next
    · subst e; simp only [Heap.kidsOf, hzz, ez]; rfl
    · simp [Heap.kidsOf, hne i e]
  refine ⟨?_, ?_, ?_, ?_, ?_, ?_, ?_, ?_⟩
  · intro q nq y e hy
    by_cases eq : q = h.next
    · subst eq; rw [hzz] at e; cases e; simp [blank] at hy
    · rw [hne q eq] at e
      obtain ⟨ny, ey, hay⟩ := s.kKids q nq y e hy
      exact ⟨ny, by rw [hne y (old y ny ey)]; exact ey, hay⟩
  · intro q nq e
    by_cases eq : q = h.next
    · subst eq; rw [hzz] at e; cases e; simp [blank]
    · rw [hne q eq] at e; exact s.kidsNodup q nq e
  · intro y ny e
    by_cases eq : y = h.next
    · subst eq; rw [hzz] at e; cases e; simp [blank]
    · rw [hne y eq] at e; exact s.shape y ny e
  · intro y ny q e eo
    rw [hkidsOf]
    by_cases eq : y = h.next
    · subst eq; rw [hzz] at e; cases e
      exfalso; cases k <;> simp [blank, owner] at eo
    · rw [hne y eq] at e; exact s.up y ny q e eo
  · intro q y hq hqd hy
    rw [hkidsOf] at hy
    obtain ⟨nq, enq, hm⟩ := mem_kidsOf hy
    have hq' : q ≠ h.next := old q nq enq
    obtain ⟨ny, ey, _⟩ := s.kKids q nq y enq hm
    have hy' : y ≠ h.next := old y ny ey
    have : (h.alloc (blank k)).ownerOf y = h.ownerOf y := by simp [Heap.ownerOf, hne y hy']
    rw [this]
    exact s.down q y (by simpa [Heap.alive, hne q hq'] using hq) hqd hy
  · intro y ny e eo
    by_cases eq : y = h.next
    · subst eq; rw [hzz] at e; cases e; simp [blank]
    · rw [hne y eq] at e; exact s.loose y ny e eo
  · intro y ny a e
    by_cases eq : y = h.next
    · subst eq; rw [hzz] at e; cases e; simp [blank]
    · rw [hne y eq] at e; simp only [hanc _ y eq]; exact s.refs y ny a e
  · intro y ny e
    by_cases eq : y = h.next
    · subst eq; rw [hzz] at e; cases e; simp [blank]
    · rw [hne y eq] at e; simp only [hanc _ y eq]; exact s.full y ny e


/-! ### Operations that leave the nodes alone -/

@[simp] theorem get_addReg (h : Heap) (r : Reg) (i : Id) : (h.addReg r).get i = h.get i := by
  unfold Heap.addReg; split <;> rfl

theorem get_foldl_addReg (h : Heap) (rs : List Reg) (i : Id) :
    (rs.foldl (fun h r => h.addReg r) h).get i = h.get i := by
  induction rs generalizing h with
  | nil => rfl
  | cons r rs ih => simp [List.foldl_cons, ih]

@[simp] theorem get_observe (h : Heap) (x o : Id) (names : List NName) (i : Id) : (observe h x o names).get i = h.get i := by
  unfold observe
  split
  · rfl
  · rename_i c _
    have : ∀ (h : Heap), (names.foldl (fun h nm => h.addReg ⟨c, o, x, nm⟩) h).get i = h.get i := by
      intro h
      induction names generalizing h with
      | nil => rfl
      | cons nm ns ih => simp [List.foldl_cons, ih]
    exact this h

@[simp] theorem get_unobserve (h : Heap) (x o : Id) (names : List NName) (i : Id) : (unobserve h x o names).get i = h.get i := by
  unfold unobserve; split <;> rfl

@[simp] theorem get_setDirty (h : Heap) (x i : Id) : (h.setDirty x).get i = h.get i := by
  unfold Heap.setDirty; split <;> rfl
@[simp] theorem regs_setDirty (h : Heap) (x : Id) : (h.setDirty x).regs = h.regs := by
  unfold Heap.setDirty; split <;> rfl
@[simp] theorem get_setName (h : Heap) (x : Id) (s : String) (i : Id) : (h.setName x s).get i = h.get i := rfl
@[simp] theorem regs_setName (h : Heap) (x : Id) (s : String) : (h.setName x s).regs = h.regs := rfl
@[simp] theorem get_dropUnloaded (h : Heap) (l : Id) (s : String) (i : Id) : (h.dropUnloaded l s).get i = h.get i := rfl
@[simp] theorem regs_dropUnloaded (h : Heap) (l : Id) (s : String) : (h.dropUnloaded l s).regs = h.regs := rfl

/-- posting changes dirty flags only -/
theorem post_nodes_regs (fuel : Nat) (h : Heap) (s : Id) :
    (post fuel h s).1.nodes = h.nodes ∧ (post fuel h s).1.regs = h.regs := by
  induction fuel generalizing h s with
  | zero => exact ⟨rfl, rfl⟩
  | succ fuel ih =>
    unfold post
    split
    · rename_i c ks _ _
      generalize (h.regs.filter _) = obs
      suffices H : ∀ (acc : Heap × List Id), acc.1.nodes = h.nodes ∧ acc.1.regs = h.regs →
          (obs.foldl (fun (acc : Heap × List Id) r =>
            if h.kindOf r.observer = some .font ∧ ks = .layerSet ∧ ¬ acc.1.isDirty s then acc
            else
              let res := post fuel (acc.1.setDirty r.observer) r.observer
              (res.1, acc.2 ++ res.2)) acc).1.nodes = h.nodes ∧
          (obs.foldl (fun (acc : Heap × List Id) r =>
            if h.kindOf r.observer = some .font ∧ ks = .layerSet ∧ ¬ acc.1.isDirty s then acc
            else
              let res := post fuel (acc.1.setDirty r.observer) r.observer
              (res.1, acc.2 ++ res.2)) acc).1.regs = h.regs from H (h, [s]) ⟨rfl, rfl⟩
      induction obs with
      | nil => intro acc ha; exact ha
      | cons r rs ihr =>
        intro acc ha
        rw [List.foldl_cons]
        apply ihr
        split
        · exact ha
        · have := ih (acc.1.setDirty r.observer) r.observer
          refine ⟨?_, ?_⟩
          · rw [this.1]
            have : (acc.1.setDirty r.observer).nodes = acc.1.nodes := by unfold Heap.setDirty; split <;> rfl
            rw [this, ha.1]
          · rw [this.2, regs_setDirty, ha.2]
    · exact ⟨rfl, rfl⟩

@[simp] theorem get_post (fuel : Nat) (h : Heap) (s i : Id) : (post fuel h s).1.get i = h.get i := by
  simp [Heap.get, (post_nodes_regs fuel h s).1]
@[simp] theorem regs_post (fuel : Nat) (h : Heap) (s : Id) : (post fuel h s).1.regs = h.regs :=
  (post_nodes_regs fuel h s).2
@[simp] theorem get_mark (h : Heap) (x i : Id) : (mark h x).get i = h.get i := by simp [mark, markPost]
@[simp] theorem regs_mark (h : Heap) (x : Id) : (mark h x).regs = h.regs := by simp [mark, markPost]


/-! ### Soundness of registrations under heap changes -/

/-- one registration is sound -/
def RegOK (h : Heap) (r : Reg) : Prop :=
  centreOf h r.observable = some r.centre ∧
    ((r.name = .all ∧ r.observer = r.observable) ∨ (r.name ∈ namesFor h r.observer r.observable ∧ Link h r.observer r.observable))

theorem wiredX_iff {ds} {h : Heap} : WiredX ds h ↔ Struct ds h ∧ ∀ r ∈ h.regs, RegOK h r :=
  ⟨fun w => ⟨w.toStruct, w.regSound⟩, fun ⟨s, r⟩ => ⟨s, r⟩⟩

theorem namesFor_nonempty {h : Heap} {o x : Id} {nm : NName} (e : nm ∈ namesFor h o x) :
    ∃ ko kx, h.kindOf o = some ko ∧ h.kindOf x = some kx ∧ nm ∈ tableNames ko kx := by
  unfold namesFor at e
  split at e
  · rename_i ko kx e1 e2; exact ⟨ko, kx, e1, e2, e⟩
  · simp at e

/-- a sound registration survives any change that keeps kinds, the owner of its observable and what is
above its observable -/
theorem regOK_transfer {h h' : Heap} {r : Reg}
    (hk : ∀ i k, h.kindOf i = some k → h'.kindOf i = some k)
    (ho : h'.ownerOf r.observable = h.ownerOf r.observable)
    (ha : ancOf h' .font r.observable = ancOf h .font r.observable)
    (ok : RegOK h r) : RegOK h' r := by
  obtain ⟨c, rest⟩ := ok
  have kx : h'.kindOf r.observable = h.kindOf r.observable ∨ h.kindOf r.observable = none := by
    cases e : h.kindOf r.observable with
    | none => right; rfl
    | some k => left; exact hk _ _ e
  refine ⟨?_, ?_⟩
  · unfold centreOf at c ⊢
    rcases kx with kx | kx
    · rw [kx, ha]; exact c
    · -- the observable does not exist: it has no centre
      exfalso
      simp only [kx] at c
      have : h.ownerOf r.observable = none := by
        unfold Heap.kindOf at kx; unfold Heap.ownerOf
        cases e : h.get r.observable <;> simp [e] at kx ⊢
      simp [ancOf, anc_owner_none this] at c
  · rcases rest with rest | ⟨hn, hl⟩
    · exact Or.inl rest
    · right
      obtain ⟨ko, kx', e1, e2, e3⟩ := namesFor_nonempty hn
      refine ⟨?_, ?_⟩
      · unfold namesFor; rw [hk _ _ e1, hk _ _ e2]; exact e3
      · rcases hl with hl | ⟨hl1, hl2⟩
        · left; rw [ho]; exact hl
        · right; exact ⟨hk _ _ hl1, by rw [ha]; exact hl2⟩

theorem regOK_exists {h : Heap} {r : Reg} (ok : RegOK h r) : ∃ n, h.get r.observable = some n := by
  cases e : h.get r.observable with
  | some n => exact ⟨n, rfl⟩
  | none =>
    exfalso
    have c := ok.1
    have : h.ownerOf r.observable = none := by simp [Heap.ownerOf, e]
    simp [centreOf, Heap.kindOf, e, ancOf, anc_owner_none this] at c

/-- a registration is sound only if its observable has a centre -/
theorem regOK_centre {ds} {h : Heap} (s : Struct ds h) {r : Reg} (ok : RegOK h r) : dispOf h r.observable = some r.centre := by
  rw [disp_exact s]; exact ok.1

theorem mem_foldl_addReg {h : Heap} {rs : List Reg} {r : Reg} (hr : r ∈ (rs.foldl (fun h r => h.addReg r) h).regs) :
    r ∈ h.regs ∨ r ∈ rs := by
  induction rs generalizing h with
  | nil => exact Or.inl hr
  | cons a rs ih =>
    rw [List.foldl_cons] at hr
    rcases ih hr with h1 | h1
    · unfold Heap.addReg at h1
      split at h1
      · exact Or.inl h1
      · simp only [List.mem_append, List.mem_singleton] at h1
        rcases h1 with h1 | h1
        · exact Or.inl h1
        · right; simp [h1]
    · right; simp [h1]

theorem mem_foldl_names {c o x : Id} {names : List NName} {r : Reg} :
    ∀ {h : Heap}, r ∈ (names.foldl (fun h nm => h.addReg ⟨c, o, x, nm⟩) h).regs →
      r ∈ h.regs ∨ ∃ nm, nm ∈ names ∧ r = ⟨c, o, x, nm⟩ := by
  induction names with
  | nil => intro h hr; exact Or.inl hr
  | cons a ns ih =>
    intro h hr
    rw [List.foldl_cons] at hr
    rcases ih hr with h1 | ⟨nm, h1, h2⟩
    · unfold Heap.addReg at h1
      split at h1
      · exact Or.inl h1
      · simp only [List.mem_append, List.mem_singleton] at h1
        rcases h1 with h1 | h1
        · exact Or.inl h1
        · right; exact ⟨a, by simp, h1⟩
    · right; exact ⟨nm, by simp [h1], h2⟩

theorem mem_observe {h : Heap} {x o : Id} {names : List NName} {r : Reg} (hr : r ∈ (observe h x o names).regs) :
    r ∈ h.regs ∨ ∃ c nm, dispOf h x = some c ∧ nm ∈ names ∧ r = ⟨c, o, x, nm⟩ := by
  unfold observe at hr
  split at hr
  · exact Or.inl hr
  · rename_i c ec
    rcases mem_foldl_names hr with h1 | ⟨nm, h1, h2⟩
    · exact Or.inl h1
    · right; exact ⟨c, nm, ec, h1, h2⟩

theorem mem_unobserve {h : Heap} {x o : Id} {names : List NName} {r : Reg} (hr : r ∈ (unobserve h x o names).regs) :
    r ∈ h.regs ∧ ∀ c, dispOf h x = some c → ¬ (r.centre = c ∧ r.observer = o ∧ r.observable = x ∧ r.name ∈ names) := by
  unfold unobserve at hr
  split at hr
  · rename_i e; exact ⟨hr, fun c ec => by rw [e] at ec; cases ec⟩
  · rename_i c e
    simp only [List.mem_filter, decide_eq_true_eq] at hr
    exact ⟨hr.1, fun c' ec => by rw [e] at ec; cases ec; exact hr.2⟩


/-! ### Steps of the invariant (structure and registrations together) -/

theorem wired_mono {ds ds'} {h : Heap} (w : WiredX ds h) (sub : ∀ d, d ∈ ds → d ∈ ds') : WiredX ds' h :=
  ⟨struct_mono w.toStruct sub, w.regSound⟩

theorem wired_undying {ds} {h : Heap} {d : Id} (w : WiredX (d :: ds) h)
    (hd : h.alive d → ∀ x ∈ h.kidsOf d, h.ownerOf x = some d) : WiredX ds h :=
  ⟨struct_undying w.toStruct hd, w.regSound⟩

/-- same nodes; every registration is an old one or sound -/
theorem wired_regs {ds} {h h' : Heap} (w : WiredX ds h) (hg : ∀ i, h'.get i = h.get i)
    (hr : ∀ r ∈ h'.regs, r ∈ h.regs ∨ RegOK h r) : WiredX ds h' := by
  refine ⟨struct_congr hg w.toStruct, fun r hm => ?_⟩
  have ok : RegOK h r := by
    rcases hr r hm with h1 | h1
    · exact w.regSound r h1
    · exact h1
  exact regOK_transfer (fun i k e => by rw [kindOf_congr hg]; exact e) (ownerOf_congr hg _) (ancOf_congr hg _ _) ok

theorem wired_kidsChange {ds} {h h' : Heap} (w : WiredX ds h) {p : Id} {np : Node} {f : List Id → List Id}
    (ep : h.get p = some np)
    (hg : ∀ i, h'.get i = if p = i then (h.get p).map (fun n => { n with kids := f n.kids }) else h.get i)
    (hregs : h'.regs = h.regs)
    (kk : ∀ y ∈ f np.kids, ∃ ny, h.get y = some ny ∧ allowed np.kind ny.kind = true)
    (nd : (f np.kids).Nodup)
    (hup : ∀ y, h.ownerOf y = some p → y ∈ f np.kids)
    (hdn : p ∈ ds ∨ ∀ y ∈ f np.kids, y ∈ np.kids) : WiredX ds h' := by
  obtain ⟨ho, hk, ha', _, _, _⟩ := kidsChange_owner ep hg
  refine ⟨struct_kidsChange w.toStruct ep hg kk nd hup hdn, fun r hm => ?_⟩
  rw [hregs] at hm
  exact regOK_transfer (fun i k e => by rw [hk]; exact e) (ho _) (ha' _ _) (w.regSound r hm)

theorem wired_addKid {ds} {h : Heap} (w : WiredX ds h) {p x : Id} {np nx : Node}
    (ep : h.get p = some np) (ex : h.get x = some nx) (ha : allowed np.kind nx.kind = true)
    (hn : x ∉ np.kids) (hd : p ∈ ds) : WiredX ds (h.addKid p x) := by
  obtain ⟨ho, hk, ha', _, _, _⟩ := kidsChange_owner (f := fun ks => ks ++ [x]) ep (get_addKid h p x)
  refine ⟨struct_addKid w.toStruct ep ex ha hn hd, fun r hm => ?_⟩
  have : (h.addKid p x).regs = h.regs := by simp [Heap.addKid]
  rw [this] at hm
  exact regOK_transfer (fun i k e => by rw [hk]; exact e) (ho _) (ha' _ _) (w.regSound r hm)

theorem wired_unlist {ds} {h : Heap} (w : WiredX ds h) {p x : Id} (hx : h.ownerOf x ≠ some p) :
    WiredX ds (h.unlist p x) := by
  refine ⟨struct_unlist w.toStruct hx, fun r hm => ?_⟩
  have hregs : (h.unlist p x).regs = h.regs := by simp [Heap.unlist]
  rw [hregs] at hm
  cases ep : h.get p with
  | none =>
    have hg : ∀ i, (h.unlist p x).get i = h.get i := fun i => by
      rw [get_unlist]; by_cases e : p = i
      · subst e; simp [ep]
      · simp [e]
    exact regOK_transfer (fun i k e => by rw [kindOf_congr hg]; exact e) (ownerOf_congr hg _) (ancOf_congr hg _ _)
      (w.regSound r hm)
  | some np =>
    obtain ⟨ho, hk, ha', _, _, _⟩ := kidsChange_owner (f := fun ks => ks.filter (· ≠ x)) ep (get_unlist h p x)
    exact regOK_transfer (fun i k e => by rw [hk]; exact e) (ho _) (ha' _ _) (w.regSound r hm)

theorem wired_replace {ds} {h h' : Heap} (w : WiredX ds h) {z : Id} {n n' : Node}
    (ez : h.get z = some n) (hg : ∀ i, h'.get i = if z = i then some n' else h.get i)
    (hregs : h'.regs = h.regs)
    (hkind : n'.kind = n.kind) (hkids : n'.kids = n.kids)
    (hz : ∀ i, h.ownerOf i ≠ some z)
    (ok : NodeOK ds h z n')
    (dz : z ∈ ds ∨ n.kids = [] ∨ (n'.kind ≠ .font ∧ owner n' = none))
    (noreg : ∀ r ∈ h.regs, r.observable ≠ z) : WiredX ds h' := by
  refine ⟨struct_replace w.toStruct ez hg hkind hkids hz ok dz, fun r hm => ?_⟩
  rw [hregs] at hm
  have hne : ∀ i, i ≠ z → h'.get i = h.get i := fun i hi => by rw [hg]; simp [Ne.symm hi]
  have hzz : h'.get z = some n' := by rw [hg]; simp
  have hk : ∀ i, h'.kindOf i = h.kindOf i := fun i => by
    by_cases e : i = z
    · subst e; simp [Heap.kindOf, hzz, ez, hkind]
    · simp [Heap.kindOf, hne i e]
  have hx := noreg r hm
  exact regOK_transfer (fun i k e => by rw [hk]; exact e) (by simp [Heap.ownerOf, hne _ hx])
    (anc_frame hne hz .font 4 _ hx) (w.regSound r hm)

theorem wired_alloc {ds} {h : Heap} (w : WiredX ds h) (k : Kind) : WiredX ds (h.alloc (blank k)) := by
  refine ⟨struct_alloc w.toStruct k, fun r hm => ?_⟩
  have hm : r ∈ h.regs := hm
  have ok := w.regSound r hm
  obtain ⟨n, en⟩ := regOK_exists ok
  have ez : h.get h.next = none := get_next h
  have hne : ∀ i, i ≠ h.next → (h.alloc (blank k)).get i = h.get i := fun i hi => by rw [get_alloc]; simp [hi]
  have hx : r.observable ≠ h.next := fun e => by rw [e, ez] at en; cases en
  refine regOK_transfer (fun i kk e => ?_) (by simp [Heap.ownerOf, hne _ hx])
    (anc_frame hne (nobody_owned_by_missing w.toStruct ez) .font 4 _ hx) ok
  obtain ⟨ni, ei, _⟩ := kindOf_some e
  have : i ≠ h.next := fun e2 => by rw [e2, ez] at ei; cases ei
  simp only [Heap.kindOf, hne i this]; exact e

end Parents
end DefconModel
