/-
Helper lemmas for C11 (M-Parents).
-/
import DefconModel.Spec.Parents

set_option linter.unusedSimpArgs false
set_option linter.unusedVariables false

namespace DefconModel
namespace Parents

/-! ### Heap primitives -/

theorem get_upd (h : Heap) (i : Id) (f : Node → Node) (j : Id) :
    (h.upd i f).get j = if i = j then (h.get i).map f else h.get j := by
  unfold Heap.upd
  cases hi : h.get i with
  | none =>
    by_cases e : i = j
    · subst e; simp [hi]
    · simp [e]
  | some n =>
    simp only [Heap.setNode, Heap.get, Option.map_some]
    by_cases e : i = j
    · subst e
      have : i < h.nodes.length := by
        simp only [Heap.get] at hi
        exact (List.getElem?_eq_some_iff.mp hi).1
      simp [this]
    · simp [e, List.getElem?_set_ne e]

theorem get_alloc (h : Heap) (n : Node) (j : Id) :
    (h.alloc n).get j = if j = h.next then some n else h.get j := by
  simp only [Heap.alloc, Heap.get, Heap.next]
  rcases Nat.lt_trichotomy j h.nodes.length with lt | e | gt
  · have e : j ≠ h.nodes.length := Nat.ne_of_lt lt
    simp [e, List.getElem?_append_left lt]
  · subst e; simp
  · have e : j ≠ h.nodes.length := Nat.ne_of_gt gt
    simp only [e, if_false]
    rw [List.getElem?_eq_none (by simp only [List.length_append, List.length_cons, List.length_nil]; omega),
      List.getElem?_eq_none (by omega)]

theorem get_next (h : Heap) : h.get h.next = none := by
  simp [Heap.get, Heap.next]

theorem get_lt {h : Heap} {i : Id} {n : Node} (e : h.get i = some n) : i < h.next := by
  simp only [Heap.get] at e
  exact (List.getElem?_eq_some_iff.mp e).1

@[simp] theorem regs_upd (h : Heap) (i : Id) (f : Node → Node) : (h.upd i f).regs = h.regs := by
  unfold Heap.upd; split <;> rfl
@[simp] theorem regs_alloc (h : Heap) (n : Node) : (h.alloc n).regs = h.regs := rfl
@[simp] theorem next_upd (h : Heap) (i : Id) (f : Node → Node) : (h.upd i f).next = h.next := by
  unfold Heap.upd; split <;> simp [Heap.next, Heap.setNode]
@[simp] theorem next_alloc (h : Heap) (n : Node) : (h.alloc n).next = h.next + 1 := by
  simp [Heap.next, Heap.alloc]

/-! ### Derived reads after an update -/

theorem kindOf_eq {h : Heap} {x : Id} {n : Node} (e : h.get x = some n) : h.kindOf x = some n.kind := by
  simp [Heap.kindOf, e]

theorem kindOf_some {h : Heap} {x : Id} {k : Kind} (e : h.kindOf x = some k) : ∃ n, h.get x = some n ∧ n.kind = k := by
  unfold Heap.kindOf at e
  cases eg : h.get x with
  | none => simp [eg] at e
  | some n => exact ⟨n, rfl, by simpa [eg] using e⟩

theorem ownerOf_eq {h : Heap} {x : Id} {n : Node} (e : h.get x = some n) : h.ownerOf x = owner n := by
  simp [Heap.ownerOf, e]

theorem ownerOf_some {h : Heap} {x p : Id} (e : h.ownerOf x = some p) : ∃ n, h.get x = some n ∧ owner n = some p := by
  unfold Heap.ownerOf at e
  cases eg : h.get x with
  | none => simp [eg] at e
  | some n => exact ⟨n, rfl, by simpa [eg] using e⟩

theorem kidsOf_eq {h : Heap} {x : Id} {n : Node} (e : h.get x = some n) : h.kidsOf x = n.kids := by
  simp [Heap.kidsOf, e]

theorem mem_kidsOf {h : Heap} {x p : Id} (e : x ∈ h.kidsOf p) : ∃ n, h.get p = some n ∧ x ∈ n.kids := by
  unfold Heap.kidsOf at e
  cases eg : h.get p with
  | none => simp [eg] at e
  | some n => exact ⟨n, rfl, by simpa [eg] using e⟩

/-! ### The ancestor walk -/

theorem anc_succ (h : Heap) (k : Kind) (f : Nat) (x : Id) :
    anc h k (f + 1) x = match h.ownerOf x with
      | none => none
      | some p => if h.kindOf p = some k then some p else anc h k f p := rfl

theorem anc_owner_none {h : Heap} {k : Kind} {f : Nat} {x : Id} (e : h.ownerOf x = none) : anc h k f x = none := by
  cases f with
  | zero => rfl
  | succ f => simp [anc_succ, e]

theorem anc_step_eq {h : Heap} {k : Kind} {f : Nat} {x p : Id} (e : h.ownerOf x = some p) (ek : h.kindOf p = some k) :
    anc h k (f + 1) x = some p := by simp [anc_succ, e, ek]

theorem anc_step_ne {h : Heap} {k : Kind} {f : Nat} {x p : Id} (e : h.ownerOf x = some p) (ek : h.kindOf p ≠ some k) :
    anc h k (f + 1) x = anc h k f p := by simp [anc_succ, e, ek]

theorem anc_kind {h : Heap} {k : Kind} {f : Nat} {x a : Id} (e : anc h k f x = some a) : h.kindOf a = some k := by
  induction f generalizing x with
  | zero => simp [anc] at e
  | succ f ih =>
    rw [anc_succ] at e
    split at e
    · simp at e
    · rename_i p ep
      by_cases ek : h.kindOf p = some k
      · simp [ek] at e; subst e; exact ek
      · simp [ek] at e; exact ih e

theorem anc_congr {h h' : Heap} (ho : ∀ i, h'.ownerOf i = h.ownerOf i) (hk : ∀ i, h'.kindOf i = h.kindOf i)
    (k : Kind) (f : Nat) (x : Id) : anc h' k f x = anc h k f x := by
  induction f generalizing x with
  | zero => rfl
  | succ f ih =>
    rw [anc_succ, anc_succ, ho x]
    cases h.ownerOf x with
    | none => rfl
    | some p => simp only [hk p, ih p]

/-- changing one object that owns nothing does not change what is above anything else -/
theorem anc_frame {h h' : Heap} {z : Id} (hg : ∀ i, i ≠ z → h'.get i = h.get i)
    (hz : ∀ i, h.ownerOf i ≠ some z) (k : Kind) (f : Nat) (x : Id) (hx : x ≠ z) :
    anc h' k f x = anc h k f x := by
  induction f generalizing x with
  | zero => rfl
  | succ f ih =>
    have e1 : h'.ownerOf x = h.ownerOf x := by simp [Heap.ownerOf, hg x hx]
    rw [anc_succ, anc_succ, e1]
    cases ep : h.ownerOf x with
    | none => rfl
    | some p =>
      have hp : p ≠ z := by intro e; subst e; exact hz x ep
      have e2 : h'.kindOf p = h.kindOf p := by simp [Heap.kindOf, hg p hp]
      simp only [e2, ih p hp]

/-! ### Consequences of the structural invariant: the walk does not depend on fuel -/

/-- depth of a kind in the tree -/
def rank : Kind → Nat
  | .font => 0 | .layerSet => 1 | .layer => 2 | .glyph => 3 | _ => 4

def rankOf (h : Heap) (x : Id) : Nat := match h.kindOf x with | some k => rank k | none => 4

theorem allowed_rank {kp kx : Kind} (e : allowed kp kx = true) : rank kp < rank kx ∧ rank kp ≤ 3 := by
  cases kp <;> cases kx <;> simp [allowed, Kind.isLeaf, rank] at e ⊢

theorem owner_node {ds} {h : Heap} (s : Struct ds h) {x p : Id} {n : Node} (e : h.get x = some n)
    (eo : owner n = some p) : ∃ np, h.get p = some np ∧ x ∈ np.kids ∧ allowed np.kind n.kind = true := by
  obtain ⟨np, ep, hm⟩ := mem_kidsOf (s.up x n p e eo)
  obtain ⟨nx, ex, ha⟩ := s.kKids p np x ep hm
  rw [e] at ex; cases ex
  exact ⟨np, ep, hm, ha⟩

theorem ownerOf_node {ds} {h : Heap} (s : Struct ds h) {x p : Id} (eo : h.ownerOf x = some p) :
    ∃ n np, h.get x = some n ∧ owner n = some p ∧ h.get p = some np ∧ x ∈ np.kids ∧ allowed np.kind n.kind = true := by
  obtain ⟨n, e, eo'⟩ := ownerOf_some eo
  obtain ⟨np, a, b, c⟩ := owner_node s e eo'
  exact ⟨n, np, e, eo', a, b, c⟩

theorem owner_font (n : Node) (e : n.kind = .font) : owner n = none := by simp [owner, e]

theorem anc_fuel {ds} {h : Heap} (s : Struct ds h) (k : Kind) (r : Nat) :
    ∀ x, rankOf h x ≤ r → ∀ f, r ≤ f → anc h k f x = anc h k r x := by
  induction r with
  | zero =>
    intro x hr f _
    have : h.ownerOf x = none := by
      unfold rankOf at hr
      cases ek : h.kindOf x with
      | none => simp [Heap.ownerOf]; unfold Heap.kindOf at ek; cases eg : h.get x <;> simp_all
      | some kx =>
        obtain ⟨n, eg, ekn⟩ := kindOf_some ek
        simp [ek] at hr
        have : kx = .font := by cases kx <;> simp [rank] at hr ⊢
        subst this
        rw [ownerOf_eq eg]; exact owner_font n ekn
    rw [anc_owner_none this, anc_owner_none this]
  | succ r ih =>
    intro x hr f hf
    obtain ⟨f', rfl⟩ : ∃ f', f = f' + 1 := ⟨f - 1, by omega⟩
    rw [anc_succ, anc_succ]
    cases eo : h.ownerOf x with
    | none => rfl
    | some p =>
      obtain ⟨n, np, e, _, ep, _, ha⟩ := ownerOf_node s eo
      have hr2 : rankOf h p ≤ r := by
        have := (allowed_rank ha).1
        simp only [rankOf, kindOf_eq e, kindOf_eq ep] at hr ⊢
        omega
      simp only [ih p hr2 f' (by omega)]

theorem ancOf_rec {ds} {h : Heap} (s : Struct ds h) (k : Kind) (x : Id) :
    ancOf h k x = match h.ownerOf x with
      | none => none
      | some p => if h.kindOf p = some k then some p else ancOf h k p := by
  unfold ancOf
  rw [anc_succ]
  cases eo : h.ownerOf x with
  | none => rfl
  | some p =>
    obtain ⟨n, np, e, _, ep, _, ha⟩ := ownerOf_node s eo
    have hr2 : rankOf h p ≤ 3 := by
      have := (allowed_rank ha).2
      simp only [rankOf, kindOf_eq ep]; omega
    simp only [anc_fuel s k 3 p hr2 4 (by omega)]


theorem ancOf_none {ds} {h : Heap} (s : Struct ds h) {k : Kind} {x : Id} (e : h.ownerOf x = none) : ancOf h k x = none := by
  rw [ancOf_rec s, e]

theorem ancOf_eq {ds} {h : Heap} (s : Struct ds h) {k : Kind} {x p : Id} (e : h.ownerOf x = some p)
    (ek : h.kindOf p = some k) : ancOf h k x = some p := by
  rw [ancOf_rec s, e]; simp [ek]

theorem ancOf_ne {ds} {h : Heap} (s : Struct ds h) {k : Kind} {x p : Id} (e : h.ownerOf x = some p)
    (ek : h.kindOf p ≠ some k) : ancOf h k x = ancOf h k p := by
  rw [ancOf_rec s, e]; simp [ek]

theorem ancOf_kind {h : Heap} {k : Kind} {x a : Id} (e : ancOf h k x = some a) : h.kindOf a = some k := anc_kind e

/-- the kind of an owner, by the kind of what it owns -/
theorem owner_kind {ds} {h : Heap} (s : Struct ds h) {x p : Id} {n : Node} (e : h.get x = some n)
    (eo : owner n = some p) :
    ∃ np, h.get p = some np ∧
      (n.kind = .layerSet → np.kind = .font) ∧ (n.kind = .layer → np.kind = .layerSet) ∧
      (n.kind = .glyph → np.kind = .layer) ∧
      (n.kind.isLeaf = true → np.kind = .glyph ∨ np.kind = .layer ∨ np.kind = .font) ∧ n.kind ≠ .font := by
  obtain ⟨np, ep, _, ha⟩ := owner_node s e eo
  refine ⟨np, ep, ?_⟩
  cases hk : n.kind <;> cases hp : np.kind <;> simp [allowed, Kind.isLeaf, hk, hp] at ha ⊢

/-- exactness of the stored references of a layer set -/
theorem exact_layerSet {ds} {h : Heap} (s : Struct ds h) {x : Id} {n : Node} (e : h.get x = some n)
    (k : n.kind = .layerSet) : n.pFont = ancOf h .font x := by
  cases ef : n.pFont with
  | none =>
    have ho : h.ownerOf x = none := by rw [ownerOf_eq e]; simp [owner, k, ef]
    rw [ancOf_none s ho]
  | some f => exact (((s.refs x n f e).2.2.2.1) ef).symm

theorem exact_layer {ds} {h : Heap} (s : Struct ds h) {x : Id} {n : Node} (e : h.get x = some n)
    (k : n.kind = .layer) :
    n.pLayerSet = ancOf h .layerSet x ∧ n.pLayerSet.bind h.storedFont = ancOf h .font x := by
  have ho : h.ownerOf x = n.pLayerSet := by rw [ownerOf_eq e]; simp [owner, k]
  cases es : n.pLayerSet with
  | none =>
    rw [es] at ho
    simp [ancOf_none s ho]
  | some sid =>
    rw [es] at ho
    obtain ⟨np, ep, _, hk, _⟩ := owner_kind s e (by rw [← ownerOf_eq e]; exact ho)
    have kp : h.kindOf sid = some .layerSet := by rw [kindOf_eq ep, hk k]
    refine ⟨(ancOf_eq s ho kp).symm, ?_⟩
    rw [ancOf_ne s ho (by rw [kp]; simp)]
    simp only [Option.bind_some, Heap.storedFont, ep]
    exact exact_layerSet s ep (hk k)

theorem exact_glyph {ds} {h : Heap} (s : Struct ds h) {x : Id} {n : Node} (e : h.get x = some n)
    (k : n.kind = .glyph) :
    n.pLayer = ancOf h .layer x ∧ n.pLayerSet = ancOf h .layerSet x ∧ n.pFont = ancOf h .font x := by
  have ho : h.ownerOf x = n.pLayer := by rw [ownerOf_eq e]; simp [owner, k]
  cases es : n.pLayer with
  | none =>
    rw [es] at ho
    have := s.loose x n e (by rw [← ownerOf_eq e]; exact ho)
    simp [ancOf_none s ho, this]
  | some l =>
    rw [es] at ho
    obtain ⟨np, ep, _, _, hk, _⟩ := owner_kind s e (by rw [← ownerOf_eq e]; exact ho)
    have kp : h.kindOf l = some .layer := by rw [kindOf_eq ep, hk k]
    have hfull := (s.full x n e).1 k (by simp [es])
    refine ⟨(ancOf_eq s ho kp).symm, ?_, ?_⟩
    · cases e2 : n.pLayerSet with
      | none => exact absurd e2 hfull.1
      | some a => exact (((s.refs x n a e).2.2.1) e2).symm
    · cases e2 : n.pFont with
      | none => exact absurd e2 hfull.2
      | some a => exact (((s.refs x n a e).2.2.2.1) e2).symm


theorem anc_rank {ds} {h : Heap} (s : Struct ds h) {k : Kind} {f : Nat} {x a : Id} (e : anc h k f x = some a) :
    rank k < rankOf h x := by
  induction f generalizing x with
  | zero => simp [anc] at e
  | succ f ih =>
    rw [anc_succ] at e
    cases eo : h.ownerOf x with
    | none => simp [eo] at e
    | some p =>
      obtain ⟨n, np, en, _, ep, _, ha⟩ := ownerOf_node s eo
      have hr := (allowed_rank ha).1
      simp only [eo] at e
      by_cases ek : h.kindOf p = some k
      · rw [kindOf_eq ep] at ek
        simp only [rankOf, kindOf_eq en]
        have : np.kind = k := by simpa using ek
        subst this
        omega
      · simp only [ek, if_false] at e
        have := ih e
        simp only [rankOf, kindOf_eq en, kindOf_eq ep] at this ⊢
        omega

theorem ancOf_low {ds} {h : Heap} (s : Struct ds h) {k : Kind} {x : Id} (hr : rankOf h x ≤ rank k) : ancOf h k x = none := by
  cases e : ancOf h k x with
  | none => rfl
  | some a => have := anc_rank s e; omega

theorem or_sub {α} {o X : Option α} (hsub : ∀ a, o = some a → X = some a) : o.or X = X := by
  cases o with
  | none => simp
  | some a => simp [hsub a rfl]


/-! unfolding the accessors by kind -/
theorem glyphOf_leaf {h : Heap} {x : Id} {n : Node} (e : h.get x = some n) (k : n.kind.isLeaf = true) :
    glyphOf h x = n.pGlyph := by simp [glyphOf, e, k]

theorem layerOf_leaf {h : Heap} {x : Id} {n : Node} (e : h.get x = some n) (k : n.kind.isLeaf = true) :
    layerOf h x = n.pLayer.or (n.pGlyph.bind h.storedLayer) := by
  unfold layerOf; simp only [e]; cases hk : n.kind <;> simp [hk, Kind.isLeaf] at k ⊢

def Kind.viaLayer : Kind → Bool
  | .guideline | .lib => true
  | _ => false

theorem layerSetOf_leaf_via {h : Heap} {x : Id} {n : Node} (e : h.get x = some n) (k : n.kind.viaLayer = true) :
    layerSetOf h x = n.pLayerSet.or ((layerOf h x).bind h.storedLayerSet) := by
  unfold layerSetOf; simp only [e]; cases hk : n.kind <;> simp [hk, Kind.viaLayer] at k ⊢

theorem layerSetOf_leaf_direct {h : Heap} {x : Id} {n : Node} (e : h.get x = some n) (k : n.kind.isLeaf = true)
    (k2 : n.kind.viaLayer = false) : layerSetOf h x = n.pLayerSet.or (n.pGlyph.bind h.storedLayerSet) := by
  unfold layerSetOf; simp only [e]; cases hk : n.kind <;> simp [hk, Kind.viaLayer, Kind.isLeaf] at k k2 ⊢

theorem fontOf_leaf_via {h : Heap} {x : Id} {n : Node} (e : h.get x = some n) (k : n.kind.viaLayer = true) :
    fontOf h x = n.pFont.or ((layerSetOf h x).bind h.storedFont) := by
  unfold fontOf; simp only [e]; cases hk : n.kind <;> simp [hk, Kind.viaLayer] at k ⊢

theorem fontOf_leaf_direct {h : Heap} {x : Id} {n : Node} (e : h.get x = some n) (k : n.kind.isLeaf = true)
    (k2 : n.kind.viaLayer = false) : fontOf h x = n.pFont.or (n.pGlyph.bind h.storedFont) := by
  unfold fontOf; simp only [e]; cases hk : n.kind <;> simp [hk, Kind.viaLayer, Kind.isLeaf] at k k2 ⊢

theorem dispOf_nonfont {h : Heap} {x : Id} {n : Node} (e : h.get x = some n) (k : n.kind ≠ .font) :
    dispOf h x = n.disp.or (fontOf h x) := by
  unfold dispOf; simp only [e]

theorem dispOf_font {h : Heap} {x : Id} {n : Node} (e : h.get x = some n) (k : n.kind = .font) :
    dispOf h x = some x := by
  unfold dispOf; simp only [e, k]

theorem viaLayer_leaf {k : Kind} (e : k.viaLayer = true) : k.isLeaf = true := by
  cases k <;> simp [Kind.viaLayer, Kind.isLeaf] at e ⊢

/-- a glyph's stored layer set is its layer's, its stored font its layer set's -/
theorem glyph_via {ds} {h : Heap} (s : Struct ds h) {g : Id} {ng : Node} (e : h.get g = some ng) (k : ng.kind = .glyph) :
    ng.pLayer.bind h.storedLayerSet = ng.pLayerSet ∧ ng.pLayerSet.bind h.storedFont = ng.pFont := by
  obtain ⟨E1, E2, E3⟩ := exact_glyph s e k
  have ho : h.ownerOf g = ng.pLayer := by rw [ownerOf_eq e]; simp [owner, k]
  cases el : ng.pLayer with
  | none =>
    rw [el] at ho
    have := s.loose g ng e (by rw [← ownerOf_eq e]; exact ho)
    simp [this]
  | some l =>
    rw [el] at ho
    have kl : h.kindOf l = some .layer := ancOf_kind (by rw [← E1]; exact el)
    obtain ⟨nl, enl, knl⟩ := kindOf_some kl
    obtain ⟨L1, L2⟩ := exact_layer s enl knl
    have a1 : ancOf h .layerSet g = ancOf h .layerSet l := ancOf_ne s ho (by rw [kl]; simp)
    have a2 : ancOf h .font g = ancOf h .font l := ancOf_ne s ho (by rw [kl]; simp)
    have e1 : nl.pLayerSet = ng.pLayerSet := by rw [L1, E2, a1]
    constructor
    · simp [Heap.storedLayerSet, enl, e1]
    · rw [← e1, L2, E3, a2]

theorem owner_leaf_glyph {n : Node} {g : Id} (k : n.kind.isLeaf = true) (eg : n.pGlyph = some g) : owner n = some g := by
  cases hk : n.kind <;> simp [owner, hk, eg, Kind.isLeaf] at k ⊢


/-- a leaf owned by a glyph -/
theorem exact_leaf_glyph {ds} {h : Heap} (s : Struct ds h) {x g : Id} {n : Node} (e : h.get x = some n)
    (k : n.kind.isLeaf = true) (eg : n.pGlyph = some g) :
    ∃ ng, h.get g = some ng ∧ ng.kind = .glyph ∧ h.ownerOf x = some g ∧
      ancOf h .glyph x = some g ∧ ancOf h .layer x = ng.pLayer ∧ ancOf h .layerSet x = ng.pLayerSet ∧
      ancOf h .font x = ng.pFont ∧
      layerOf h x = ng.pLayer ∧ layerSetOf h x = ng.pLayerSet ∧ fontOf h x = ng.pFont ∧ dispOf h x = ng.pFont := by
  have ho : h.ownerOf x = some g := by rw [ownerOf_eq e]; exact owner_leaf_glyph k eg
  have kg : h.kindOf g = some .glyph := ancOf_kind ((s.refs x n g e).1 eg)
  obtain ⟨ng, eng, kng⟩ := kindOf_some kg
  obtain ⟨E1, E2, E3⟩ := exact_glyph s eng kng
  obtain ⟨V1, V2⟩ := glyph_via s eng kng
  have A1 : ancOf h .glyph x = some g := ancOf_eq s ho kg
  have A2 : ancOf h .layer x = ng.pLayer := by rw [ancOf_ne s ho (by rw [kg]; simp), E1]
  have A3 : ancOf h .layerSet x = ng.pLayerSet := by rw [ancOf_ne s ho (by rw [kg]; simp), E2]
  have A4 : ancOf h .font x = ng.pFont := by rw [ancOf_ne s ho (by rw [kg]; simp), E3]
  have sl : h.storedLayer g = ng.pLayer := by simp [Heap.storedLayer, eng]
  have ss : h.storedLayerSet g = ng.pLayerSet := by simp [Heap.storedLayerSet, eng]
  have sf : h.storedFont g = ng.pFont := by simp [Heap.storedFont, eng]
  have L : layerOf h x = ng.pLayer := by
    rw [layerOf_leaf e k, eg, Option.bind_some, sl]
    exact or_sub fun a ea => by rw [← A2]; exact (s.refs x n a e).2.1 ea
  have subLS : ∀ a, n.pLayerSet = some a → ng.pLayerSet = some a := fun a ea => by
    rw [← A3]; exact (s.refs x n a e).2.2.1 ea
  have subF : ∀ a, n.pFont = some a → ng.pFont = some a := fun a ea => by
    rw [← A4]; exact (s.refs x n a e).2.2.2.1 ea
  have LS : layerSetOf h x = ng.pLayerSet := by
    cases hv : n.kind.viaLayer with
    | true => rw [layerSetOf_leaf_via e hv, L, V1]; exact or_sub subLS
    | false => rw [layerSetOf_leaf_direct e k hv, eg, Option.bind_some, ss]; exact or_sub subLS
  have F : fontOf h x = ng.pFont := by
    cases hv : n.kind.viaLayer with
    | true => rw [fontOf_leaf_via e hv, LS, V2]; exact or_sub subF
    | false => rw [fontOf_leaf_direct e k hv, eg, Option.bind_some, sf]; exact or_sub subF
  have knf : n.kind ≠ .font := by intro hk; simp [hk, Kind.isLeaf] at k
  have D : dispOf h x = ng.pFont := by
    rw [dispOf_nonfont e knf, F]
    exact or_sub fun a ea => by rw [← A4]; exact (s.refs x n a e).2.2.2.2 ea
  exact ⟨ng, eng, kng, ho, A1, A2, A3, A4, L, LS, F, D⟩


/-- an object that points to no owner answers nothing -/
theorem exact_loose {ds} {h : Heap} (s : Struct ds h) {x : Id} {n : Node} (e : h.get x = some n)
    (k : n.kind ≠ .font) (eo : owner n = none) :
    (∀ kk, ancOf h kk x = none) ∧ glyphOf h x = none ∧ layerOf h x = none ∧ layerSetOf h x = none ∧
      fontOf h x = none ∧ dispOf h x = none ∧ parentOf h x = none := by
  obtain ⟨l1, l2, l3, l4, l5⟩ := s.loose x n e eo
  have ho : h.ownerOf x = none := by rw [ownerOf_eq e]; exact eo
  refine ⟨fun kk => ancOf_none s ho, ?_, ?_, ?_, ?_, ?_, ?_⟩
  · simp [glyphOf, e, l1]
  · have : layerOf h x = none := by unfold layerOf; simp only [e]; cases hk : n.kind <;> simp [hk, l1, l2]
    exact this
  · have L : layerOf h x = none := by unfold layerOf; simp only [e]; cases hk : n.kind <;> simp [hk, l1, l2]
    unfold layerSetOf; simp only [e]; cases hk : n.kind <;> simp [hk, l1, l3, L]
  · have L : layerOf h x = none := by unfold layerOf; simp only [e]; cases hk : n.kind <;> simp [hk, l1, l2]
    have LS : layerSetOf h x = none := by unfold layerSetOf; simp only [e]; cases hk : n.kind <;> simp [hk, l1, l3, L]
    unfold fontOf; simp only [e]; cases hk : n.kind <;> simp [hk, l1, l3, l4, LS]
  · have L : layerOf h x = none := by unfold layerOf; simp only [e]; cases hk : n.kind <;> simp [hk, l1, l2]
    have LS : layerSetOf h x = none := by unfold layerSetOf; simp only [e]; cases hk : n.kind <;> simp [hk, l1, l3, L]
    have F : fontOf h x = none := by unfold fontOf; simp only [e]; cases hk : n.kind <;> simp [hk, l1, l3, l4, LS]
    rw [dispOf_nonfont e k, F, l5]; rfl
  · unfold parentOf; simp only [e]; cases hk : n.kind <;> simp [hk, l1, l2, l3, l4]

theorem ownerOf_font {h : Heap} {f : Id} (k : h.kindOf f = some .font) : h.ownerOf f = none := by
  obtain ⟨n, e, kn⟩ := kindOf_some k
  rw [ownerOf_eq e]; exact owner_font n kn

/-- a guideline or lib owned by a font -/
theorem exact_leaf_font {ds} {h : Heap} (s : Struct ds h) {x f : Id} {n : Node} (e : h.get x = some n)
    (k : n.kind.isLeaf = true) (eg : n.pGlyph = none) (el : n.pLayer = none) (ef : n.pFont = some f) :
    h.kindOf f = some .font ∧ h.ownerOf x = some f ∧
      ancOf h .glyph x = none ∧ ancOf h .layer x = none ∧ ancOf h .layerSet x = none ∧ ancOf h .font x = some f ∧
      layerOf h x = none ∧ layerSetOf h x = none ∧ fontOf h x = some f ∧ dispOf h x = some f := by
  have kf : h.kindOf f = some .font := ancOf_kind ((s.refs x n f e).2.2.2.1 ef)
  have hv : n.kind.viaLayer = true := by
    -- only guidelines and libs may point to a font without pointing to a glyph
    cases hk : n.kind <;> simp [Kind.viaLayer, Kind.isLeaf, hk] at k ⊢ <;>
      (have := s.loose x n e (by simp [owner, hk, eg]); simp [ef] at this)
  have ho : h.ownerOf x = some f := by
    rw [ownerOf_eq e]; cases hk : n.kind <;> simp [owner, hk, eg, el, ef, Kind.viaLayer] at hv ⊢
  have of : h.ownerOf f = none := ownerOf_font kf
  have A : ∀ kk, kk ≠ .font → ancOf h kk x = none := fun kk hkk => by
    rw [ancOf_ne s ho (by rw [kf]; simpa using hkk.symm)]; exact ancOf_none s of
  have A4 : ancOf h .font x = some f := ancOf_eq s ho kf
  have ls : n.pLayerSet = none := by
    cases e2 : n.pLayerSet with
    | none => rfl
    | some a => have := (s.refs x n a e).2.2.1 e2; rw [A .layerSet (by simp)] at this; simp at this
  have L : layerOf h x = none := by rw [layerOf_leaf e k, eg, el]; rfl
  have LS : layerSetOf h x = none := by rw [layerSetOf_leaf_via e hv, L, ls]; rfl
  have F : fontOf h x = some f := by rw [fontOf_leaf_via e hv, ef]; rfl
  have knf : n.kind ≠ .font := by intro hk; simp [hk, Kind.isLeaf] at k
  have D : dispOf h x = some f := by
    rw [dispOf_nonfont e knf, F]
    exact or_sub fun a ea => by rw [← A4]; exact (s.refs x n a e).2.2.2.2 ea
  exact ⟨kf, ho, A .glyph (by simp), A .layer (by simp), A .layerSet (by simp), A4, L, LS, F, D⟩

/-- a lib owned by a layer -/
theorem exact_leaf_layer {ds} {h : Heap} (s : Struct ds h) {x l : Id} {n : Node} (e : h.get x = some n)
    (k : n.kind.isLeaf = true) (eg : n.pGlyph = none) (el : n.pLayer = some l) :
    ∃ nl, h.get l = some nl ∧ nl.kind = .layer ∧ h.ownerOf x = some l ∧
      ancOf h .glyph x = none ∧ ancOf h .layer x = some l ∧ ancOf h .layerSet x = nl.pLayerSet ∧
      ancOf h .font x = nl.pLayerSet.bind h.storedFont ∧
      layerOf h x = some l ∧ layerSetOf h x = nl.pLayerSet ∧ fontOf h x = nl.pLayerSet.bind h.storedFont ∧
      dispOf h x = nl.pLayerSet.bind h.storedFont := by
  have kl : h.kindOf l = some .layer := ancOf_kind ((s.refs x n l e).2.1 el)
  obtain ⟨nl, enl, knl⟩ := kindOf_some kl
  have hk : n.kind = .lib := by
    by_cases hl : n.kind = .lib
    · exact hl
    exfalso
    by_cases hg : n.kind = .guideline
    · -- guideline: owner would be the font reference; a layer reference needs a glyph or lib
      cases ef : n.pFont with
      | none => have := s.loose x n e (by simp [owner, hg, eg, ef]); simp [el] at this
      | some f =>
        have h1 := (s.refs x n f e).2.2.2.1 ef
        have ho : h.ownerOf x = some f := by rw [ownerOf_eq e]; simp [owner, hg, eg, ef]
        have kf := ancOf_kind h1
        have h2 := (s.refs x n l e).2.1 el
        rw [ancOf_ne s ho (by rw [kf]; simp), ancOf_none s (ownerOf_font kf)] at h2
        simp at h2
    · have : owner n = none := by cases hk : n.kind <;> simp [owner, hk, eg, Kind.isLeaf] at k hl hg ⊢
      have := s.loose x n e this
      simp [el] at this
  have hv : n.kind.viaLayer = true := by simp [hk, Kind.viaLayer]
  have ho : h.ownerOf x = some l := by rw [ownerOf_eq e]; simp [owner, hk, eg, el]
  obtain ⟨L1, L2⟩ := exact_layer s enl knl
  have A1 : ancOf h .glyph x = none := by
    rw [ancOf_ne s ho (by rw [kl]; simp)]
    exact ancOf_low s (by simp [rankOf, kl, rank])
  have A2 : ancOf h .layer x = some l := ancOf_eq s ho kl
  have A3 : ancOf h .layerSet x = nl.pLayerSet := by rw [ancOf_ne s ho (by rw [kl]; simp), L1]
  have A4 : ancOf h .font x = nl.pLayerSet.bind h.storedFont := by rw [ancOf_ne s ho (by rw [kl]; simp), L2]
  have L : layerOf h x = some l := by rw [layerOf_leaf e k, el]; rfl
  have LS : layerSetOf h x = nl.pLayerSet := by
    rw [layerSetOf_leaf_via e hv, L, Option.bind_some]
    have : h.storedLayerSet l = nl.pLayerSet := by simp [Heap.storedLayerSet, enl]
    rw [this]
    exact or_sub fun a ea => by rw [← A3]; exact (s.refs x n a e).2.2.1 ea
  have F : fontOf h x = nl.pLayerSet.bind h.storedFont := by
    rw [fontOf_leaf_via e hv, LS]
    exact or_sub fun a ea => by rw [← A4]; exact (s.refs x n a e).2.2.2.1 ea
  have knf : n.kind ≠ .font := by simp [hk]
  have D : dispOf h x = nl.pLayerSet.bind h.storedFont := by
    rw [dispOf_nonfont e knf, F]
    exact or_sub fun a ea => by rw [← A4]; exact (s.refs x n a e).2.2.2.2 ea
  exact ⟨nl, enl, knl, ho, A1, A2, A3, A4, L, LS, F, D⟩


/-- the font and dispatcher accessors of anything but a font answer the font above it -/
theorem font_exact {ds} {h : Heap} (s : Struct ds h) {x : Id} {n : Node} (e : h.get x = some n) (k : n.kind ≠ .font) :
    fontOf h x = ancOf h .font x ∧ dispOf h x = ancOf h .font x := by
  have D : fontOf h x = ancOf h .font x → dispOf h x = ancOf h .font x := fun F => by
    rw [dispOf_nonfont e k, F]
    exact or_sub fun a ea => (s.refs x n a e).2.2.2.2 ea
  suffices F : fontOf h x = ancOf h .font x from ⟨F, D F⟩
  cases hl : n.kind.isLeaf with
  | false =>
    cases hk : n.kind <;> simp [hk, Kind.isLeaf] at hl k
    · have := exact_layerSet s e hk
      simp only [fontOf, e, hk]; exact this
    · have := (exact_layer s e hk).2
      simp only [fontOf, e, hk]; exact this
    · have := (exact_glyph s e hk).2.2
      simp only [fontOf, e, hk]; exact this
  | true =>
    cases eg : n.pGlyph with
    | some g =>
      obtain ⟨ng, _, _, _, _, _, _, A4, _, _, F, _⟩ := exact_leaf_glyph s e hl eg
      rw [F, A4]
    | none =>
      cases el : n.pLayer with
      | some l =>
        obtain ⟨nl, _, _, _, _, _, _, A4, _, _, F, _⟩ := exact_leaf_layer s e hl eg el
        rw [F, A4]
      | none =>
        cases ef : n.pFont with
        | some f =>
          obtain ⟨_, _, _, _, _, A4, _, _, F, _⟩ := exact_leaf_font s e hl eg el ef
          rw [F, A4]
        | none =>
          have eo : owner n = none := by cases hk : n.kind <;> simp [owner, hk, eg, el, ef, Kind.isLeaf] at hl ⊢
          obtain ⟨A, _, _, _, F, _⟩ := exact_loose s e k eo
          rw [F, A]

theorem disp_exact {ds} {h : Heap} (s : Struct ds h) (x : Id) : dispOf h x = centreOf h x := by
  cases e : h.get x with
  | none =>
    have : h.ownerOf x = none := by simp [Heap.ownerOf, e]
    simp [dispOf, e, centreOf, Heap.kindOf, ancOf_none s this]
  | some n =>
    by_cases k : n.kind = .font
    · rw [dispOf_font e k]; simp [centreOf, kindOf_eq e, k]
    · rw [(font_exact s e k).2]; simp [centreOf, kindOf_eq e, k]


/-! ### The invariant looks at the nodes through `get` only -/

section congr
variable {h h' : Heap} (hg : ∀ i, h'.get i = h.get i)
include hg

theorem kidsOf_congr (i : Id) : h'.kidsOf i = h.kidsOf i := by simp [Heap.kidsOf, hg i]
theorem ownerOf_congr (i : Id) : h'.ownerOf i = h.ownerOf i := by simp [Heap.ownerOf, hg i]
theorem kindOf_congr (i : Id) : h'.kindOf i = h.kindOf i := by simp [Heap.kindOf, hg i]
theorem ancOf_congr (k : Kind) (i : Id) : ancOf h' k i = ancOf h k i :=
  anc_congr (ownerOf_congr hg) (kindOf_congr hg) k 4 i
theorem alive_congr (i : Id) : h'.alive i ↔ h.alive i := by simp [Heap.alive, hg i]

theorem struct_congr {ds} (s : Struct ds h) : Struct ds h' where
  kKids p np x e hx := by rw [hg p] at e; simpa [hg x] using s.kKids p np x e hx
  kidsNodup p np e := by rw [hg p] at e; exact s.kidsNodup p np e
  shape x n e := by rw [hg x] at e; exact s.shape x n e
  up x n p e eo := by rw [hg x] at e; rw [kidsOf_congr hg]; exact s.up x n p e eo
  down p x ha hd hx := by
    rw [alive_congr hg] at ha; rw [kidsOf_congr hg] at hx; rw [ownerOf_congr hg]; exact s.down p x ha hd hx
  loose x n e := by rw [hg x] at e; exact s.loose x n e
  refs x n a e := by rw [hg x] at e; simp only [ancOf_congr hg]; exact s.refs x n a e
  full x n e := by rw [hg x] at e; simp only [ancOf_congr hg]; exact s.full x n e

end congr

theorem struct_mono {ds ds'} {h : Heap} (s : Struct ds h) (sub : ∀ d, d ∈ ds → d ∈ ds') : Struct ds' h :=
  { s with down := fun p x ha hd hx => s.down p x ha (fun hm => hd (sub p hm)) hx }

/-- a container stops dying once everything it lists points to it (or it is not alive) -/
theorem struct_undying {ds} {h : Heap} {d : Id} (s : Struct (d :: ds) h)
    (hd : h.alive d → ∀ x ∈ h.kidsOf d, h.ownerOf x = some d) : Struct ds h := by
  refine { s with down := ?_ }
  intro p x ha hp hx
  by_cases e : p = d
  · subst e
    exact hd ha x hx
  · exact s.down p x ha (by simp [e, hp]) hx


/-! ### Changing a child list only -/

theorem get_addKid (h : Heap) (p x i : Id) :
    (h.addKid p x).get i = if p = i then (h.get p).map (fun n => { n with kids := n.kids ++ [x] }) else h.get i := by
  simp [Heap.addKid, get_upd]

theorem get_unlist (h : Heap) (p x i : Id) :
    (h.unlist p x).get i = if p = i then (h.get p).map (fun n => { n with kids := n.kids.filter (· ≠ x) }) else h.get i := by
  simp [Heap.unlist, get_upd]

/-- a change of one node's child list leaves owners and kinds alone -/
theorem kidsChange_owner {h h' : Heap} {p : Id} {np : Node} {f : List Id → List Id} (ep : h.get p = some np)
    (hg : ∀ i, h'.get i = if p = i then (h.get p).map (fun n => { n with kids := f n.kids }) else h.get i) :
    (∀ i, h'.ownerOf i = h.ownerOf i) ∧ (∀ i, h'.kindOf i = h.kindOf i) ∧
    (∀ k i, ancOf h' k i = ancOf h k i) ∧ (∀ i, h'.alive i ↔ h.alive i) ∧
    (∀ i, h'.kidsOf i = if p = i then f np.kids else h.kidsOf i) ∧
    (∀ i n', h'.get i = some n' → ∃ n, h.get i = some n ∧ n' = { n with kids := n'.kids }) := by
  have ho : ∀ i, h'.ownerOf i = h.ownerOf i := fun i => by
    simp only [Heap.ownerOf, hg i]
    by_cases e : p = i
    · subst e; simp [ep, owner]
    · simp [e]
  have hk : ∀ i, h'.kindOf i = h.kindOf i := fun i => by
    simp only [Heap.kindOf, hg i]
    by_cases e : p = i
    · subst e; simp [ep]
    · simp [e]
  refine ⟨ho, hk, fun k i => anc_congr ho hk k 4 i, fun i => ?_, fun i => ?_, fun i n' e => ?_⟩
  · simp only [Heap.alive, hg i]
    by_cases e : p = i
    · subst e; simp [ep, owner]
    · simp [e]
  · simp only [Heap.kidsOf, hg i]
    by_cases e : p = i
    · subst e; simp [ep]
    · simp [e]
  · rw [hg i] at e
    by_cases e2 : p = i
    · subst e2
      simp only [if_true, ep, Option.map_some, Option.some.injEq] at e
      exact ⟨np, ep, by subst e; rfl⟩
    · simp only [e2, if_false] at e
      exact ⟨n', e, rfl⟩

theorem struct_kidsChange {ds} {h h' : Heap} (s : Struct ds h) {p : Id} {np : Node} {f : List Id → List Id}
    (ep : h.get p = some np)
    (hg : ∀ i, h'.get i = if p = i then (h.get p).map (fun n => { n with kids := f n.kids }) else h.get i)
    (kk : ∀ y ∈ f np.kids, ∃ ny, h.get y = some ny ∧ allowed np.kind ny.kind = true)
    (nd : (f np.kids).Nodup)
    (hup : ∀ y, h.ownerOf y = some p → y ∈ f np.kids)
    (hdn : p ∈ ds ∨ ∀ y ∈ f np.kids, y ∈ np.kids) : Struct ds h' := by
  obtain ⟨ho, hk, ha', hal, hkids, hnode⟩ := kidsChange_owner ep hg
  have exists' : ∀ y ny, h.get y = some ny → ∃ ny', h'.get y = some ny' ∧ ny'.kind = ny.kind := fun y ny ey => by
    have := hk y
    rw [kindOf_eq ey] at this
    obtain ⟨ny', e1, e2⟩ := kindOf_some this
    exact ⟨ny', e1, e2⟩
  have kidsAt : ∀ q nq, h'.get q = some nq → nq.kids = if p = q then f np.kids else h.kidsOf q := fun q nq e => by
    rw [← hkids q, kidsOf_eq e]
  refine ⟨?_, ?_, ?_, ?_, ?_, ?_, ?_, ?_⟩
  · intro q nq y e hy
    obtain ⟨n0, e0, en⟩ := hnode q nq e
    rw [kidsAt q nq e] at hy
    have : ∃ ny, h.get y = some ny ∧ allowed nq.kind ny.kind = true := by
      by_cases eq : p = q
      · subst eq
        rw [ep] at e0; cases e0
        simp only [if_true] at hy
        rw [en]; exact kk y hy
      · simp only [eq, if_false] at hy
        rw [kidsOf_eq e0] at hy
        rw [en]; exact s.kKids q n0 y e0 hy
    obtain ⟨ny, ey, hay⟩ := this
    obtain ⟨ny', ey', ek⟩ := exists' y ny ey
    exact ⟨ny', ey', by rw [ek]; exact hay⟩
  · intro q nq e
    obtain ⟨n0, e0, en⟩ := hnode q nq e
    rw [kidsAt q nq e]
    by_cases eq : p = q
    · simp [eq, nd]
    · simp only [eq, if_false]; rw [kidsOf_eq e0]; exact s.kidsNodup q n0 e0
  · intro y n e
    obtain ⟨n0, e0, en⟩ := hnode y n e
    rw [en]; exact s.shape y n0 e0
  · intro y n q e eo
    have hoy : h.ownerOf y = some q := by rw [← ho, ownerOf_eq e]; exact eo
    obtain ⟨n0, e0, eo0⟩ := ownerOf_some hoy
    have := s.up y n0 q e0 eo0
    rw [hkids]; by_cases eq : p = q
    · subst eq; simp [hup y hoy]
    · simp [eq, this]
  · intro q y hq hqd hy
    rw [hal] at hq
    rw [hkids] at hy
    rw [ho]
    by_cases eq : p = q
    · subst eq
      simp only [if_true] at hy
      rcases hdn with hdn | hdn
      · exact absurd hdn hqd
      · exact s.down p y hq hqd (by rw [kidsOf_eq ep]; exact hdn y hy)
    · simp only [eq, if_false] at hy
      exact s.down q y hq hqd hy
  · intro y n e
    obtain ⟨n0, e0, en⟩ := hnode y n e
    rw [en]; exact s.loose y n0 e0
  · intro y n a e
    obtain ⟨n0, e0, en⟩ := hnode y n e
    simp only [ha']; rw [en]; exact s.refs y n0 a e0
  · intro y n e
    obtain ⟨n0, e0, en⟩ := hnode y n e
    simp only [ha']; rw [en]; exact s.full y n0 e0

theorem struct_addKid {ds} {h : Heap} (s : Struct ds h) {p x : Id} {np nx : Node}
    (ep : h.get p = some np) (ex : h.get x = some nx) (ha : allowed np.kind nx.kind = true)
    (hn : x ∉ np.kids) (hd : p ∈ ds) : Struct ds (h.addKid p x) := by
  refine struct_kidsChange s (f := fun ks => ks ++ [x]) ep (get_addKid h p x) ?_ ?_ ?_ (Or.inl hd)
  · intro y hy
    simp only [List.mem_append, List.mem_singleton] at hy
    rcases hy with hy | hy
    · exact s.kKids p np y ep hy
    · subst hy; exact ⟨nx, ex, ha⟩
  · have := s.kidsNodup p np ep
    simp only [List.nodup_append, this, List.nodup_cons, List.not_mem_nil, not_false_eq_true, List.nodup_nil,
      and_self, List.mem_singleton, true_and]
    intro a ha b hb; subst hb; intro e; subst e; exact hn ha
  · intro y hy
    obtain ⟨ny, ey, eo⟩ := ownerOf_some hy
    have := s.up y ny p ey eo
    rw [kidsOf_eq ep] at this
    simp [this]

theorem struct_unlist {ds} {h : Heap} (s : Struct ds h) {p x : Id} (hx : h.ownerOf x ≠ some p) :
    Struct ds (h.unlist p x) := by
  cases ep : h.get p with
  | none => exact struct_congr (fun i => by rw [get_unlist]; by_cases e : p = i <;> simp [e, ep]; subst e; simp [ep]) s
  | some np =>
    refine struct_kidsChange s (f := fun ks => ks.filter (· ≠ x)) ep (get_unlist h p x) ?_ ?_ ?_ (Or.inr ?_)
    · intro y hy
      exact s.kKids p np y ep (List.mem_filter.mp hy).1
    · exact (s.kidsNodup p np ep).filter _
    · intro y hy
      obtain ⟨ny, ey, eo⟩ := ownerOf_some hy
      have := s.up y ny p ey eo
      rw [kidsOf_eq ep] at this
      refine List.mem_filter.mpr ⟨this, ?_⟩
      simp only [ne_eq, decide_not, Bool.not_eq_eq_eq_not, Bool.not_true, decide_eq_false_iff_not]
      intro e; subst e; exact hx hy
    · intro y hy; exact (List.mem_filter.mp hy).1


/-! ### Replacing the references of one node that owns nothing -/

/-- what is above a node whose owner pointer is `o` -/
def ancVia (h : Heap) (k : Kind) (o : Option Id) : Option Id :=
  match o with
  | none => none
  | some p => if h.kindOf p = some k then some p else ancOf h k p

/-- the conditions on the new content `n'` of node `z` -/
structure NodeOK (ds : List Id) (h : Heap) (z : Id) (n' : Node) : Prop where
  ownerOK : ∀ p, owner n' = some p → p ≠ z ∧ z ∈ h.kidsOf p
  shape : (n'.kind.isLeaf = false → n'.pGlyph = none) ∧
    (n'.kind = .font → n'.pLayer = none ∧ n'.pLayerSet = none ∧ n'.pFont = none ∧ n'.disp = none) ∧
    (n'.kind = .layerSet → n'.pLayer = none ∧ n'.pLayerSet = none) ∧
    (n'.kind = .layer → n'.pLayer = none ∧ n'.pFont = none)
  loose : owner n' = none →
    n'.pGlyph = none ∧ n'.pLayer = none ∧ n'.pLayerSet = none ∧ n'.pFont = none ∧ n'.disp = none
  refs : ∀ a,
    (n'.pGlyph = some a → ancVia h .glyph (owner n') = some a) ∧
    (n'.pLayer = some a → ancVia h .layer (owner n') = some a) ∧
    (n'.pLayerSet = some a → ancVia h .layerSet (owner n') = some a) ∧
    (n'.pFont = some a → ancVia h .font (owner n') = some a) ∧
    (n'.disp = some a → ancVia h .font (owner n') = some a)
  full : (n'.kind = .glyph → n'.pLayer ≠ none → n'.pLayerSet ≠ none ∧ n'.pFont ≠ none) ∧
    (n'.kind = .layer → n'.pLayerSet ≠ none → ancVia h .font (owner n') ≠ none)
  downUp : ∀ p, z ∈ h.kidsOf p → p ≠ z → h.alive p → p ∉ ds → owner n' = some p

theorem struct_replace {ds} {h h' : Heap} (s : Struct ds h) {z : Id} {n n' : Node}
    (ez : h.get z = some n) (hg : ∀ i, h'.get i = if z = i then some n' else h.get i)
    (hkind : n'.kind = n.kind) (hkids : n'.kids = n.kids)
    (hz : ∀ i, h.ownerOf i ≠ some z)
    (ok : NodeOK ds h z n')
    (dz : z ∈ ds ∨ n.kids = [] ∨ (n'.kind ≠ .font ∧ owner n' = none)) : Struct ds h' := by
  have hne : ∀ i, i ≠ z → h'.get i = h.get i := fun i hi => by rw [hg]; simp [Ne.symm hi]
  have hzz : h'.get z = some n' := by rw [hg]; simp
  have hk : ∀ i, h'.kindOf i = h.kindOf i := fun i => by
    by_cases e : i = z
    · subst e; simp [Heap.kindOf, hzz, ez, hkind]
    · simp [Heap.kindOf, hne i e]
  have hkidsOf : ∀ i, h'.kidsOf i = h.kidsOf i := fun i => by
    by_cases e : i = z
    · subst e; simp [Heap.kidsOf, hzz, ez, hkids]
    · simp [Heap.kidsOf, hne i e]
  have hoo : ∀ i, i ≠ z → h'.ownerOf i = h.ownerOf i := fun i hi => by simp [Heap.ownerOf, hne i hi]
  have hoz : h'.ownerOf z = owner n' := by simp [Heap.ownerOf, hzz]
  have hanc : ∀ k i, i ≠ z → ancOf h' k i = ancOf h k i := fun k i hi => anc_frame hne hz k 4 i hi
  have hancz : ∀ k, ancOf h' k z = ancVia h k (owner n') := fun k => by
    unfold ancOf; rw [anc_succ, hoz]
    cases eo : owner n' with
    | none => rfl
    | some p =>
      obtain ⟨hpz, hzp⟩ := ok.ownerOK p eo
      obtain ⟨np, ep, hm⟩ := mem_kidsOf hzp
      obtain ⟨nz, ez', ha⟩ := s.kKids p np z ep hm
      have hr : rankOf h p ≤ 3 := by simp only [rankOf, kindOf_eq ep]; exact (allowed_rank ha).2
      simp only [ancVia, hk p]
      rw [anc_frame hne hz k 3 p hpz, ← anc_fuel s k 3 p hr 4 (by omega)]
      rfl
  have halive : ∀ p, p ≠ z → (h'.alive p ↔ h.alive p) := fun p hp => by simp [Heap.alive, hne p hp]
  refine ⟨?_, ?_, ?_, ?_, ?_, ?_, ?_, ?_⟩
  · intro q nq y e hy
    have : y ∈ h.kidsOf q := by rw [← hkidsOf, kidsOf_eq e]; exact hy
    obtain ⟨nq0, eq0, hm⟩ := mem_kidsOf this
    obtain ⟨ny, ey, hay⟩ := s.kKids q nq0 y eq0 hm
    have k1 : nq.kind = nq0.kind := by
      have := hk q; rw [kindOf_eq e, kindOf_eq eq0] at this; simpa using this
    have := hk y
    rw [kindOf_eq ey] at this
    obtain ⟨ny', ey', eky⟩ := kindOf_some this
    exact ⟨ny', ey', by rw [k1, eky]; exact hay⟩
  · intro q nq e
    by_cases eq : q = z
    · subst eq; rw [hzz] at e; cases e; rw [hkids]; exact s.kidsNodup q n ez
    · rw [hne q eq] at e; exact s.kidsNodup q nq e
  · intro y ny e
    by_cases eq : y = z
    · subst eq; rw [hzz] at e; cases e; exact ok.shape
    · rw [hne y eq] at e; exact s.shape y ny e
  · intro y ny q e eo
    rw [hkidsOf]
    by_cases eq : y = z
    · subst eq; rw [hzz] at e; cases e; exact (ok.ownerOK q eo).2
    · rw [hne y eq] at e; exact s.up y ny q e eo
  · intro q y hq hqd hy
    rw [hkidsOf] at hy
    by_cases eq : q = z
    · subst eq
      exfalso
      rcases dz with dz | dz | dz
      · exact hqd dz
      · rw [kidsOf_eq ez, dz] at hy; simp at hy
      · obtain ⟨nq, enq, hal⟩ := hq
        rw [hzz] at enq; cases enq
        rcases hal with hal | hal
        · exact dz.1 hal
        · exact hal dz.2
    · have hq0 := (halive q eq).mp hq
      by_cases ey : y = z
      · subst ey; rw [hoz]; exact ok.downUp q hy eq hq0 hqd
      · rw [hoo y ey]; exact s.down q y hq0 hqd hy
  · intro y ny e eo
    by_cases eq : y = z
    · subst eq; rw [hzz] at e; cases e; exact ok.loose eo
    · rw [hne y eq] at e; exact s.loose y ny e eo
  · intro y ny a e
    by_cases eq : y = z
    · subst eq; rw [hzz] at e; cases e; simp only [hancz]; exact ok.refs a
    · rw [hne y eq] at e; simp only [hanc _ y eq]; exact s.refs y ny a e
  · intro y ny e
    by_cases eq : y = z
    · subst eq; rw [hzz] at e; cases e; simp only [hancz]; exact ok.full
    · rw [hne y eq] at e; simp only [hanc _ y eq]; exact s.full y ny e


/-- a node without any reference and without children -/
def blank (k : Kind) : Node := { kind := k }

theorem nobody_owned_by_missing {ds} {h : Heap} (s : Struct ds h) {z : Id} (ez : h.get z = none) :
    ∀ i, h.ownerOf i ≠ some z := by
  intro i hi
  obtain ⟨ni, ei, eo⟩ := ownerOf_some hi
  obtain ⟨nz, e, _⟩ := mem_kidsOf (s.up i ni z ei eo)
  rw [ez] at e; cases e

theorem struct_alloc {ds} {h : Heap} (s : Struct ds h) (k : Kind) : Struct ds (h.alloc (blank k)) := by
  have ez : h.get h.next = none := get_next h
  have hg := get_alloc h (blank k)
  have hne : ∀ i, i ≠ h.next → (h.alloc (blank k)).get i = h.get i := fun i hi => by rw [hg]; simp [hi]
  have hzz : (h.alloc (blank k)).get h.next = some (blank k) := by rw [hg]; simp
  have hz := nobody_owned_by_missing s ez
  have hanc : ∀ kk i, i ≠ h.next → ancOf (h.alloc (blank k)) kk i = ancOf h kk i :=
    fun kk i hi => anc_frame hne hz kk 4 i hi
  have old : ∀ i n, h.get i = some n → i ≠ h.next := fun i n e hi => by subst hi; rw [ez] at e; cases e
  have hkidsOf : ∀ i, (h.alloc (blank k)).kidsOf i = h.kidsOf i := fun i => by
    by_cases e : i = h.next
    · subst e; simp only [Heap.kidsOf, hzz, ez]; rfl
    · simp [Heap.kidsOf, hne i e]
  refine ⟨?_, ?_, ?_, ?_, ?_, ?_, ?_, ?_⟩
  · intro q nq y e hy
    by_cases eq : q = h.next
    · subst eq; rw [hzz] at e; cases e; simp [blank] at hy
    · rw [hne q eq] at e
      obtain ⟨ny, ey, hay⟩ := s.kKids q nq y e hy
      exact ⟨ny, by rw [hne y (old y ny ey)]; exact ey, hay⟩
  · intro q nq e
    by_cases eq : q = h.next
    · subst eq; rw [hzz] at e; cases e; simp [blank]
    · rw [hne q eq] at e; exact s.kidsNodup q nq e
  · intro y ny e
    by_cases eq : y = h.next
    · subst eq; rw [hzz] at e; cases e; simp [blank]
    · rw [hne y eq] at e; exact s.shape y ny e
  · intro y ny q e eo
    rw [hkidsOf]
    by_cases eq : y = h.next
    · subst eq; rw [hzz] at e; cases e
      exfalso; cases k <;> simp [blank, owner] at eo
    · rw [hne y eq] at e; exact s.up y ny q e eo
  · intro q y hq hqd hy
    rw [hkidsOf] at hy
    obtain ⟨nq, enq, hm⟩ := mem_kidsOf hy
    have hq' : q ≠ h.next := old q nq enq
    obtain ⟨ny, ey, _⟩ := s.kKids q nq y enq hm
    have hy' : y ≠ h.next := old y ny ey
    have : (h.alloc (blank k)).ownerOf y = h.ownerOf y := by simp [Heap.ownerOf, hne y hy']
    rw [this]
    exact s.down q y (by simpa [Heap.alive, hne q hq'] using hq) hqd hy
  · intro y ny e eo
    by_cases eq : y = h.next
    · subst eq; rw [hzz] at e; cases e; simp [blank]
    · rw [hne y eq] at e; exact s.loose y ny e eo
  · intro y ny a e
    by_cases eq : y = h.next
    · subst eq; rw [hzz] at e; cases e; simp [blank]
    · rw [hne y eq] at e; simp only [hanc _ y eq]; exact s.refs y ny a e
  · intro y ny e
    by_cases eq : y = h.next
    · subst eq; rw [hzz] at e; cases e; simp [blank]
    · rw [hne y eq] at e; simp only [hanc _ y eq]; exact s.full y ny e


/-! ### Operations that leave the nodes alone -/

@[simp] theorem get_addReg (h : Heap) (r : Reg) (i : Id) : (h.addReg r).get i = h.get i := by
  unfold Heap.addReg; split <;> rfl

theorem get_foldl_addReg (h : Heap) (rs : List Reg) (i : Id) :
    (rs.foldl (fun h r => h.addReg r) h).get i = h.get i := by
  induction rs generalizing h with
  | nil => rfl
  | cons r rs ih => simp [List.foldl_cons, ih]

@[simp] theorem get_observe (h : Heap) (x o : Id) (names : List NName) (i : Id) : (observe h x o names).get i = h.get i := by
  unfold observe
  split
  · rfl
  · rename_i c _
    have : ∀ (h : Heap), (names.foldl (fun h nm => h.addReg ⟨c, o, x, nm⟩) h).get i = h.get i := by
      intro h
      induction names generalizing h with
      | nil => rfl
      | cons nm ns ih => simp [List.foldl_cons, ih]
    exact this h

@[simp] theorem get_unobserve (h : Heap) (x o : Id) (names : List NName) (i : Id) : (unobserve h x o names).get i = h.get i := by
  unfold unobserve; split <;> rfl

@[simp] theorem get_setDirty (h : Heap) (x i : Id) : (h.setDirty x).get i = h.get i := by
  unfold Heap.setDirty; split <;> rfl
@[simp] theorem regs_setDirty (h : Heap) (x : Id) : (h.setDirty x).regs = h.regs := by
  unfold Heap.setDirty; split <;> rfl
@[simp] theorem get_setName (h : Heap) (x : Id) (s : String) (i : Id) : (h.setName x s).get i = h.get i := rfl
@[simp] theorem regs_setName (h : Heap) (x : Id) (s : String) : (h.setName x s).regs = h.regs := rfl
@[simp] theorem get_dropUnloaded (h : Heap) (l : Id) (s : String) (i : Id) : (h.dropUnloaded l s).get i = h.get i := rfl
@[simp] theorem regs_dropUnloaded (h : Heap) (l : Id) (s : String) : (h.dropUnloaded l s).regs = h.regs := rfl

/-- posting changes dirty flags only -/
theorem post_nodes_regs (fuel : Nat) (h : Heap) (s : Id) :
    (post fuel h s).1.nodes = h.nodes ∧ (post fuel h s).1.regs = h.regs := by
  induction fuel generalizing h s with
  | zero => exact ⟨rfl, rfl⟩
  | succ fuel ih =>
    unfold post
    split
    · rename_i c ks _ _
      generalize (h.regs.filter _) = obs
      suffices H : ∀ (acc : Heap × List Id), acc.1.nodes = h.nodes ∧ acc.1.regs = h.regs →
          (obs.foldl (fun (acc : Heap × List Id) r =>
            if h.kindOf r.observer = some .font ∧ ks = .layerSet ∧ ¬ acc.1.isDirty s then acc
            else
              let res := post fuel (acc.1.setDirty r.observer) r.observer
              (res.1, acc.2 ++ res.2)) acc).1.nodes = h.nodes ∧
          (obs.foldl (fun (acc : Heap × List Id) r =>
            if h.kindOf r.observer = some .font ∧ ks = .layerSet ∧ ¬ acc.1.isDirty s then acc
            else
              let res := post fuel (acc.1.setDirty r.observer) r.observer
              (res.1, acc.2 ++ res.2)) acc).1.regs = h.regs from H (h, [s]) ⟨rfl, rfl⟩
      induction obs with
      | nil => intro acc ha; exact ha
      | cons r rs ihr =>
        intro acc ha
        rw [List.foldl_cons]
        apply ihr
        split
        · exact ha
        · have := ih (acc.1.setDirty r.observer) r.observer
          refine ⟨?_, ?_⟩
          · rw [this.1]
            have : (acc.1.setDirty r.observer).nodes = acc.1.nodes := by unfold Heap.setDirty; split <;> rfl
            rw [this, ha.1]
          · rw [this.2, regs_setDirty, ha.2]
    · exact ⟨rfl, rfl⟩

@[simp] theorem get_post (fuel : Nat) (h : Heap) (s i : Id) : (post fuel h s).1.get i = h.get i := by
  simp [Heap.get, (post_nodes_regs fuel h s).1]
@[simp] theorem regs_post (fuel : Nat) (h : Heap) (s : Id) : (post fuel h s).1.regs = h.regs :=
  (post_nodes_regs fuel h s).2
@[simp] theorem get_mark (h : Heap) (x i : Id) : (mark h x).get i = h.get i := by simp [mark, markPost]
@[simp] theorem regs_mark (h : Heap) (x : Id) : (mark h x).regs = h.regs := by simp [mark, markPost]


/-! ### Soundness of registrations under heap changes -/

/-- one registration is sound -/
def RegOK (h : Heap) (r : Reg) : Prop :=
  centreOf h r.observable = some r.centre ∧
    ((r.name = .all ∧ r.observer = r.observable) ∨ (r.name ∈ namesFor h r.observer r.observable ∧ Link h r.observer r.observable))

theorem wiredX_iff {ds} {h : Heap} : WiredX ds h ↔ Struct ds h ∧ ∀ r ∈ h.regs, RegOK h r :=
  ⟨fun w => ⟨w.toStruct, w.regSound⟩, fun ⟨s, r⟩ => ⟨s, r⟩⟩

theorem namesFor_nonempty {h : Heap} {o x : Id} {nm : NName} (e : nm ∈ namesFor h o x) :
    ∃ ko kx, h.kindOf o = some ko ∧ h.kindOf x = some kx ∧ nm ∈ tableNames ko kx := by
  unfold namesFor at e
  split at e
  · rename_i ko kx e1 e2; exact ⟨ko, kx, e1, e2, e⟩
  · simp at e

/-- a sound registration survives any change that keeps kinds, the owner of its observable and what is
above its observable -/
theorem regOK_transfer {h h' : Heap} {r : Reg}
    (hk : ∀ i k, h.kindOf i = some k → h'.kindOf i = some k)
    (ho : h'.ownerOf r.observable = h.ownerOf r.observable)
    (ha : ancOf h' .font r.observable = ancOf h .font r.observable)
    (ok : RegOK h r) : RegOK h' r := by
  obtain ⟨c, rest⟩ := ok
  have kx : h'.kindOf r.observable = h.kindOf r.observable ∨ h.kindOf r.observable = none := by
    cases e : h.kindOf r.observable with
    | none => right; rfl
    | some k => left; exact hk _ _ e
  refine ⟨?_, ?_⟩
  · unfold centreOf at c ⊢
    rcases kx with kx | kx
    · rw [kx, ha]; exact c
    · -- the observable does not exist: it has no centre
      exfalso
      simp only [kx] at c
      have : h.ownerOf r.observable = none := by
        unfold Heap.kindOf at kx; unfold Heap.ownerOf
        cases e : h.get r.observable <;> simp [e] at kx ⊢
      simp [ancOf, anc_owner_none this] at c
  · rcases rest with rest | ⟨hn, hl⟩
    · exact Or.inl rest
    · right
      obtain ⟨ko, kx', e1, e2, e3⟩ := namesFor_nonempty hn
      refine ⟨?_, ?_⟩
      · unfold namesFor; rw [hk _ _ e1, hk _ _ e2]; exact e3
      · rcases hl with hl | ⟨hl1, hl2⟩
        · left; rw [ho]; exact hl
        · right; exact ⟨hk _ _ hl1, by rw [ha]; exact hl2⟩

theorem regOK_exists {h : Heap} {r : Reg} (ok : RegOK h r) : ∃ n, h.get r.observable = some n := by
  cases e : h.get r.observable with
  | some n => exact ⟨n, rfl⟩
  | none =>
    exfalso
    have c := ok.1
    have : h.ownerOf r.observable = none := by simp [Heap.ownerOf, e]
    simp [centreOf, Heap.kindOf, e, ancOf, anc_owner_none this] at c

/-- a registration is sound only if its observable has a centre -/
theorem regOK_centre {ds} {h : Heap} (s : Struct ds h) {r : Reg} (ok : RegOK h r) : dispOf h r.observable = some r.centre := by
  rw [disp_exact s]; exact ok.1

theorem mem_foldl_addReg {h : Heap} {rs : List Reg} {r : Reg} (hr : r ∈ (rs.foldl (fun h r => h.addReg r) h).regs) :
    r ∈ h.regs ∨ r ∈ rs := by
  induction rs generalizing h with
  | nil => exact Or.inl hr
  | cons a rs ih =>
    rw [List.foldl_cons] at hr
    rcases ih hr with h1 | h1
    · unfold Heap.addReg at h1
      split at h1
      · exact Or.inl h1
      · simp only [List.mem_append, List.mem_singleton] at h1
        rcases h1 with h1 | h1
        · exact Or.inl h1
        · right; simp [h1]
    · right; simp [h1]

theorem mem_foldl_names {c o x : Id} {names : List NName} {r : Reg} :
    ∀ {h : Heap}, r ∈ (names.foldl (fun h nm => h.addReg ⟨c, o, x, nm⟩) h).regs →
      r ∈ h.regs ∨ ∃ nm, nm ∈ names ∧ r = ⟨c, o, x, nm⟩ := by
  induction names with
  | nil => intro h hr; exact Or.inl hr
  | cons a ns ih =>
    intro h hr
    rw [List.foldl_cons] at hr
    rcases ih hr with h1 | ⟨nm, h1, h2⟩
    · unfold Heap.addReg at h1
      split at h1
      · exact Or.inl h1
      · simp only [List.mem_append, List.mem_singleton] at h1
        rcases h1 with h1 | h1
        · exact Or.inl h1
        · right; exact ⟨a, by simp, h1⟩
    · right; exact ⟨nm, by simp [h1], h2⟩

theorem mem_observe {h : Heap} {x o : Id} {names : List NName} {r : Reg} (hr : r ∈ (observe h x o names).regs) :
    r ∈ h.regs ∨ ∃ c nm, dispOf h x = some c ∧ nm ∈ names ∧ r = ⟨c, o, x, nm⟩ := by
  unfold observe at hr
  split at hr
  · exact Or.inl hr
  · rename_i c ec
    rcases mem_foldl_names hr with h1 | ⟨nm, h1, h2⟩
    · exact Or.inl h1
    · right; exact ⟨c, nm, ec, h1, h2⟩

theorem mem_unobserve {h : Heap} {x o : Id} {names : List NName} {r : Reg} (hr : r ∈ (unobserve h x o names).regs) :
    r ∈ h.regs ∧ ∀ c, dispOf h x = some c → ¬ (r.centre = c ∧ r.observer = o ∧ r.observable = x ∧ r.name ∈ names) := by
  unfold unobserve at hr
  split at hr
  · rename_i e; exact ⟨hr, fun c ec => by rw [e] at ec; cases ec⟩
  · rename_i c e
    simp only [List.mem_filter, decide_eq_true_eq] at hr
    exact ⟨hr.1, fun c' ec => by rw [e] at ec; cases ec; exact hr.2⟩


/-! ### Steps of the invariant (structure and registrations together) -/

theorem wired_mono {ds ds'} {h : Heap} (w : WiredX ds h) (sub : ∀ d, d ∈ ds → d ∈ ds') : WiredX ds' h :=
  ⟨struct_mono w.toStruct sub, w.regSound⟩

theorem wired_undying {ds} {h : Heap} {d : Id} (w : WiredX (d :: ds) h)
    (hd : h.alive d → ∀ x ∈ h.kidsOf d, h.ownerOf x = some d) : WiredX ds h :=
  ⟨struct_undying w.toStruct hd, w.regSound⟩

/-- same nodes; every registration is an old one or sound -/
theorem wired_regs {ds} {h h' : Heap} (w : WiredX ds h) (hg : ∀ i, h'.get i = h.get i)
    (hr : ∀ r ∈ h'.regs, r ∈ h.regs ∨ RegOK h r) : WiredX ds h' := by
  refine ⟨struct_congr hg w.toStruct, fun r hm => ?_⟩
  have ok : RegOK h r := by
    rcases hr r hm with h1 | h1
    · exact w.regSound r h1
    · exact h1
  exact regOK_transfer (fun i k e => by rw [kindOf_congr hg]; exact e) (ownerOf_congr hg _) (ancOf_congr hg _ _) ok

theorem wired_kidsChange {ds} {h h' : Heap} (w : WiredX ds h) {p : Id} {np : Node} {f : List Id → List Id}
    (ep : h.get p = some np)
    (hg : ∀ i, h'.get i = if p = i then (h.get p).map (fun n => { n with kids := f n.kids }) else h.get i)
    (hregs : h'.regs = h.regs)
    (kk : ∀ y ∈ f np.kids, ∃ ny, h.get y = some ny ∧ allowed np.kind ny.kind = true)
    (nd : (f np.kids).Nodup)
    (hup : ∀ y, h.ownerOf y = some p → y ∈ f np.kids)
    (hdn : p ∈ ds ∨ ∀ y ∈ f np.kids, y ∈ np.kids) : WiredX ds h' := by
  obtain ⟨ho, hk, ha', _, _, _⟩ := kidsChange_owner ep hg
  refine ⟨struct_kidsChange w.toStruct ep hg kk nd hup hdn, fun r hm => ?_⟩
  rw [hregs] at hm
  exact regOK_transfer (fun i k e => by rw [hk]; exact e) (ho _) (ha' _ _) (w.regSound r hm)

theorem wired_addKid {ds} {h : Heap} (w : WiredX ds h) {p x : Id} {np nx : Node}
    (ep : h.get p = some np) (ex : h.get x = some nx) (ha : allowed np.kind nx.kind = true)
    (hn : x ∉ np.kids) (hd : p ∈ ds) : WiredX ds (h.addKid p x) := by
  obtain ⟨ho, hk, ha', _, _, _⟩ := kidsChange_owner (f := fun ks => ks ++ [x]) ep (get_addKid h p x)
  refine ⟨struct_addKid w.toStruct ep ex ha hn hd, fun r hm => ?_⟩
  have : (h.addKid p x).regs = h.regs := by simp [Heap.addKid]
  rw [this] at hm
  exact regOK_transfer (fun i k e => by rw [hk]; exact e) (ho _) (ha' _ _) (w.regSound r hm)

theorem wired_unlist {ds} {h : Heap} (w : WiredX ds h) {p x : Id} (hx : h.ownerOf x ≠ some p) :
    WiredX ds (h.unlist p x) := by
  refine ⟨struct_unlist w.toStruct hx, fun r hm => ?_⟩
  have hregs : (h.unlist p x).regs = h.regs := by simp [Heap.unlist]
  rw [hregs] at hm
  cases ep : h.get p with
  | none =>
    have hg : ∀ i, (h.unlist p x).get i = h.get i := fun i => by
      rw [get_unlist]; by_cases e : p = i
      · subst e; simp [ep]
      · simp [e]
    exact regOK_transfer (fun i k e => by rw [kindOf_congr hg]; exact e) (ownerOf_congr hg _) (ancOf_congr hg _ _)
      (w.regSound r hm)
  | some np =>
    obtain ⟨ho, hk, ha', _, _, _⟩ := kidsChange_owner (f := fun ks => ks.filter (· ≠ x)) ep (get_unlist h p x)
    exact regOK_transfer (fun i k e => by rw [hk]; exact e) (ho _) (ha' _ _) (w.regSound r hm)

theorem wired_replace {ds} {h h' : Heap} (w : WiredX ds h) {z : Id} {n n' : Node}
    (ez : h.get z = some n) (hg : ∀ i, h'.get i = if z = i then some n' else h.get i)
    (hregs : h'.regs = h.regs)
    (hkind : n'.kind = n.kind) (hkids : n'.kids = n.kids)
    (hz : ∀ i, h.ownerOf i ≠ some z)
    (ok : NodeOK ds h z n')
    (dz : z ∈ ds ∨ n.kids = [] ∨ (n'.kind ≠ .font ∧ owner n' = none))
    (noreg : ∀ r ∈ h.regs, r.observable ≠ z) : WiredX ds h' := by
  refine ⟨struct_replace w.toStruct ez hg hkind hkids hz ok dz, fun r hm => ?_⟩
  rw [hregs] at hm
  have hne : ∀ i, i ≠ z → h'.get i = h.get i := fun i hi => by rw [hg]; simp [Ne.symm hi]
  have hzz : h'.get z = some n' := by rw [hg]; simp
  have hk : ∀ i, h'.kindOf i = h.kindOf i := fun i => by
    by_cases e : i = z
    · subst e; simp [Heap.kindOf, hzz, ez, hkind]
    · simp [Heap.kindOf, hne i e]
  have hx := noreg r hm
  exact regOK_transfer (fun i k e => by rw [hk]; exact e) (by simp [Heap.ownerOf, hne _ hx])
    (anc_frame hne hz .font 4 _ hx) (w.regSound r hm)

theorem wired_alloc {ds} {h : Heap} (w : WiredX ds h) (k : Kind) : WiredX ds (h.alloc (blank k)) := by
  refine ⟨struct_alloc w.toStruct k, fun r hm => ?_⟩
  have hm : r ∈ h.regs := hm
  have ok := w.regSound r hm
  obtain ⟨n, en⟩ := regOK_exists ok
  have ez : h.get h.next = none := get_next h
  have hne : ∀ i, i ≠ h.next → (h.alloc (blank k)).get i = h.get i := fun i hi => by rw [get_alloc]; simp [hi]
  have hx : r.observable ≠ h.next := fun e => by rw [e, ez] at en; cases en
  refine regOK_transfer (fun i kk e => ?_) (by simp [Heap.ownerOf, hne _ hx])
    (anc_frame hne (nobody_owned_by_missing w.toStruct ez) .font 4 _ hx) ok
  obtain ⟨ni, ei, _⟩ := kindOf_some e
  have : i ≠ h.next := fun e2 => by rw [e2, ez] at ei; cases ei
  simp only [Heap.kindOf, hne i this]; exact e


/-! ### Accessors do not look at child lists -/

/-- the part of a node the accessors look at -/
def ptrs (n : Node) : Node := { n with kids := [] }

theorem acc_congr_ptrs {h h' : Heap} (hp : ∀ i, (h'.get i).map ptrs = (h.get i).map ptrs) (x : Id) :
    layerOf h' x = layerOf h x ∧ layerSetOf h' x = layerSetOf h x ∧ fontOf h' x = fontOf h x ∧
    dispOf h' x = dispOf h x ∧ glyphOf h' x = glyphOf h x ∧ parentOf h' x = parentOf h x := by
  have node : ∀ i, (h'.get i = none ∧ h.get i = none) ∨ ∃ n' n, h'.get i = some n' ∧ h.get i = some n ∧ ptrs n' = ptrs n := by
    intro i
    have := hp i
    cases e1 : h'.get i <;> cases e2 : h.get i <;> simp [e1, e2] at this ⊢
    exact this
  have sL : ∀ i, h'.storedLayer i = h.storedLayer i := fun i => by
    rcases node i with ⟨e1, e2⟩ | ⟨n', n, e1, e2, hn⟩
    · simp [Heap.storedLayer, e1, e2]
    · have := congrArg Node.pLayer hn
      simp only [ptrs] at this
      simp [Heap.storedLayer, e1, e2, this]
  have sS : ∀ i, h'.storedLayerSet i = h.storedLayerSet i := fun i => by
    rcases node i with ⟨e1, e2⟩ | ⟨n', n, e1, e2, hn⟩
    · simp [Heap.storedLayerSet, e1, e2]
    · have := congrArg Node.pLayerSet hn
      simp only [ptrs] at this
      simp [Heap.storedLayerSet, e1, e2, this]
  have sF : ∀ i, h'.storedFont i = h.storedFont i := fun i => by
    rcases node i with ⟨e1, e2⟩ | ⟨n', n, e1, e2, hn⟩
    · simp [Heap.storedFont, e1, e2]
    · have := congrArg Node.pFont hn
      simp only [ptrs] at this
      simp [Heap.storedFont, e1, e2, this]
  have fL : h'.storedLayer = h.storedLayer := funext sL
  have fS : h'.storedLayerSet = h.storedLayerSet := funext sS
  have fF : h'.storedFont = h.storedFont := funext sF
  cases e2 : h.get x with
  | none =>
    have e1 : h'.get x = none := by have := hp x; rw [e2] at this; cases e : h'.get x <;> simp [e] at this ⊢
    simp [layerOf, layerSetOf, fontOf, dispOf, glyphOf, parentOf, e1, e2]
  | some n =>
    obtain ⟨n', e1, hn⟩ : ∃ n', h'.get x = some n' ∧ ptrs n' = ptrs n := by
      have := hp x; rw [e2] at this
      cases e : h'.get x with
      | none => simp [e] at this
      | some n' => exact ⟨n', rfl, by simpa [e] using this⟩
    have hk : n'.kind = n.kind := by have := congrArg Node.kind hn; simpa [ptrs] using this
    have hg : n'.pGlyph = n.pGlyph := by have := congrArg Node.pGlyph hn; simpa [ptrs] using this
    have hl : n'.pLayer = n.pLayer := by have := congrArg Node.pLayer hn; simpa [ptrs] using this
    have hs : n'.pLayerSet = n.pLayerSet := by have := congrArg Node.pLayerSet hn; simpa [ptrs] using this
    have hf : n'.pFont = n.pFont := by have := congrArg Node.pFont hn; simpa [ptrs] using this
    have hd : n'.disp = n.disp := by have := congrArg Node.disp hn; simpa [ptrs] using this
    have L : layerOf h' x = layerOf h x := by simp only [layerOf, e1, e2, hk, hl, hg, fL]
    have LS : layerSetOf h' x = layerSetOf h x := by simp only [layerSetOf, e1, e2, hk, hs, hg, fS, L]
    have F : fontOf h' x = fontOf h x := by simp only [fontOf, e1, e2, hk, hs, hf, hg, fF, LS]
    refine ⟨L, LS, F, ?_, ?_, ?_⟩
    · simp only [dispOf, e1, e2, hk, hd, F]
    · simp only [glyphOf, e1, e2, hk, hg]
    · simp only [parentOf, e1, e2, hk, hg, hl, hs, hf]

theorem leaf_no_kids {ds} {h : Heap} (s : Struct ds h) {x : Id} {n : Node} (e : h.get x = some n)
    (k : n.kind.isLeaf = true) : n.kids = [] := by
  cases hk : n.kids with
  | nil => rfl
  | cons y ys =>
    obtain ⟨ny, _, ha⟩ := s.kKids x n y e (by simp [hk])
    cases hkk : n.kind <;> simp [hkk, Kind.isLeaf, allowed] at k ha

theorem leaf_owns_nothing {ds} {h : Heap} (s : Struct ds h) {x : Id} {n : Node} (e : h.get x = some n)
    (k : n.kind.isLeaf = true) : ∀ i, h.ownerOf i ≠ some x := by
  intro i hi
  obtain ⟨ni, ei, eo⟩ := ownerOf_some hi
  have := s.up i ni x ei eo
  rw [kidsOf_eq e, leaf_no_kids s e k] at this
  simp at this

/-- an object that points to no owner has no sound registration on it -/
theorem loose_no_regs {ds} {h : Heap} (w : WiredX ds h) {x : Id} {n : Node} (e : h.get x = some n)
    (k : n.kind ≠ .font) (eo : owner n = none) : ∀ r ∈ h.regs, r.observable ≠ x := by
  intro r hr hx
  have c := (w.regSound r hr).1
  rw [hx] at c
  have ho : h.ownerOf x = none := by rw [ownerOf_eq e]; exact eo
  simp [centreOf, kindOf_eq e, k, ancOf_none w.toStruct ho] at c

theorem get_clear (h : Heap) (z i : Id) : (h.clear z).get i = if z = i then (h.get z).map Node.cleared else h.get i := by
  simp [Heap.clear, get_upd]

theorem owner_cleared (n : Node) (k : n.kind ≠ .font) : owner n.cleared = none := by
  cases hk : n.kind <;> simp [owner, Node.cleared, hk]

/-- clearing the references of an object that owns nothing and has no registration left on it,
provided every live container that lists it is in the middle of being let go -/
theorem wired_clear {ds} {h : Heap} (w : WiredX ds h) {z : Id} {n : Node} (ez : h.get z = some n)
    (k : n.kind ≠ .font)
    (hz : ∀ i, h.ownerOf i ≠ some z) (noreg : ∀ r ∈ h.regs, r.observable ≠ z)
    (hl : ∀ p, z ∈ h.kidsOf p → h.alive p → p ∈ ds) : WiredX ds (h.clear z) := by
  have hg : ∀ i, (h.clear z).get i = if z = i then some n.cleared else h.get i := fun i => by
    rw [get_clear]; by_cases e : z = i
    · subst e; simp [ez]
    · simp [e]
  have oc := owner_cleared n k
  refine wired_replace w ez hg (by simp [Heap.clear]) rfl rfl hz ?_ (Or.inr (Or.inr ⟨k, oc⟩)) noreg
  refine ⟨?_, ?_, ?_, ?_, ?_, ?_⟩
  · intro p hp; rw [oc] at hp; cases hp
  · simp [Node.cleared]
  · intro _; simp [Node.cleared]
  · intro a; simp [Node.cleared]
  · simp [Node.cleared]
  · intro p hp hpz hal hpd; exact absurd (hl p hp hal) hpd


/-! ### Letting go of one object -/

/-- the registrations on an owned object that is not a layer: its own, and its owner's -/
theorem regs_on_owned {ds} {h : Heap} (w : WiredX ds h) {r : Reg} (hr : r ∈ h.regs) {x p : Id}
    (hx : r.observable = x) (kl : h.kindOf x ≠ some .layer) (ho : h.ownerOf x = some p) :
    dispOf h x = some r.centre ∧ ((r.name = .all ∧ r.observer = x) ∨ (r.observer = p ∧ r.name ∈ namesFor h p x)) := by
  have ok := w.regSound r hr
  have c := regOK_centre w.toStruct ok
  rw [hx] at c
  refine ⟨c, ?_⟩
  rcases ok.2 with ⟨h1, h2⟩ | ⟨h1, h2⟩
  · left; exact ⟨h1, by rw [h2, hx]⟩
  · right
    rw [hx] at h1 h2
    rcases h2 with h2 | ⟨h2, _⟩
    · rw [ho] at h2; cases h2; exact ⟨rfl, h1⟩
    · exact absurd h2 kl

theorem dispOf_congr {h h' : Heap} (hg : ∀ i, h'.get i = h.get i) (x : Id) : dispOf h' x = dispOf h x :=
  (acc_congr_ptrs (fun i => by rw [hg i]) x).2.2.2.1

theorem namesFor_congr {h h' : Heap} (hg : ∀ i, h'.get i = h.get i) (o x : Id) : namesFor h' o x = namesFor h o x := by
  simp [namesFor, kindOf_congr hg]

/-- `endSelf` after the owner's registrations are gone -/
theorem wired_endSelf {ds} {h hr : Heap} (w : WiredX ds h) {x : Id} {n : Node} (ex : h.get x = some n)
    (k : n.kind ≠ .font) (hz : ∀ i, h.ownerOf i ≠ some x)
    (hl : ∀ p, x ∈ h.kidsOf p → h.alive p → p ∈ ds)
    (hg : ∀ i, hr.get i = h.get i) (hsub : ∀ r ∈ hr.regs, r ∈ h.regs)
    (hself : ∀ r ∈ hr.regs, r.observable = x → r.name = .all ∧ r.observer = x) :
    WiredX ds (endSelf hr x) := by
  have w1 : WiredX ds hr := wired_regs w hg (fun r hm => Or.inl (hsub r hm))
  have w2 : WiredX ds (unobserve hr x x [.all]) :=
    wired_regs w1 (fun i => by simp) (fun r hm => Or.inl (mem_unobserve hm).1)
  unfold endSelf
  have ex2 : (unobserve hr x x [.all]).get x = some n := by simp [hg, ex]
  refine wired_clear w2 ex2 k ?_ ?_ ?_
  · intro i; simp only [Heap.ownerOf, get_unobserve, hg]; exact hz i
  · intro r hm hx
    obtain ⟨h1, h2⟩ := mem_unobserve hm
    obtain ⟨s1, s2⟩ := hself r h1 hx
    have c := regOK_centre w1.toStruct (w1.regSound r h1)
    rw [hx] at c
    exact h2 r.centre c ⟨rfl, s2, hx, by simp [s1]⟩
  · intro p hp hal
    have hp' : x ∈ h.kidsOf p := by simpa [Heap.kidsOf, hg] using hp
    have hal' : h.alive p := by simpa [Heap.alive, hg] using hal
    exact hl p hp' hal'

/-- `Glyph.endSelfXNotificationObservation(x)` while the glyph is being let go -/
theorem wired_detachChild {ds} {h : Heap} (w : WiredX ds h) {g x : Id} (hd : g ∈ ds) : WiredX ds (detachChild h g x) := by
  unfold detachChild
  split
  · exact w
  · rename_i hgl
    simp only [ne_eq, Decidable.not_not] at hgl
    -- x is a leaf that points to g
    unfold glyphOf at hgl
    cases ex : h.get x with
    | none => simp [ex] at hgl
    | some n =>
      simp only [ex] at hgl
      split at hgl
      · rename_i kleaf
        have ho : h.ownerOf x = some g := by rw [ownerOf_eq ex]; exact owner_leaf_glyph kleaf hgl
        have knf : n.kind ≠ .font := by intro e; simp [e, Kind.isLeaf] at kleaf
        have kl : h.kindOf x ≠ some .layer := by rw [kindOf_eq ex]; intro e; cases e' : n.kind <;> simp_all [Kind.isLeaf]
        refine wired_endSelf w ex knf (leaf_owns_nothing w.toStruct ex kleaf) ?_ (fun i => by simp)
          (fun r hm => (mem_unobserve hm).1) ?_
        · intro p hp hal
          by_cases hpd : p ∈ ds
          · exact hpd
          · have := w.down p x hal hpd hp
            rw [ho] at this; cases this; exact hd
        · intro r hm hx
          obtain ⟨h1, h2⟩ := mem_unobserve hm
          obtain ⟨c, rest⟩ := regs_on_owned w h1 hx kl ho
          rcases rest with rest | ⟨r1, r2⟩
          · exact rest
          · exact absurd ⟨rfl, r1, hx, r2⟩ (h2 r.centre c)
      · simp at hgl


/-- `endSelfLib/Image/GuidelineNotificationObservation` of an owner that is being let go (or that
unlists the object in the same breath) -/
theorem wired_detachSingleton {ds} {h : Heap} (w : WiredX ds h) {p x : Id} {n : Node} (ex : h.get x = some n)
    (kleaf : n.kind.isLeaf = true) (ho : h.ownerOf x = some p) (hd : p ∈ ds) :
    WiredX ds (detachSingleton h p x) := by
  unfold detachSingleton
  split
  · exact w
  · have knf : n.kind ≠ .font := by intro e; simp [e, Kind.isLeaf] at kleaf
    have kl : h.kindOf x ≠ some .layer := by rw [kindOf_eq ex]; intro e; cases e' : n.kind <;> simp_all [Kind.isLeaf]
    refine wired_endSelf w ex knf (leaf_owns_nothing w.toStruct ex kleaf) ?_ (fun i => by simp)
      (fun r hm => (mem_unobserve hm).1) ?_
    · intro q hq hal
      by_cases hqd : q ∈ ds
      · exact hqd
      · have := w.down q x hal hqd hq
        rw [ho] at this; cases this; exact hd
    · intro r hm hx
      obtain ⟨h1, h2⟩ := mem_unobserve hm
      obtain ⟨c, rest⟩ := regs_on_owned w h1 hx kl ho
      rcases rest with rest | ⟨r1, r2⟩
      · exact rest
      · exact absurd ⟨rfl, r1, hx, r2⟩ (h2 r.centre c)

/-! what letting go of one leaf does to the other nodes -/

theorem get_endSelf (h : Heap) (x i : Id) : (endSelf h x).get i = if x = i then (h.get x).map Node.cleared else h.get i := by
  simp [endSelf, get_clear]

theorem get_detachChild (h : Heap) (g x i : Id) :
    (detachChild h g x).get i = if x = i ∧ glyphOf h x = some g then (h.get x).map Node.cleared else h.get i := by
  unfold detachChild
  by_cases e : glyphOf h x = some g
  · simp [e, get_endSelf]
  · simp [e]

theorem get_detachSingleton (h : Heap) (p x i : Id) :
    (detachSingleton h p x).get i = if x = i ∧ dispOf h x ≠ none then (h.get x).map Node.cleared else h.get i := by
  unfold detachSingleton
  cases e : dispOf h x with
  | none => simp
  | some c => simp [get_endSelf]


/-! ### A new object built by its container -/

/-- what the references of a new node `n'` owned by `p` must satisfy, measured in the heap before -/
structure SpawnOK (h : Heap) (p : Id) (n' : Node) : Prop where
  noKids : n'.kids = []
  own : owner n' = some p
  shape : (n'.kind.isLeaf = false → n'.pGlyph = none) ∧
    (n'.kind = .font → n'.pLayer = none ∧ n'.pLayerSet = none ∧ n'.pFont = none ∧ n'.disp = none) ∧
    (n'.kind = .layerSet → n'.pLayer = none ∧ n'.pLayerSet = none) ∧
    (n'.kind = .layer → n'.pLayer = none ∧ n'.pFont = none)
  refs : ∀ a,
    (n'.pGlyph = some a → ancVia h .glyph (some p) = some a) ∧
    (n'.pLayer = some a → ancVia h .layer (some p) = some a) ∧
    (n'.pLayerSet = some a → ancVia h .layerSet (some p) = some a) ∧
    (n'.pFont = some a → ancVia h .font (some p) = some a) ∧
    (n'.disp = some a → ancVia h .font (some p) = some a)
  full : (n'.kind = .glyph → n'.pLayer ≠ none → n'.pLayerSet ≠ none ∧ n'.pFont ≠ none) ∧
    (n'.kind = .layer → n'.pLayerSet ≠ none → ancVia h .font (some p) ≠ none)

theorem get_spawn (h : Heap) (p : Id) (n' : Node) (i : Id) :
    (spawn h p n').get i = ((h.alloc n').addKid p h.next).get i := by
  simp [spawn, get_addKid]

theorem regs_addKid (h : Heap) (p x : Id) : (h.addKid p x).regs = h.regs := by simp [Heap.addKid]

theorem mem_spawn_regs {h : Heap} {p : Id} {n' : Node} {r : Reg} (hr : r ∈ (spawn h p n').regs) :
    r ∈ h.regs ∨ ∃ c, dispOf (h.alloc n') h.next = some c ∧
      (r = ⟨c, h.next, h.next, .all⟩ ∨ ∃ nm, nm ∈ namesFor (h.alloc n') p h.next ∧ r = ⟨c, p, h.next, nm⟩) := by
  simp only [spawn, regs_addKid] at hr
  rcases mem_observe hr with h1 | ⟨c, nm, h1, h2, h3⟩
  · rcases mem_observe h1 with h0 | ⟨c, nm, g1, g2, g3⟩
    · exact Or.inl h0
    · right; simp at g2; subst g2; exact ⟨c, g1, Or.inl g3⟩
  · right
    have hg : ∀ i, (observe (h.alloc n') h.next h.next [.all]).get i = (h.alloc n').get i := fun i => by simp
    rw [dispOf_congr hg] at h1
    rw [namesFor_congr hg] at h2
    exact ⟨c, h1, Or.inr ⟨nm, h2, h3⟩⟩

theorem wired_spawn {ds} {h : Heap} (w : WiredX ds h) {p : Id} {np n' : Node}
    (ep : h.get p = some np) (ha : allowed np.kind n'.kind = true) (ok : SpawnOK h p n') :
    WiredX ds (spawn h p n') := by
  have ez : h.get h.next = none := get_next h
  have hpx : p ≠ h.next := fun e => by rw [e, ez] at ep; cases ep
  -- 1. a blank node, 2. listed by p (dying meanwhile), 3. which then receives its references
  have w1 : WiredX (p :: ds) (h.alloc (blank n'.kind)) :=
    wired_mono (wired_alloc w n'.kind) (fun d hd => List.mem_cons_of_mem _ hd)
  let h1 := h.alloc (blank n'.kind)
  have g1 : ∀ i, h1.get i = if i = h.next then some (blank n'.kind) else h.get i := get_alloc h _
  have e1p : h1.get p = some np := by rw [g1]; simp [hpx, ep]
  have e1x : h1.get h.next = some (blank n'.kind) := by rw [g1]; simp
  have hxk : h.next ∉ np.kids := fun hm => by
    obtain ⟨nx, enx, _⟩ := w.kKids p np h.next ep hm
    rw [ez] at enx; cases enx
  have w2 : WiredX (p :: ds) (h1.addKid p h.next) := wired_addKid w1 e1p e1x ha hxk (by simp)
  let h2 := h1.addKid p h.next
  have g2 : ∀ i, h2.get i = if p = i then some { np with kids := np.kids ++ [h.next] } else h1.get i := fun i => by
    show (h1.addKid p h.next).get i = _
    rw [get_addKid]; by_cases e : p = i
    · subst e; simp [e1p]
    · simp [e]
  have e2x : h2.get h.next = some (blank n'.kind) := by rw [g2]; simp [hpx, e1x]
  let h3 := h2.upd h.next (fun _ => n')
  have g3 : ∀ i, h3.get i = if h.next = i then some n' else h2.get i := fun i => by
    show (h2.upd h.next (fun _ => n')).get i = _
    rw [get_upd]; by_cases e : h.next = i
    · subst e; simp [e2x]
    · simp [e]
  have hown2 : ∀ i, h2.ownerOf i ≠ some h.next := by
    intro i hi
    obtain ⟨ni, ei, eo⟩ := ownerOf_some hi
    have := w2.up i ni h.next ei eo
    rw [kidsOf_eq e2x] at this; simp [blank] at this
  -- ancestors of p are the same in h2 as in h
  have hk2 : ∀ i, i ≠ h.next → h2.kindOf i = h.kindOf i := fun i hi => by
    simp only [Heap.kindOf, g2, g1]
    by_cases e : p = i
    · subst e; simp [ep]
    · simp [e, hi]
  have hanc2 : ∀ k, ancOf h2 k p = ancOf h k p := fun k => by
    obtain ⟨_, _, ha', _, _, _⟩ := kidsChange_owner (f := fun ks => ks ++ [h.next]) e1p (get_addKid h1 p h.next)
    rw [show ancOf h2 k p = ancOf (h1.addKid p h.next) k p from rfl, ha']
    exact anc_frame (fun i hi => by rw [g1]; simp [hi]) (nobody_owned_by_missing w.toStruct ez) k 4 p hpx
  have hvia : ∀ k, ancVia h2 k (some p) = ancVia h k (some p) := fun k => by
    simp only [ancVia, hk2 p hpx, hanc2]
  have nok : NodeOK (p :: ds) h2 h.next n' := by
    refine ⟨?_, ok.shape, ?_, ?_, ?_, ?_⟩
    · intro q hq
      rw [ok.own] at hq; cases hq
      refine ⟨hpx, ?_⟩
      rw [Heap.kidsOf, g2]; simp
    · intro hno; rw [ok.own] at hno; cases hno
    · intro a; rw [ok.own]; simp only [hvia]; exact ok.refs a
    · rw [ok.own]; simp only [hvia]; exact ok.full
    · intro q hq hqx hal hqd
      -- only p lists h.next
      exfalso
      have hne : q ≠ p := fun e => hqd (by simp [e])
      have : h.next ∈ h.kidsOf q := by
        have e2 : h2.kidsOf q = h.kidsOf q := by
          simp only [Heap.kidsOf, g2, g1, Ne.symm hne, if_false, hqx]
        rw [← e2]; exact hq
      obtain ⟨nq, enq, hm⟩ := mem_kidsOf this
      obtain ⟨nx, enx, _⟩ := w.kKids q nq h.next enq hm
      rw [ez] at enx; cases enx
  have w3 : WiredX (p :: ds) h3 := by
    refine wired_replace w2 e2x g3 (regs_upd h2 h.next _) rfl (by rw [ok.noKids]; rfl) hown2 nok
      (Or.inr (Or.inl rfl)) ?_
    intro r hr hx
    have hr' : r ∈ h.regs := by simpa [h2, h1, regs_addKid] using hr
    obtain ⟨n, en⟩ := regOK_exists (w.regSound r hr')
    rw [hx, ez] at en; cases en
  -- the model's heap has the nodes of h3 and sound new registrations
  have gm : ∀ i, (spawn h p n').get i = h3.get i := fun i => by
    rw [get_spawn, get_addKid, g3, g2, g1]
    simp only [get_alloc]
    by_cases e1 : p = i
    · subst e1; simp [hpx, Ne.symm hpx, ep]
    · by_cases e2 : i = h.next
      · subst e2; simp [e1]
      · simp [e1, e2, Ne.symm e2]
  have hptr : ∀ i, ((h.alloc n').get i).map ptrs = (h3.get i).map ptrs := fun i => by
    rw [g3, g2, g1, get_alloc]
    by_cases e2 : i = h.next
    · subst e2; simp
    · by_cases e1 : p = i
      · subst e1; simp [e2, Ne.symm e2, ep, ptrs]
      · simp [e1, e2, Ne.symm e2]
  have w4 : WiredX (p :: ds) (spawn h p n') := by
    refine wired_regs w3 gm (fun r hr => ?_)
    rcases mem_spawn_regs hr with h0 | ⟨c, hc, rest⟩
    · left; simpa [h3, h2, h1, regs_addKid] using h0
    · right
      have hc3 : centreOf h3 h.next = some c := by
        rw [← disp_exact w3.toStruct, ← (acc_congr_ptrs hptr h.next).2.2.2.1]; exact hc
      rcases rest with rfl | ⟨nm, hnm, rfl⟩
      · exact ⟨hc3, Or.inl ⟨rfl, rfl⟩⟩
      · refine ⟨hc3, Or.inr ⟨?_, Or.inl ?_⟩⟩
        · have : namesFor h3 p h.next = namesFor (h.alloc n') p h.next := by
            have hk : ∀ i, h3.kindOf i = (h.alloc n').kindOf i := fun i => by
              have := congrArg (Option.map Node.kind) (hptr i)
              simp only [Option.map_map] at this
              simp only [Heap.kindOf]
              cases e1 : h3.get i <;> cases e2 : (h.alloc n').get i <;> simp [e1, e2, ptrs, Function.comp_def] at this ⊢
              exact this.symm
            simp [namesFor, hk]
          rw [this]; exact hnm
        · simp [Heap.ownerOf, g3, ok.own]
  -- p stops dying
  by_cases hpd : p ∈ ds
  · exact wired_mono w4 (fun d hd => by rcases List.mem_cons.mp hd with rfl | hd <;> assumption)
  · refine wired_undying w4 (fun hal y hy => ?_)
    have hy3 : y ∈ h3.kidsOf p := by simpa [Heap.kidsOf, gm] using hy
    have : (spawn h p n').ownerOf y = h3.ownerOf y := by simp [Heap.ownerOf, gm]
    rw [this]
    have k3 : h3.kidsOf p = np.kids ++ [h.next] := by simp [Heap.kidsOf, g3, g2, Ne.symm hpx]
    rw [k3] at hy3
    rcases List.mem_append.mp hy3 with hy0 | hy0
    · have yx : y ≠ h.next := fun e => hxk (e ▸ hy0)
      have yp : y ≠ p := fun e => by
        subst e
        obtain ⟨ny, eny, hay⟩ := w.kKids y np y ep hy0
        rw [ep] at eny; cases eny
        cases hk : np.kind <;> simp [hk, allowed, Kind.isLeaf] at hay
      have halive : h.alive p := by
        obtain ⟨n3, e3, hal3⟩ := hal
        rw [gm, g3, g2] at e3
        simp [Ne.symm hpx] at e3
        exact ⟨np, ep, by subst e3; simpa [owner] using hal3⟩
      have := w.down p y halive hpd (by rw [kidsOf_eq ep]; exact hy0)
      simp only [Heap.ownerOf, g3, g2, g1, Ne.symm yx, Ne.symm yp, yx, if_false]
      exact this
    · simp at hy0; subst hy0
      simp [Heap.ownerOf, g3, ok.own]


/-! ### A detached leaf adopted by a container -/

/-- the shape of `attachChild` / `attachFontGuideline` -/
def adopt (h : Heap) (p x : Id) (f : Node → Node) : Heap :=
  let h := h.upd x f
  let h := observe h x x [.all]
  let h := observe h x p (namesFor h p x)
  h.addKid p x

theorem attachChild_eq (h : Heap) (g x : Id) :
    attachChild h g x = adopt h g x (fun n => { n with pGlyph := some g, pLayer := none, pLayerSet := none, pFont := none }) := rfl

theorem attachFontGuideline_eq (h : Heap) (f x : Id) :
    attachFontGuideline h f x = adopt h f x (fun n => { n with pFont := some f }) := rfl

theorem mem_adopt_regs {h : Heap} {p x : Id} {f : Node → Node} {r : Reg} (hr : r ∈ (adopt h p x f).regs) :
    r ∈ h.regs ∨ ∃ c, dispOf (h.upd x f) x = some c ∧
      (r = ⟨c, x, x, .all⟩ ∨ ∃ nm, nm ∈ namesFor (h.upd x f) p x ∧ r = ⟨c, p, x, nm⟩) := by
  simp only [adopt, regs_addKid] at hr
  rcases mem_observe hr with h1 | ⟨c, nm, h1, h2, h3⟩
  · rcases mem_observe h1 with h0 | ⟨c, nm, g1, g2, g3⟩
    · left; simpa using h0
    · right; simp at g2; subst g2; exact ⟨c, g1, Or.inl g3⟩
  · right
    have hg : ∀ i, (observe (h.upd x f) x x [.all]).get i = (h.upd x f).get i := fun i => by simp
    rw [dispOf_congr hg] at h1
    rw [namesFor_congr hg] at h2
    exact ⟨c, h1, Or.inr ⟨nm, h2, h3⟩⟩

theorem wired_adopt {ds} {h : Heap} (w : WiredX ds h) {p x : Id} {np nx : Node} {f : Node → Node}
    (ep : h.get p = some np) (ex : h.get x = some nx) (kleaf : nx.kind.isLeaf = true) (lo : owner nx = none)
    (hk : (f nx).kind = nx.kind) (hkids : (f nx).kids = nx.kids)
    (ha : allowed np.kind nx.kind = true) (hxk : x ∉ np.kids) (ok : SpawnOK h p (f nx)) :
    WiredX ds (adopt h p x f) := by
  have knf : nx.kind ≠ .font := by intro e; simp [e, Kind.isLeaf] at kleaf
  have hpx : p ≠ x := fun e => by
    subst e; rw [ep] at ex; cases ex
    cases hkk : np.kind <;> simp [hkk, allowed, Kind.isLeaf] at ha kleaf
  have w1 : WiredX (p :: ds) h := wired_mono w (fun d hd => List.mem_cons_of_mem _ hd)
  have w2 : WiredX (p :: ds) (h.addKid p x) := wired_addKid w1 ep ex ha hxk (by simp)
  let h2 := h.addKid p x
  have g2 : ∀ i, h2.get i = if p = i then some { np with kids := np.kids ++ [x] } else h.get i := fun i => by
    show (h.addKid p x).get i = _
    rw [get_addKid]; by_cases e : p = i
    · subst e; simp [ep]
    · simp [e]
  have e2x : h2.get x = some nx := by rw [g2]; simp [hpx, ex]
  let h3 := h2.upd x (fun _ => f nx)
  have g3 : ∀ i, h3.get i = if x = i then some (f nx) else h2.get i := fun i => by
    show (h2.upd x (fun _ => f nx)).get i = _
    rw [get_upd]; by_cases e : x = i
    · subst e; simp [e2x]
    · simp [e]
  have hown : ∀ i, h.ownerOf i ≠ some x := leaf_owns_nothing w.toStruct ex kleaf
  have hown2 : ∀ i, h2.ownerOf i ≠ some x := fun i => by
    obtain ⟨ho, _⟩ := kidsChange_owner (f := fun ks => ks ++ [x]) ep (get_addKid h p x)
    rw [show h2.ownerOf i = (h.addKid p x).ownerOf i from rfl, ho]; exact hown i
  have hvia : ∀ k, ancVia h2 k (some p) = ancVia h k (some p) := fun k => by
    obtain ⟨_, hk', ha', _⟩ := kidsChange_owner (f := fun ks => ks ++ [x]) ep (get_addKid h p x)
    simp only [ancVia]
    rw [show h2.kindOf p = (h.addKid p x).kindOf p from rfl, hk', show ancOf h2 k p = ancOf (h.addKid p x) k p from rfl, ha']
  have nok : NodeOK (p :: ds) h2 x (f nx) := by
    refine ⟨?_, ok.shape, ?_, ?_, ?_, ?_⟩
    · intro q hq
      rw [ok.own] at hq; cases hq
      refine ⟨hpx, ?_⟩
      rw [Heap.kidsOf, g2]; simp
    · intro hno; rw [ok.own] at hno; cases hno
    · intro a; rw [ok.own]; simp only [hvia]; exact ok.refs a
    · rw [ok.own]; simp only [hvia]; exact ok.full
    · intro q hq hqx hal hqd
      exfalso
      have hne : q ≠ p := fun e => hqd (by simp [e])
      have hq0 : x ∈ h.kidsOf q := by
        have e2 : h2.kidsOf q = h.kidsOf q := by simp only [Heap.kidsOf, g2, Ne.symm hne, if_false]
        rw [← e2]; exact hq
      have hal0 : h.alive q := by simpa [Heap.alive, g2, Ne.symm hne] using hal
      have := w.down q x hal0 (fun hm => hqd (List.mem_cons_of_mem _ hm)) hq0
      rw [ownerOf_eq ex, lo] at this; cases this
  have w3 : WiredX (p :: ds) h3 := by
    refine wired_replace w2 e2x g3 (regs_upd h2 x _) hk hkids hown2 nok
      (Or.inr (Or.inl (leaf_no_kids w.toStruct ex kleaf))) ?_
    intro r hr
    have hr' : r ∈ h.regs := by simpa [h2, regs_addKid] using hr
    exact loose_no_regs w ex knf lo r hr'
  have gm : ∀ i, (adopt h p x f).get i = h3.get i := fun i => by
    simp only [adopt, get_addKid, get_observe, get_upd, g3, g2]
    by_cases e1 : p = i
    · subst e1; simp [hpx, Ne.symm hpx, ep]
    · by_cases e2 : x = i
      · subst e2; simp [e1, ex]
      · simp [e1, e2]
  have hptr : ∀ i, ((h.upd x f).get i).map ptrs = (h3.get i).map ptrs := fun i => by
    rw [g3, g2, get_upd]
    by_cases e2 : x = i
    · subst e2; simp [ex]
    · by_cases e1 : p = i
      · subst e1; simp [e2, ep, ptrs]
      · simp [e1, e2]
  have w4 : WiredX (p :: ds) (adopt h p x f) := by
    refine wired_regs w3 gm (fun r hr => ?_)
    rcases mem_adopt_regs hr with h0 | ⟨c, hc, rest⟩
    · left; simpa [h3, h2, regs_addKid] using h0
    · right
      have hc3 : centreOf h3 x = some c := by
        rw [← disp_exact w3.toStruct, ← (acc_congr_ptrs hptr x).2.2.2.1]; exact hc
      rcases rest with rfl | ⟨nm, hnm, rfl⟩
      · exact ⟨hc3, Or.inl ⟨rfl, rfl⟩⟩
      · refine ⟨hc3, Or.inr ⟨?_, Or.inl ?_⟩⟩
        · have : namesFor h3 p x = namesFor (h.upd x f) p x := by
            have hk : ∀ i, h3.kindOf i = (h.upd x f).kindOf i := fun i => by
              have := congrArg (Option.map Node.kind) (hptr i)
              simp only [Option.map_map] at this
              simp only [Heap.kindOf]
              cases e1 : h3.get i <;> cases e2 : (h.upd x f).get i <;> simp [e1, e2, ptrs, Function.comp_def] at this ⊢
              exact this.symm
            simp [namesFor, hk]
          rw [this]; exact hnm
        · simp [Heap.ownerOf, g3, ok.own]
  by_cases hpd : p ∈ ds
  · exact wired_mono w4 (fun d hd => by rcases List.mem_cons.mp hd with rfl | hd <;> assumption)
  · refine wired_undying w4 (fun hal y hy => ?_)
    have hy3 : y ∈ h3.kidsOf p := by simpa [Heap.kidsOf, gm] using hy
    have : (adopt h p x f).ownerOf y = h3.ownerOf y := by simp [Heap.ownerOf, gm]
    rw [this]
    have k3 : h3.kidsOf p = np.kids ++ [x] := by simp [Heap.kidsOf, g3, g2, Ne.symm hpx]
    rw [k3] at hy3
    rcases List.mem_append.mp hy3 with hy0 | hy0
    · have yx : y ≠ x := fun e => hxk (e ▸ hy0)
      have yp : y ≠ p := fun e => by
        subst e
        obtain ⟨ny, eny, hay⟩ := w.kKids y np y ep hy0
        rw [ep] at eny; cases eny
        cases hk : np.kind <;> simp [hk, allowed, Kind.isLeaf] at hay
      have halive : h.alive p := by
        obtain ⟨n3, e3, hal3⟩ := hal
        rw [gm, g3, g2] at e3
        simp [Ne.symm hpx] at e3
        exact ⟨np, ep, by subst e3; simpa [owner] using hal3⟩
      have := w.down p y halive hpd (by rw [kidsOf_eq ep]; exact hy0)
      simp only [Heap.ownerOf, g3, g2, Ne.symm yx, Ne.symm yp, if_false]
      exact this
    · simp at hy0; subst hy0
      simp [Heap.ownerOf, g3, ok.own]


/-! ### Removing a leaf: unlisting commutes with letting go -/

theorem ptrs_unlist (h : Heap) (p y i : Id) : ((h.unlist p y).get i).map ptrs = (h.get i).map ptrs := by
  rw [get_unlist]
  by_cases e : p = i
  · subst e; cases h.get p <;> simp [ptrs]
  · simp [e]

theorem kindOf_ptrs {h h' : Heap} (hp : ∀ i, (h'.get i).map ptrs = (h.get i).map ptrs) (i : Id) :
    h'.kindOf i = h.kindOf i := by
  have := congrArg (Option.map Node.kind) (hp i)
  simp only [Option.map_map] at this
  simp only [Heap.kindOf]
  cases e1 : h'.get i <;> cases e2 : h.get i <;> simp [e1, e2, ptrs, Function.comp_def] at this ⊢
  exact this

theorem namesFor_ptrs {h h' : Heap} (hp : ∀ i, (h'.get i).map ptrs = (h.get i).map ptrs) (o x : Id) :
    namesFor h' o x = namesFor h o x := by simp [namesFor, kindOf_ptrs hp]

theorem regs_unobserve_congr {h h' : Heap} (hp : ∀ i, (h'.get i).map ptrs = (h.get i).map ptrs) (hr : h'.regs = h.regs)
    (x o : Id) (names : List NName) : (unobserve h' x o names).regs = (unobserve h x o names).regs := by
  unfold unobserve
  rw [(acc_congr_ptrs hp x).2.2.2.1]
  cases dispOf h x <;> simp [hr]

theorem ptrs_unobserve (h : Heap) (x o : Id) (names : List NName) (i : Id) :
    ((unobserve h x o names).get i).map ptrs = (h.get i).map ptrs := by simp

theorem regs_clear (h : Heap) (x : Id) : (h.clear x).regs = h.regs := by simp [Heap.clear]

theorem regs_endSelf_congr {h h' : Heap} (hp : ∀ i, (h'.get i).map ptrs = (h.get i).map ptrs) (hr : h'.regs = h.regs)
    (x : Id) : (endSelf h' x).regs = (endSelf h x).regs := by
  simp only [endSelf, regs_clear]; exact regs_unobserve_congr hp hr x x _

theorem regs_detachChild_congr {h h' : Heap} (hp : ∀ i, (h'.get i).map ptrs = (h.get i).map ptrs) (hr : h'.regs = h.regs)
    (g x : Id) : (detachChild h' g x).regs = (detachChild h g x).regs := by
  unfold detachChild
  rw [(acc_congr_ptrs hp x).2.2.2.2.1, namesFor_ptrs hp]
  split
  · exact hr
  · exact regs_endSelf_congr (fun i => by simp [hp]) (regs_unobserve_congr hp hr _ _ _) x

theorem regs_detachSingleton_congr {h h' : Heap} (hp : ∀ i, (h'.get i).map ptrs = (h.get i).map ptrs) (hr : h'.regs = h.regs)
    (p x : Id) : (detachSingleton h' p x).regs = (detachSingleton h p x).regs := by
  unfold detachSingleton
  rw [(acc_congr_ptrs hp x).2.2.2.1, namesFor_ptrs hp]
  split
  · exact hr
  · exact regs_endSelf_congr (fun i => by simp [hp]) (regs_unobserve_congr hp hr _ _ _) x

theorem regs_unlist (h : Heap) (p x : Id) : (h.unlist p x).regs = h.regs := by simp [Heap.unlist]

theorem get_detachChild_unlist (h : Heap) (p y g x i : Id) :
    (detachChild (h.unlist p y) g x).get i = ((detachChild h g x).unlist p y).get i := by
  simp only [get_detachChild, get_unlist, (acc_congr_ptrs (ptrs_unlist h p y) x).2.2.2.2.1]
  by_cases c : glyphOf h x = some g
  · by_cases e1 : x = i
    · subst e1
      by_cases e2 : p = x
      · subst e2; cases h.get p <;> simp [c, Node.cleared]
      · simp [c, e2]
    · by_cases e2 : p = i
      · subst e2; simp [c, e1, Ne.symm e1]
      · simp [c, e1, e2]
  · simp [c]

theorem get_detachSingleton_unlist (h : Heap) (p y q x i : Id) :
    (detachSingleton (h.unlist p y) q x).get i = ((detachSingleton h q x).unlist p y).get i := by
  simp only [get_detachSingleton, get_unlist, (acc_congr_ptrs (ptrs_unlist h p y) x).2.2.2.1]
  by_cases c : dispOf h x ≠ none
  · by_cases e1 : x = i
    · subst e1
      by_cases e2 : p = x
      · subst e2; cases h.get p <;> simp [c, Node.cleared]
      · simp [c, e2]
    · by_cases e2 : p = i
      · subst e2; simp [c, e1, Ne.symm e1]
      · simp [c, e1, e2]
  · simp [c]


/-- a container `p` lets go of `x` and unlists it: generic over how `x` is let go (`hR`) -/
theorem wired_release_unlist {ds} {h hR : Heap} (w : WiredX ds h) {p x : Id} {C : Prop} [Decidable C]
    (hstep : ∀ ds', p ∈ ds' → WiredX ds' h → WiredX ds' hR)
    (hget : ∀ i, hR.get i = if x = i ∧ C then (h.get x).map Node.cleared else h.get i)
    (hxp : x ≠ p) (hown : hR.ownerOf x ≠ some p) : WiredX ds (hR.unlist p x) := by
  by_cases hpd : p ∈ ds
  · exact wired_unlist (hstep ds hpd w) hown
  · have w1 : WiredX (p :: ds) hR := hstep (p :: ds) (by simp) (wired_mono w (fun d hd => List.mem_cons_of_mem _ hd))
    have w2 : WiredX (p :: ds) (hR.unlist p x) := wired_unlist w1 hown
    refine wired_undying w2 (fun hal y hy => ?_)
    have gp : hR.get p = h.get p := by rw [hget]; simp [hxp]
    cases ep : h.get p with
    | none =>
      exfalso
      rw [Heap.kidsOf, get_unlist] at hy
      simp [gp, ep] at hy
    | some np =>
      have hy' : y ∈ np.kids ∧ y ≠ x := by
        rw [Heap.kidsOf, get_unlist] at hy
        simp [gp, ep] at hy
        exact hy
      have hal0 : h.alive p := by
        obtain ⟨n3, e3, hal3⟩ := hal
        rw [get_unlist] at e3
        simp [gp, ep] at e3
        exact ⟨np, ep, by subst e3; simpa [owner] using hal3⟩
      have hyp : y ≠ p := fun e => by
        subst e
        obtain ⟨ny, eny, hay⟩ := w.kKids y np y ep hy'.1
        rw [ep] at eny; cases eny
        cases hk : np.kind <;> simp [hk, allowed, Kind.isLeaf] at hay
      have := w.down p y hal0 hpd (by rw [kidsOf_eq ep]; exact hy'.1)
      simp only [Heap.ownerOf, get_unlist, Ne.symm hyp, if_false, hget, Ne.symm hy'.2, false_and]
      exact this

theorem glyphOf_of_owner {ds} {h : Heap} (s : Struct ds h) {x g : Id} (ho : h.ownerOf x = some g)
    (kg : h.kindOf g = some .glyph) : glyphOf h x = some g := by
  obtain ⟨n, np, e, eo, ep, _, ha⟩ := ownerOf_node s ho
  have kp : np.kind = .glyph := by rw [kindOf_eq ep] at kg; simpa using kg
  have kleaf : n.kind.isLeaf = true := by rw [kp] at ha; simpa [allowed] using ha
  rw [glyphOf_leaf e kleaf]
  cases eg : n.pGlyph with
  | some g' => rw [owner_leaf_glyph kleaf eg] at eo; exact eo
  | none =>
    exfalso
    cases el : n.pLayer with
    | some l =>
      obtain ⟨nl, enl, knl, ho', _⟩ := exact_leaf_layer s e kleaf eg el
      rw [ho] at ho'; cases ho'
      rw [ep] at enl; cases enl
      rw [kp] at knl; cases knl
    | none =>
      cases ef : n.pFont with
      | some f =>
        obtain ⟨kf, ho', _⟩ := exact_leaf_font s e kleaf eg el ef
        rw [ho] at ho'; cases ho'
        rw [kg] at kf; cases kf
      | none =>
        have : owner n = none := by cases hk : n.kind <;> simp [owner, hk, eg, el, ef, Kind.isLeaf] at kleaf ⊢
        rw [this] at eo; cases eo

theorem wired_removeChild {ds} {h : Heap} (w : WiredX ds h) {g x : Id} (kg : h.kindOf g = some .glyph) :
    WiredX ds (removeChild h g x) := by
  unfold removeChild
  refine wired_regs (h := (detachChild h g x).unlist g x) ?_ (fun i => by rw [get_mark, get_detachChild_unlist])
    (fun r hr => Or.inl ?_)
  · have hxg : x ≠ g ∨ glyphOf h x ≠ some g := by
      by_cases e : x = g
      · right; subst e
        obtain ⟨n, en, kn⟩ := kindOf_some kg
        simp [glyphOf, en, kn, Kind.isLeaf]
      · exact Or.inl e
    by_cases c : glyphOf h x = some g
    · have hxg' : x ≠ g := by rcases hxg with e | e; exact e; exact absurd c e
      refine wired_release_unlist (C := glyphOf h x = some g) w (fun ds' hd w' => wired_detachChild w' hd)
        (get_detachChild h g x) hxg' ?_
      rw [Heap.ownerOf, get_detachChild]
      simp only [c, and_self, if_true]
      cases ex : h.get x with
      | none => simp
      | some n =>
        have : n.kind ≠ .font := by
          intro e; simp [glyphOf, ex, e, Kind.isLeaf] at c
        simp [owner_cleared n this]
    · have hd : detachChild h g x = h := by simp [detachChild, c]
      rw [hd]
      refine wired_unlist w (fun ho => c (glyphOf_of_owner w.toStruct ho kg))
  · rw [regs_mark] at hr
    rw [regs_unlist]
    rw [regs_detachChild_congr (ptrs_unlist h g x) (regs_unlist h g x)] at hr
    exact hr


theorem centre_of_owned_by_font {ds} {h : Heap} (s : Struct ds h) {x f : Id} (ho : h.ownerOf x = some f)
    (kf : h.kindOf f = some .font) : dispOf h x = some f := by
  rw [disp_exact s]
  obtain ⟨n, np, e, _, ep, _, ha⟩ := ownerOf_node s ho
  have : h.kindOf x ≠ some .font := by
    rw [kindOf_eq e]; intro hk
    have hk' : n.kind = .font := by simpa using hk
    cases hp : np.kind <;> simp [hk', hp, allowed, Kind.isLeaf] at ha
  simp only [centreOf, this, if_false]
  exact ancOf_eq s ho kf

theorem wired_removeFontGuideline {ds} {h : Heap} (w : WiredX ds h) {f x : Id} {nx : Node}
    (ex : h.get x = some nx) (kleaf : nx.kind.isLeaf = true) (ho : h.ownerOf x = some f)
    (kf : h.kindOf f = some .font) : WiredX ds (removeFontGuideline h f x) := by
  unfold removeFontGuideline
  refine wired_regs (h := (detachSingleton h f x).unlist f x) ?_ (fun i => by rw [get_mark, get_detachSingleton_unlist])
    (fun r hr => Or.inl ?_)
  · have hxf : x ≠ f := fun e => by
      subst e; rw [kindOf_eq ex] at kf
      have : nx.kind = .font := by simpa using kf
      simp [this, Kind.isLeaf] at kleaf
    have hc := centre_of_owned_by_font w.toStruct ho kf
    refine wired_release_unlist (C := dispOf h x ≠ none) w
      (fun ds' hd w' => wired_detachSingleton w' ex kleaf ho hd) (get_detachSingleton h f x) hxf ?_
    rw [Heap.ownerOf, get_detachSingleton]
    have knf : nx.kind ≠ .font := by intro e; simp [e, Kind.isLeaf] at kleaf
    simp [hc, ex, owner_cleared nx knf]
  · rw [regs_mark] at hr
    rw [regs_unlist]
    rw [regs_detachSingleton_congr (ptrs_unlist h f x) (regs_unlist h f x)] at hr
    exact hr


/-! ### A glyph lets go of everything it owns -/

/-- one turn of the loop in `Glyph.endSelfNotificationObservation` -/
def stepG (g : Id) (h : Heap) (k : Id) : Heap :=
  match h.kindOf k with
  | some .image | some .lib => detachSingleton h g k
  | some _ => detachChild h g k
  | none => h

theorem regs_endSelf_sub {h : Heap} {x : Id} {r : Reg} (hr : r ∈ (endSelf h x).regs) : r ∈ h.regs := by
  simp only [endSelf, regs_clear] at hr; exact (mem_unobserve hr).1

theorem regs_detachChild_sub {h : Heap} {g x : Id} {r : Reg} (hr : r ∈ (detachChild h g x).regs) : r ∈ h.regs := by
  unfold detachChild at hr
  split at hr
  · exact hr
  · exact (mem_unobserve (regs_endSelf_sub hr)).1

theorem regs_detachSingleton_sub {h : Heap} {p x : Id} {r : Reg} (hr : r ∈ (detachSingleton h p x).regs) : r ∈ h.regs := by
  unfold detachSingleton at hr
  split at hr
  · exact hr
  · exact (mem_unobserve (regs_endSelf_sub hr)).1

/-- what is owned by a glyph that has a centre has that centre -/
theorem disp_of_owned_by_glyph {ds} {h : Heap} (s : Struct ds h) {k g : Id} (ho : h.ownerOf k = some g)
    (kg : h.kindOf g = some .glyph) : dispOf h k = dispOf h g := by
  rw [disp_exact s, disp_exact s]
  obtain ⟨n, np, e, _, ep, _, ha⟩ := ownerOf_node s ho
  have kp : np.kind = .glyph := by rw [kindOf_eq ep] at kg; simpa using kg
  have kleaf : n.kind.isLeaf = true := by rw [kp] at ha; simpa [allowed] using ha
  have k1 : h.kindOf k ≠ some .font := by rw [kindOf_eq e]; intro hk; cases hkk : n.kind <;> simp_all [Kind.isLeaf]
  have k2 : h.kindOf g ≠ some .font := by rw [kg]; simp
  simp only [centreOf, k1, k2, if_false]
  exact ancOf_ne s ho k2

theorem stepG_facts {ds} {h : Heap} {g k : Id} (w : WiredX (g :: ds) h) (ho : h.ownerOf k = some g)
    (kg : h.kindOf g = some .glyph) (hc : dispOf h g ≠ none) :
    WiredX (g :: ds) (stepG g h k) ∧
    (∀ i, (stepG g h k).get i = if k = i then (h.get k).map Node.cleared else h.get i) ∧
    (∀ r ∈ (stepG g h k).regs, r ∈ h.regs) := by
  obtain ⟨n, np, e, _, ep, _, ha⟩ := ownerOf_node w.toStruct ho
  have kp : np.kind = .glyph := by rw [kindOf_eq ep] at kg; simpa using kg
  have kleaf : n.kind.isLeaf = true := by rw [kp] at ha; simpa [allowed] using ha
  have hg := glyphOf_of_owner w.toStruct ho kg
  have hd : dispOf h k ≠ none := by rw [disp_of_owned_by_glyph w.toStruct ho kg]; exact hc
  unfold stepG
  rw [kindOf_eq e]
  cases hk : n.kind <;> simp [hk, Kind.isLeaf] at kleaf ⊢
  all_goals first
    | exact ⟨wired_detachChild w (by simp), fun i => by rw [get_detachChild]; simp [hg],
        fun r hr => regs_detachChild_sub hr⟩
    | exact ⟨wired_detachSingleton w e (by simp [hk, Kind.isLeaf]) ho (by simp),
        fun i => by rw [get_detachSingleton]; simp [hd], fun r hr => regs_detachSingleton_sub hr⟩

theorem fold_stepG {ds} {g : Id} (ks : List Id) (hnd : ks.Nodup) :
    ∀ h, WiredX (g :: ds) h → h.kindOf g = some .glyph → dispOf h g ≠ none → g ∉ ks →
      (∀ k ∈ ks, h.ownerOf k = some g) →
      WiredX (g :: ds) (ks.foldl (stepG g) h) ∧
      (∀ i, (ks.foldl (stepG g) h).get i = if i ∈ ks then (h.get i).map Node.cleared else h.get i) ∧
      (∀ r ∈ (ks.foldl (stepG g) h).regs, r ∈ h.regs) := by
  induction ks with
  | nil => intro h w _ _ _ _; exact ⟨w, fun i => by simp, fun r hr => hr⟩
  | cons k ks ih =>
    intro h w kg hc hgk hown
    obtain ⟨w1, g1, r1⟩ := stepG_facts w (hown k (by simp)) kg hc
    have hkk : k ∉ ks := (List.nodup_cons.mp hnd).1
    have gk : g ≠ k := fun e => hgk (by simp [e])
    have kg1 : (stepG g h k).kindOf g = some .glyph := by
      simp only [Heap.kindOf, g1, Ne.symm gk, if_false]; exact kg
    obtain ⟨n, np, e, _, ep, _, ha⟩ := ownerOf_node w.toStruct (hown k (by simp))
    have kp : np.kind = .glyph := by rw [kindOf_eq ep] at kg; simpa using kg
    have kleaf : n.kind.isLeaf = true := by rw [kp] at ha; simpa [allowed] using ha
    have hc1 : dispOf (stepG g h k) g ≠ none := by
      rw [disp_exact w1.toStruct]
      rw [disp_exact w.toStruct] at hc
      have k2 : h.kindOf g ≠ some .font := by rw [kg]; simp
      have k2' : (stepG g h k).kindOf g ≠ some .font := by rw [kg1]; simp
      simp only [centreOf, k2, k2', if_false] at hc ⊢
      rw [show ancOf (stepG g h k) .font g = ancOf h .font g from
        anc_frame (fun i hi => by rw [g1]; simp [Ne.symm hi]) (leaf_owns_nothing w.toStruct e kleaf) .font 4 g gk]
      exact hc
    have hown1 : ∀ k' ∈ ks, (stepG g h k).ownerOf k' = some g := fun k' hk' => by
      have : k ≠ k' := fun e => hkk (e ▸ hk')
      simp only [Heap.ownerOf, g1, this, if_false]
      exact hown k' (by simp [hk'])
    obtain ⟨w2, g2, r2⟩ := ih (List.nodup_cons.mp hnd).2 (stepG g h k) w1 kg1 hc1 (fun hm => hgk (by simp [hm])) hown1
    rw [List.foldl_cons]
    refine ⟨w2, fun i => ?_, fun r hr => r1 r (r2 r hr)⟩
    rw [g2, g1]
    by_cases e1 : k = i
    · subst e1; simp [hkk]
    · by_cases e2 : i ∈ ks
      · simp [e1, e2]
      · simp [e1, e2, Ne.symm e1]


theorem endGlyph_eq (h : Heap) (l g : Id) :
    endGlyph h l g = match dispOf h g with
      | none => h
      | some _ => endSelf (((unobserve h g l (namesFor h l g)).kidsOf g).foldl (stepG g) (unobserve h g l (namesFor h l g))) g := by
  unfold endGlyph stepG
  rfl

theorem wired_endGlyph {ds} {h : Heap} (w : WiredX ds h) {l g : Id} {ng : Node} (eg : h.get g = some ng)
    (kg : ng.kind = .glyph) (ho : h.ownerOf g = some l) (hl : l ∈ ds) (hgd : g ∉ ds) :
    WiredX ds (endGlyph h l g) ∧
    (∀ i, (endGlyph h l g).get i =
      if dispOf h g ≠ none ∧ (i = g ∨ h.ownerOf i = some g) then (h.get i).map Node.cleared else h.get i) ∧
    (∀ r ∈ (endGlyph h l g).regs, r ∈ h.regs) := by
  rw [endGlyph_eq]
  cases hc : dispOf h g with
  | none => exact ⟨w, fun i => by simp, fun r hr => hr⟩
  | some c =>
    simp only
    have kgg : h.kindOf g = some .glyph := by rw [kindOf_eq eg, kg]
    let h1 := unobserve h g l (namesFor h l g)
    have gh1 : ∀ i, h1.get i = h.get i := fun i => by simp [h1]
    have w1 : WiredX (g :: ds) h1 :=
      wired_mono (wired_regs w gh1 (fun r hr => Or.inl (mem_unobserve hr).1)) (fun d hd => List.mem_cons_of_mem _ hd)
    have kids1 : h1.kidsOf g = ng.kids := by simp [Heap.kidsOf, gh1, eg]
    have galive : h.alive g := ⟨ng, eg, Or.inr (by rw [← ownerOf_eq eg, ho]; simp)⟩
    have hown : ∀ k ∈ ng.kids, h1.ownerOf k = some g := fun k hk => by
      simp only [Heap.ownerOf, gh1]
      exact w.down g k galive hgd (by rw [kidsOf_eq eg]; exact hk)
    have gnk : g ∉ ng.kids := fun hm => by
      obtain ⟨ny, eny, hay⟩ := w.kKids g ng g eg hm
      rw [eg] at eny; cases eny
      simp [kg, allowed, Kind.isLeaf] at hay
    have hc1 : dispOf h1 g ≠ none := by rw [dispOf_congr gh1, hc]; simp
    obtain ⟨w2, g2, r2⟩ := fold_stepG ng.kids (w.kidsNodup g ng eg) h1 w1
      (by rw [kindOf_congr gh1]; exact kgg) hc1 gnk hown
    rw [kids1]
    let h2 := ng.kids.foldl (stepG g) h1
    have e2g : h2.get g = some ng := by
      show (ng.kids.foldl (stepG g) h1).get g = _
      rw [g2]; simp [gnk, gh1, eg]
    have knf : ng.kind ≠ .font := by rw [kg]; simp
    -- nothing is owned by g any more
    have hz : ∀ i, h2.ownerOf i ≠ some g := by
      intro i hi
      obtain ⟨ni, ei, eo⟩ := ownerOf_some hi
      have hm := w2.up i ni g ei eo
      rw [kidsOf_eq e2g] at hm
      have : h2.get i = (h1.get i).map Node.cleared := by
        show (ng.kids.foldl (stepG g) h1).get i = _
        rw [g2]; simp [hm]
      rw [this, gh1] at ei
      cases e0 : h.get i with
      | none => simp [e0] at ei
      | some n0 =>
        simp [e0] at ei
        have kn0 : n0.kind ≠ .font := by
          obtain ⟨ny, eny, hay⟩ := w.kKids g ng i eg hm
          rw [e0] at eny; cases eny
          intro e; simp [kg, e, allowed, Kind.isLeaf] at hay
        rw [← ei, owner_cleared n0 kn0] at eo; cases eo
    have hself : ∀ r ∈ h2.regs, r.observable = g → r.name = .all ∧ r.observer = g := by
      intro r hr hx
      have hr1 := r2 r hr
      obtain ⟨hr0, hnot⟩ := mem_unobserve hr1
      have kl : h.kindOf g ≠ some .layer := by rw [kgg]; simp
      obtain ⟨c', rest⟩ := regs_on_owned w hr0 hx kl ho
      rcases rest with rest | ⟨q1, q2⟩
      · exact rest
      · exact absurd ⟨rfl, q1, hx, q2⟩ (hnot r.centre c')
    have hlist : ∀ p, g ∈ h2.kidsOf p → h2.alive p → p ∈ g :: ds := by
      intro p hp hal
      by_cases hpd : p ∈ g :: ds
      · exact hpd
      · have := w2.down p g hal hpd hp
        have hog : h2.ownerOf g = some l := by rw [ownerOf_eq e2g, ← ownerOf_eq eg]; exact ho
        rw [hog] at this; cases this
        exact List.mem_cons_of_mem _ hl
    have w3 : WiredX (g :: ds) (endSelf h2 g) :=
      wired_endSelf w2 e2g knf hz hlist (fun i => rfl) (fun r hr => hr) hself
    have g3 : ∀ i, (endSelf h2 g).get i = if i = g ∨ h.ownerOf i = some g then (h.get i).map Node.cleared else h.get i := by
      intro i
      rw [get_endSelf]
      by_cases e1 : g = i
      · subst e1; simp [e2g, eg]
      · have : h2.get i = if i ∈ ng.kids then (h1.get i).map Node.cleared else h1.get i := g2 i
        rw [this, gh1]
        have hiff : i ∈ ng.kids ↔ h.ownerOf i = some g := by
          constructor
          · intro hm; exact w.down g i galive hgd (by rw [kidsOf_eq eg]; exact hm)
          · intro hoi
            obtain ⟨ni, ei, eo⟩ := ownerOf_some hoi
            have := w.up i ni g ei eo
            rw [kidsOf_eq eg] at this; exact this
        by_cases e2 : i ∈ ng.kids
        · simp [e1, Ne.symm e1, e2, hiff.mp e2]
        · have : ¬ h.ownerOf i = some g := fun hh => e2 (hiff.mpr hh)
          simp [e1, Ne.symm e1, e2, this]
    refine ⟨?_, fun i => ?_, fun r hr => ?_⟩
    · refine wired_undying w3 (fun hal => ?_)
      exfalso
      obtain ⟨n3, e3, hal3⟩ := hal
      rw [g3] at e3
      simp [eg] at e3
      subst e3
      rcases hal3 with hal3 | hal3
      · simp [Node.cleared, kg] at hal3
      · exact hal3 (owner_cleared ng knf)
    · rw [g3]; simp
    · exact (mem_unobserve (r2 r (regs_endSelf_sub hr))).1


/-- a container `p` lets go of `x` (and of what `x` owns) and unlists it -/
theorem wired_release_unlist' {ds} {h hR : Heap} (w : WiredX ds h) {p x : Id}
    (hstep : ∀ ds', p ∈ ds' → x ∉ ds' → WiredX ds' h → WiredX ds' hR)
    (hxd : x ∉ ds) (hxp : x ≠ p)
    (gp : hR.get p = h.get p)
    (hkeep : ∀ y, y ≠ x → h.ownerOf y = some p → hR.ownerOf y = some p)
    (hown : hR.ownerOf x ≠ some p) : WiredX ds (hR.unlist p x) := by
  by_cases hpd : p ∈ ds
  · exact wired_unlist (hstep ds hpd hxd w) hown
  · have w1 : WiredX (p :: ds) hR := hstep (p :: ds) (by simp) (by simp [hxp, hxd])
      (wired_mono w (fun d hd => List.mem_cons_of_mem _ hd))
    have w2 : WiredX (p :: ds) (hR.unlist p x) := wired_unlist w1 hown
    refine wired_undying w2 (fun hal y hy => ?_)
    cases ep : h.get p with
    | none =>
      exfalso
      rw [Heap.kidsOf, get_unlist] at hy
      simp [gp, ep] at hy
    | some np =>
      have hy' : y ∈ np.kids ∧ y ≠ x := by
        rw [Heap.kidsOf, get_unlist] at hy
        simp [gp, ep] at hy
        exact hy
      have hal0 : h.alive p := by
        obtain ⟨n3, e3, hal3⟩ := hal
        rw [get_unlist] at e3
        simp [gp, ep] at e3
        exact ⟨np, ep, by subst e3; simpa [owner] using hal3⟩
      have hyp : y ≠ p := fun e => by
        subst e
        obtain ⟨ny, eny, hay⟩ := w.kKids y np y ep hy'.1
        rw [ep] at eny; cases eny
        cases hk : np.kind <;> simp [hk, allowed, Kind.isLeaf] at hay
      have := w.down p y hal0 hpd (by rw [kidsOf_eq ep]; exact hy'.1)
      have h2 := hkeep y hy'.2 this
      simp only [Heap.ownerOf, get_unlist, Ne.symm hyp, if_false]
      exact h2

theorem layer_owner_not_glyph {ds} {h : Heap} (s : Struct ds h) {l g : Id} (kl : h.kindOf l = some .layer)
    (kg : h.kindOf g = some .glyph) : h.ownerOf l ≠ some g := by
  intro ho
  obtain ⟨n, e, eo⟩ := ownerOf_some ho
  obtain ⟨np, ep, _, hk, _⟩ := owner_kind s e eo
  have : n.kind = .layer := by rw [kindOf_eq e] at kl; simpa using kl
  have := hk this
  rw [kindOf_eq ep, this] at kg; cases kg

theorem wired_killGlyph {ds} {h : Heap} (w : WiredX ds h) {l g : Id} {ng : Node} (eg : h.get g = some ng)
    (kg : ng.kind = .glyph) (ho : h.ownerOf g = some l) (hgd : g ∉ ds) (hc : dispOf h g ≠ none) :
    WiredX ds (killGlyph h l g) := by
  unfold killGlyph
  have kgg : h.kindOf g = some .glyph := by rw [kindOf_eq eg, kg]
  obtain ⟨n', nl, _, eo', el, _, hal⟩ := ownerOf_node w.toStruct ho
  have kl : h.kindOf l = some .layer := by
    rw [kindOf_eq el]
    have : n' = ng := by rw [eg] at *; simp_all
    subst this
    cases hk : nl.kind <;> simp [hk, kg, allowed, Kind.isLeaf] at hal ⊢
  have hgl : g ≠ l := fun e => by rw [e, kl] at kgg; cases kgg
  have holg := layer_owner_not_glyph w.toStruct kl kgg
  have knf : ng.kind ≠ .font := by rw [kg]; simp
  refine wired_release_unlist' w
    (fun ds' hl hg' w' => (wired_endGlyph w' eg kg ho hl hg').1) hgd hgl ?_ ?_ ?_
  · rw [(wired_endGlyph (wired_mono w (fun d hd => List.mem_cons_of_mem l hd)) eg kg ho (by simp)
      (by simp [hgl, hgd])).2.1]
    simp [Ne.symm hgl, holg]
  · intro y hy hoy
    have hyg : h.ownerOf y ≠ some g := by rw [hoy]; intro e; cases e; exact hgl rfl
    rw [Heap.ownerOf, (wired_endGlyph (wired_mono w (fun d hd => List.mem_cons_of_mem l hd)) eg kg ho (by simp)
      (by simp [hgl, hgd])).2.1]
    simp [hy, hyg]
    exact hoy
  · rw [Heap.ownerOf, (wired_endGlyph (wired_mono w (fun d hd => List.mem_cons_of_mem l hd)) eg kg ho (by simp)
      (by simp [hgl, hgd])).2.1]
    simp [hc, eg, owner_cleared ng knf]


/-! ### A layer lets go of everything it owns -/

/-- one turn of the loops in `Layer.endSelfNotificationObservation` -/
def stepL (l : Id) (h : Heap) (k : Id) : Heap :=
  match h.kindOf k with
  | some .glyph => endGlyph h l k
  | some .lib => detachSingleton h l k
  | _ => h

/-- the layer `l` of layer set `s` of font `f`, as the loop needs it -/
structure LayerCtx (h : Heap) (l s f : Id) : Prop where
  kl : h.kindOf l = some .layer
  ol : h.ownerOf l = some s
  ks : h.kindOf s = some .layerSet
  os : h.ownerOf s = some f
  kf : h.kindOf f = some .font

theorem LayerCtx.centre {ds} {h : Heap} {l s f : Id} (c : LayerCtx h l s f) (st : Struct ds h) :
    ancOf h .font l = some f := by
  rw [ancOf_ne st c.ol (by rw [c.ks]; simp)]
  exact ancOf_eq st c.os c.kf

theorem LayerCtx.transfer {h h' : Heap} {l s f : Id} (c : LayerCtx h l s f)
    (gl : h'.get l = h.get l) (gs : h'.get s = h.get s) (gf : h'.get f = h.get f) : LayerCtx h' l s f := by
  obtain ⟨a, b, c1, d, e⟩ := c
  exact ⟨by simpa [Heap.kindOf, gl] using a, by simpa [Heap.ownerOf, gl] using b,
    by simpa [Heap.kindOf, gs] using c1, by simpa [Heap.ownerOf, gs] using d, by simpa [Heap.kindOf, gf] using e⟩

/-- what is owned by a layer that has a centre has that centre -/
theorem disp_of_owned_by_layer {ds} {h : Heap} (st : Struct ds h) {k l s f : Id} (c : LayerCtx h l s f)
    (ho : h.ownerOf k = some l) : dispOf h k = some f := by
  rw [disp_exact st]
  obtain ⟨n, np, e, _, ep, _, ha⟩ := ownerOf_node st ho
  have kp : np.kind = .layer := by have := c.kl; rw [kindOf_eq ep] at this; simpa using this
  have k1 : h.kindOf k ≠ some .font := by
    rw [kindOf_eq e]; intro hk
    have : n.kind = .font := by simpa using hk
    simp [kp, this, allowed] at ha
  simp only [centreOf, k1, if_false]
  rw [ancOf_ne st ho (by rw [c.kl]; simp)]
  exact c.centre st

theorem stepL_facts {ds} {h : Heap} {l s f k : Id} (w : WiredX (l :: ds) h) (c : LayerCtx h l s f)
    (ho : h.ownerOf k = some l) (hkd : k ∉ l :: ds) :
    WiredX (l :: ds) (stepL l h k) ∧
    (∀ i, (stepL l h k).get i = if i = k ∨ h.ownerOf i = some k then (h.get i).map Node.cleared else h.get i) ∧
    (∀ r ∈ (stepL l h k).regs, r ∈ h.regs) := by
  obtain ⟨n, np, e, _, ep, _, ha⟩ := ownerOf_node w.toStruct ho
  have kp : np.kind = .layer := by have := c.kl; rw [kindOf_eq ep] at this; simpa using this
  have hd : dispOf h k ≠ none := by rw [disp_of_owned_by_layer w.toStruct c ho]; simp
  unfold stepL
  rw [kindOf_eq e]
  cases hk : n.kind <;> simp [hk, kp, allowed, Kind.isLeaf] at ha ⊢
  · -- a glyph
    obtain ⟨w1, g1, r1⟩ := wired_endGlyph w e hk ho (by simp) hkd
    exact ⟨w1, fun i => by rw [g1]; simp [hd], r1⟩
  · -- the layer's lib
    have kleaf : n.kind.isLeaf = true := by simp [hk, Kind.isLeaf]
    refine ⟨wired_detachSingleton w e kleaf ho (by simp), fun i => ?_, fun r hr => regs_detachSingleton_sub hr⟩
    rw [get_detachSingleton]
    have := leaf_owns_nothing w.toStruct e kleaf i
    by_cases e1 : i = k
    · subst e1; simp [hd]
    · simp [e1, Ne.symm e1, this]

theorem fold_stepL {ds} {l s f : Id} (ks : List Id) (hnd : ks.Nodup) :
    ∀ h, WiredX (l :: ds) h → LayerCtx h l s f → l ∉ ks → s ∉ ks → f ∉ ks →
      (∀ k ∈ ks, h.ownerOf k = some l ∧ k ∉ l :: ds) →
      WiredX (l :: ds) (ks.foldl (stepL l) h) ∧
      (∀ k ∈ ks, (ks.foldl (stepL l) h).ownerOf k = none) ∧
      (∀ i, i ∉ ks → (∀ k ∈ ks, h.ownerOf i ≠ some k) → (ks.foldl (stepL l) h).get i = h.get i) ∧
      (∀ r ∈ (ks.foldl (stepL l) h).regs, r ∈ h.regs) := by
  induction ks with
  | nil => intro h w _ _ _ _ _; exact ⟨w, fun k hk => by simp at hk, fun i _ _ => rfl, fun r hr => hr⟩
  | cons k ks ih =>
    intro h w c hl hs hf hown
    obtain ⟨hok, hkd⟩ := hown k (by simp)
    obtain ⟨w1, g1, r1⟩ := stepL_facts w c hok hkd
    have hkk : k ∉ ks := (List.nodup_cons.mp hnd).1
    have lk : l ≠ k := fun e => hl (by simp [e])
    have sk : s ≠ k := fun e => hs (by simp [e])
    have fk : f ≠ k := fun e => hf (by simp [e])
    have notowned : ∀ i, h.kindOf i ≠ some .glyph → h.kindOf i ≠ some .lib → ∀ j, h.ownerOf j ≠ some i → True := fun _ _ _ _ _ => trivial
    -- l, s, f are not touched by the step
    have osk : h.ownerOf s ≠ some k := by rw [c.os]; intro e; cases e; exact fk rfl
    have olk : h.ownerOf l ≠ some k := by rw [c.ol]; intro e; cases e; exact sk rfl
    have ofk : h.ownerOf f ≠ some k := by rw [ownerOf_font c.kf]; simp
    have c1 : LayerCtx (stepL l h k) l s f :=
      c.transfer (by rw [g1]; simp [lk, olk]) (by rw [g1]; simp [sk, osk]) (by rw [g1]; simp [fk, ofk])
    have hown1 : ∀ k' ∈ ks, (stepL l h k).ownerOf k' = some l ∧ k' ∉ l :: ds := fun k' hk' => by
      obtain ⟨a, b⟩ := hown k' (by simp [hk'])
      have ne : k' ≠ k := fun e => hkk (e ▸ hk')
      have : h.ownerOf k' ≠ some k := by rw [a]; intro e; cases e; exact lk rfl
      refine ⟨?_, b⟩
      have e1 : (stepL l h k).get k' = h.get k' := by rw [g1]; simp [ne, this]
      simp only [Heap.ownerOf, e1]
      exact a
    obtain ⟨w2, o2, g2, r2⟩ := ih (List.nodup_cons.mp hnd).2 (stepL l h k) w1 c1
      (fun hm => hl (by simp [hm])) (fun hm => hs (by simp [hm])) (fun hm => hf (by simp [hm])) hown1
    rw [List.foldl_cons]
    refine ⟨w2, fun k' hk' => ?_, fun i hi hno => ?_, fun r hr => r1 r (r2 r hr)⟩
    · rcases List.mem_cons.mp hk' with rfl | hk'
      · -- k itself: cleared by the step, untouched afterwards
        have e0 : (stepL l h k').get k' = (h.get k').map Node.cleared := by rw [g1]; simp
        have : (List.foldl (stepL l) (stepL l h k') ks).get k' = (stepL l h k').get k' := by
          refine g2 k' hkk (fun k2 hk2 => ?_)
          obtain ⟨n, e, _⟩ := ownerOf_some hok
          have kn : n.kind ≠ .font := by
            obtain ⟨_, _, _, _, _, _, knf⟩ := owner_kind w.toStruct e (by rw [← ownerOf_eq e]; exact hok)
            exact knf
          simp [Heap.ownerOf, e0, e, owner_cleared n kn]
        obtain ⟨n, e, _⟩ := ownerOf_some hok
        have kn : n.kind ≠ .font := by
          obtain ⟨_, _, _, _, _, _, knf⟩ := owner_kind w.toStruct e (by rw [← ownerOf_eq e]; exact hok)
          exact knf
        simp [Heap.ownerOf, this, e0, e, owner_cleared n kn]
      · exact o2 k' hk'
    · have hik : i ≠ k := fun e => hi (by simp [e])
      have hoik : h.ownerOf i ≠ some k := hno k (by simp)
      have e1 : (stepL l h k).get i = h.get i := by rw [g1]; simp [hik, hoik]
      rw [g2 i (fun hm => hi (by simp [hm])) (fun k2 hk2 => ?_), e1]
      simp only [Heap.ownerOf, e1]
      exact hno k2 (by simp [hk2])


/-- a container `p` lets go of `x` (and of what `x` owns) and unlists it; the letting go is only needed for
the two dying sets that occur -/
theorem wired_release_unlist2 {ds} {h hR : Heap} (w : WiredX ds h) {p x : Id}
    (hstepA : p ∈ ds → WiredX ds hR)
    (hstepB : p ∉ ds → WiredX (p :: ds) hR)
    (hxp : x ≠ p)
    (gp : hR.get p = h.get p)
    (hkeep : ∀ y, y ≠ x → h.ownerOf y = some p → hR.ownerOf y = some p)
    (hown : hR.ownerOf x ≠ some p) : WiredX ds (hR.unlist p x) := by
  by_cases hpd : p ∈ ds
  · exact wired_unlist (hstepA hpd) hown
  · have w1 : WiredX (p :: ds) hR := hstepB hpd
    have w2 : WiredX (p :: ds) (hR.unlist p x) := wired_unlist w1 hown
    refine wired_undying w2 (fun hal y hy => ?_)
    cases ep : h.get p with
    | none =>
      exfalso
      rw [Heap.kidsOf, get_unlist] at hy
      simp [gp, ep] at hy
    | some np =>
      have hy' : y ∈ np.kids ∧ y ≠ x := by
        rw [Heap.kidsOf, get_unlist] at hy
        simp [gp, ep] at hy
        exact hy
      have hal0 : h.alive p := by
        obtain ⟨n3, e3, hal3⟩ := hal
        rw [get_unlist] at e3
        simp [gp, ep] at e3
        exact ⟨np, ep, by subst e3; simpa [owner] using hal3⟩
      have hyp : y ≠ p := fun e => by
        subst e
        obtain ⟨ny, eny, hay⟩ := w.kKids y np y ep hy'.1
        rw [ep] at eny; cases eny
        cases hk : np.kind <;> simp [hk, allowed, Kind.isLeaf] at hay
      have := w.down p y hal0 hpd (by rw [kidsOf_eq ep]; exact hy'.1)
      have h2 := hkeep y hy'.2 this
      simp only [Heap.ownerOf, get_unlist, Ne.symm hyp, if_false]
      exact h2

theorem killLayer_eq (h : Heap) (s l : Id) :
    killLayer h s l =
      (let h0 := match h.storedFont s with
        | some f => unobserve h l f (namesFor h f l)
        | none => h
      match dispOf h0 l with
      | none => h0.unlist s l
      | some _ =>
        (endSelf (((unobserve h0 l s (namesFor h0 s l)).kidsOf l).foldl (stepL l) (unobserve h0 l s (namesFor h0 s l))) l).unlist s l) := by
  unfold killLayer stepL
  rfl

theorem layer_kid_kind {ds} {h : Heap} (st : Struct ds h) {l k : Id} {nl : Node} (el : h.get l = some nl)
    (kl : nl.kind = .layer) (hk : k ∈ nl.kids) : h.kindOf k = some .glyph ∨ h.kindOf k = some .lib := by
  obtain ⟨nk, ek, ha⟩ := st.kKids l nl k el hk
  rw [kindOf_eq ek]
  cases hkk : nk.kind <;> simp [kl, hkk, allowed] at ha ⊢

theorem wired_killLayer {ds} {h : Heap} (w : WiredX ds h) {l s f : Id} (c : LayerCtx h l s f) (hld : l ∉ ds)
    (hkd : ∀ k ∈ h.kidsOf l, k ∉ ds) : WiredX ds (killLayer h s l) := by
  rw [killLayer_eq]
  obtain ⟨nl, el, knl⟩ := kindOf_some c.kl
  obtain ⟨nS, eS, knS⟩ := kindOf_some c.ks
  have sf : h.storedFont s = some f := by
    have := c.os; rw [ownerOf_eq eS] at this
    simp only [owner, knS] at this
    simp [Heap.storedFont, eS, this]
  simp only [sf]
  let h0 := unobserve h l f (namesFor h f l)
  have g0 : ∀ i, h0.get i = h.get i := fun i => by simp [h0]
  have dl : dispOf h l = some f := by
    rw [disp_exact w.toStruct]; simp [centreOf, c.kl, c.centre w.toStruct]
  have d0 : dispOf h0 l = some f := by rw [dispOf_congr g0]; exact dl
  show WiredX ds (match dispOf h0 l with
      | none => h0.unlist s l
      | some _ => (endSelf (((unobserve h0 l s (namesFor h0 s l)).kidsOf l).foldl (stepL l) (unobserve h0 l s (namesFor h0 s l))) l).unlist s l)
  rw [d0]
  simp only
  let h1 := unobserve h0 l s (namesFor h0 s l)
  have g1 : ∀ i, h1.get i = h.get i := fun i => by simp [h1, g0]
  have kids1 : h1.kidsOf l = nl.kids := by simp [Heap.kidsOf, g1, el]
  have hls : l ≠ s := fun e => by have := c.kl; rw [e, c.ks] at this; cases this
  have hlf : l ≠ f := fun e => by have := c.kl; rw [e, c.kf] at this; cases this
  have hsf : s ≠ f := fun e => by have := c.ks; rw [e, c.kf] at this; cases this
  have kk : ∀ k, k ∈ nl.kids → h.kindOf k = some .glyph ∨ h.kindOf k = some .lib :=
    fun k hk => layer_kid_kind w.toStruct el knl hk
  have lks : l ∉ nl.kids := fun hm => by rcases kk l hm with e | e <;> (rw [c.kl] at e; cases e)
  have sks : s ∉ nl.kids := fun hm => by rcases kk s hm with e | e <;> (rw [c.ks] at e; cases e)
  have fks : f ∉ nl.kids := fun hm => by rcases kk f hm with e | e <;> (rw [c.kf] at e; cases e)
  have lalive : h.alive l := ⟨nl, el, Or.inr (by rw [← ownerOf_eq el, c.ol]; simp)⟩
  have regs1 : ∀ r ∈ h1.regs, r ∈ h.regs := fun r hr => (mem_unobserve (mem_unobserve hr).1).1
  have knf : nl.kind ≠ .font := by rw [knl]; simp
  -- the part before the unlisting, for any dying set that holds s and not l
  have hstep : ∀ ds', s ∈ ds' → l ∉ ds' → (∀ k ∈ nl.kids, k ∉ ds') → WiredX ds' h →
      WiredX ds' (endSelf (nl.kids.foldl (stepL l) h1) l) ∧
      (∀ i, i ≠ l → i ∉ nl.kids → (∀ k ∈ nl.kids, h.ownerOf i ≠ some k) →
        (endSelf (nl.kids.foldl (stepL l) h1) l).get i = h.get i) ∧
      (endSelf (nl.kids.foldl (stepL l) h1) l).get l = some nl.cleared := by
    intro ds' hs hl hk w'
    have w1 : WiredX (l :: ds') h1 :=
      wired_mono (wired_regs w' g1 (fun r hr => Or.inl (regs1 r hr))) (fun d hd => List.mem_cons_of_mem _ hd)
    have c1 : LayerCtx h1 l s f := c.transfer (g1 l) (g1 s) (g1 f)
    have hown : ∀ k ∈ nl.kids, h1.ownerOf k = some l ∧ k ∉ l :: ds' := fun k hkm => by
      refine ⟨?_, ?_⟩
      · simp only [Heap.ownerOf, g1]
        exact w'.down l k lalive hl (by rw [kidsOf_eq el]; exact hkm)
      · have : k ≠ l := fun e => lks (e ▸ hkm)
        simp [this, hk k hkm]
    obtain ⟨w2, o2, g2, r2⟩ := fold_stepL (s := s) (f := f) nl.kids (w.kidsNodup l nl el) h1 w1 c1 lks sks fks hown
    let h2 := nl.kids.foldl (stepL l) h1
    have ol1 : ∀ k ∈ nl.kids, h1.ownerOf l ≠ some k := fun k hkm => by
      simp only [Heap.ownerOf, g1]
      have := c.ol; simp only [Heap.ownerOf] at this; rw [this]
      intro e; cases e; exact sks hkm
    have e2l : h2.get l = some nl := by
      show (nl.kids.foldl (stepL l) h1).get l = _
      rw [g2 l lks ol1, g1, el]
    have hz : ∀ i, h2.ownerOf i ≠ some l := by
      intro i hi
      obtain ⟨ni, ei, eo⟩ := ownerOf_some hi
      have hm := w2.up i ni l ei eo
      rw [kidsOf_eq e2l] at hm
      have := o2 i hm
      rw [hi] at this; cases this
    have hlist : ∀ p, l ∈ h2.kidsOf p → h2.alive p → p ∈ l :: ds' := by
      intro p hp hal
      by_cases hpd : p ∈ l :: ds'
      · exact hpd
      · have := w2.down p l hal hpd hp
        have hol : h2.ownerOf l = some s := by rw [ownerOf_eq e2l, ← ownerOf_eq el]; exact c.ol
        rw [hol] at this; cases this
        exact List.mem_cons_of_mem _ hs
    have hself : ∀ r ∈ h2.regs, r.observable = l → r.name = .all ∧ r.observer = l := by
      intro r hr hx
      have hr1 : r ∈ h1.regs := r2 r hr
      obtain ⟨hr0, hnot1⟩ := mem_unobserve hr1
      obtain ⟨hrr, hnot0⟩ := mem_unobserve hr0
      have ok := w.regSound r hrr
      have cc := regOK_centre w.toStruct ok
      rw [hx] at cc
      rcases ok.2 with ⟨q1, q2⟩ | ⟨q1, q2⟩
      · exact ⟨q1, by rw [q2, hx]⟩
      · exfalso
        rw [hx] at q1 q2
        rcases q2 with q2 | ⟨_, q2⟩
        · rw [c.ol] at q2; cases q2
          refine hnot1 r.centre (by rw [dispOf_congr g0]; exact cc) ⟨rfl, rfl, hx, ?_⟩
          rw [namesFor_congr g0]; exact q1
        · rw [c.centre w.toStruct] at q2; cases q2
          exact hnot0 r.centre cc ⟨rfl, rfl, hx, q1⟩
    have w3 : WiredX (l :: ds') (endSelf h2 l) :=
      wired_endSelf w2 e2l knf hz hlist (fun i => rfl) (fun r hr => hr) hself
    have gl3 : (endSelf h2 l).get l = some nl.cleared := by rw [get_endSelf]; simp [e2l]
    refine ⟨?_, fun i hil hik hno => ?_, gl3⟩
    · refine wired_undying w3 (fun hal => ?_)
      exfalso
      obtain ⟨n3, e3, hal3⟩ := hal
      rw [gl3] at e3; cases e3
      rcases hal3 with hal3 | hal3
      · simp [Node.cleared, knl] at hal3
      · exact hal3 (owner_cleared nl knf)
    · rw [get_endSelf]
      simp only [Ne.symm hil, if_false]
      show (nl.kids.foldl (stepL l) h1).get i = _
      rw [g2 i hik (fun k hkm => by simp only [Heap.ownerOf, g1]; exact hno k hkm), g1]
  rw [kids1]
  have hkd' : ∀ k ∈ nl.kids, k ∉ ds := fun k hk => hkd k (by rw [kidsOf_eq el]; exact hk)
  have base := hstep (s :: ds) (by simp) (by simp [hls, hld])
    (fun k hk => by
      have : k ≠ s := fun e => sks (e ▸ hk)
      simp [this, hkd' k hk])
    (wired_mono w (fun d hd => List.mem_cons_of_mem _ hd))
  refine wired_release_unlist2 w (fun hs => (hstep ds hs hld hkd' w).1) (fun _ => base.1) hls ?_ ?_ ?_
  · rw [base.2.1 s (Ne.symm hls) sks (fun k hk => by rw [c.os]; intro e; cases e; exact fks hk)]
  · intro y hy hoy
    have hyk : y ∉ nl.kids := fun hm => by
      have := w.down l y lalive hld (by rw [kidsOf_eq el]; exact hm)
      rw [hoy] at this; cases this; exact hls rfl
    have := base.2.1 y hy hyk (fun k hk => by rw [hoy]; intro e; cases e; exact sks hk)
    show ((endSelf (nl.kids.foldl (stepL l) h1) l).get y).bind owner = some s
    rw [this]; exact hoy
  · show ¬ ((endSelf (nl.kids.foldl (stepL l) h1) l).get l).bind owner = some s
    rw [base.2.2]; simp [owner_cleared nl knf]


/-! ### Filling caches -/

/-- every accessor of a leaf answers the true container of its kind -/
theorem leaf_exact {ds} {h : Heap} (s : Struct ds h) {x : Id} {n : Node} (e : h.get x = some n) (kleaf : n.kind.isLeaf = true) :
    glyphOf h x = ancOf h .glyph x ∧ layerOf h x = ancOf h .layer x ∧ layerSetOf h x = ancOf h .layerSet x ∧
    fontOf h x = ancOf h .font x ∧ dispOf h x = ancOf h .font x := by
  have knf : n.kind ≠ .font := by intro hk; simp [hk, Kind.isLeaf] at kleaf
  cases eg : n.pGlyph with
  | some g =>
    obtain ⟨ng, _, _, _, A1, A2, A3, A4, L, LS, F, D⟩ := exact_leaf_glyph s e kleaf eg
    exact ⟨by rw [glyphOf_leaf e kleaf, eg, A1], by rw [L, A2], by rw [LS, A3], by rw [F, A4], by rw [D, A4]⟩
  | none =>
    cases el : n.pLayer with
    | some l =>
      obtain ⟨nl, _, _, _, A1, A2, A3, A4, L, LS, F, D⟩ := exact_leaf_layer s e kleaf eg el
      exact ⟨by rw [glyphOf_leaf e kleaf, eg, A1], by rw [L, A2], by rw [LS, A3], by rw [F, A4], by rw [D, A4]⟩
    | none =>
      cases ef : n.pFont with
      | some f =>
        obtain ⟨_, _, A1, A2, A3, A4, L, LS, F, D⟩ := exact_leaf_font s e kleaf eg el ef
        exact ⟨by rw [glyphOf_leaf e kleaf, eg, A1], by rw [L, A2], by rw [LS, A3], by rw [F, A4], by rw [D, A4]⟩
      | none =>
        have eo : owner n = none := by cases hk : n.kind <;> simp [owner, hk, eg, el, ef, Kind.isLeaf] at kleaf ⊢
        obtain ⟨A, G, L, LS, F, D, _⟩ := exact_loose s e knf eo
        exact ⟨by rw [G, A], by rw [L, A], by rw [LS, A], by rw [F, A], by rw [D, A]⟩

/-- replacing the caches of a node: same kind, children and owner -/
theorem wired_recache {ds} {h h' : Heap} (w : WiredX ds h) {z : Id} {n n' : Node}
    (ez : h.get z = some n) (hg : ∀ i, h'.get i = if z = i then some n' else h.get i)
    (hregs : h'.regs = h.regs)
    (hkind : n'.kind = n.kind) (hkids : n'.kids = n.kids) (hown : owner n' = owner n)
    (shape : (n'.kind.isLeaf = false → n'.pGlyph = none) ∧
      (n'.kind = .font → n'.pLayer = none ∧ n'.pLayerSet = none ∧ n'.pFont = none ∧ n'.disp = none) ∧
      (n'.kind = .layerSet → n'.pLayer = none ∧ n'.pLayerSet = none) ∧
      (n'.kind = .layer → n'.pLayer = none ∧ n'.pFont = none))
    (loose : owner n' = none →
      n'.pGlyph = none ∧ n'.pLayer = none ∧ n'.pLayerSet = none ∧ n'.pFont = none ∧ n'.disp = none)
    (refs : ∀ a,
      (n'.pGlyph = some a → ancOf h .glyph z = some a) ∧ (n'.pLayer = some a → ancOf h .layer z = some a) ∧
      (n'.pLayerSet = some a → ancOf h .layerSet z = some a) ∧ (n'.pFont = some a → ancOf h .font z = some a) ∧
      (n'.disp = some a → ancOf h .font z = some a))
    (full : (n'.kind = .glyph → n'.pLayer ≠ none → n'.pLayerSet ≠ none ∧ n'.pFont ≠ none) ∧
      (n'.kind = .layer → n'.pLayerSet ≠ none → ancOf h .font z ≠ none)) : WiredX ds h' := by
  have hne : ∀ i, i ≠ z → h'.get i = h.get i := fun i hi => by rw [hg]; simp [Ne.symm hi]
  have hzz : h'.get z = some n' := by rw [hg]; simp
  have hk : ∀ i, h'.kindOf i = h.kindOf i := fun i => by
    by_cases e : i = z
    · subst e; simp [Heap.kindOf, hzz, ez, hkind]
    · simp [Heap.kindOf, hne i e]
  have ho : ∀ i, h'.ownerOf i = h.ownerOf i := fun i => by
    by_cases e : i = z
    · subst e; simp [Heap.ownerOf, hzz, ez, hown]
    · simp [Heap.ownerOf, hne i e]
  have hkidsOf : ∀ i, h'.kidsOf i = h.kidsOf i := fun i => by
    by_cases e : i = z
    · subst e; simp [Heap.kidsOf, hzz, ez, hkids]
    · simp [Heap.kidsOf, hne i e]
  have hanc : ∀ k i, ancOf h' k i = ancOf h k i := fun k i => anc_congr ho hk k 4 i
  have halive : ∀ p, h'.alive p ↔ h.alive p := fun p => by
    by_cases e : p = z
    · subst e; simp [Heap.alive, hzz, ez, hkind, hown]
    · simp [Heap.alive, hne p e]
  refine ⟨⟨?_, ?_, ?_, ?_, ?_, ?_, ?_, ?_⟩, ?_⟩
  · intro q nq y e hy
    have : y ∈ h.kidsOf q := by rw [← hkidsOf, kidsOf_eq e]; exact hy
    obtain ⟨nq0, eq0, hm⟩ := mem_kidsOf this
    obtain ⟨ny, ey, hay⟩ := w.kKids q nq0 y eq0 hm
    have k1 : nq.kind = nq0.kind := by
      have := hk q; rw [kindOf_eq e, kindOf_eq eq0] at this; simpa using this
    have := hk y
    rw [kindOf_eq ey] at this
    obtain ⟨ny', ey', eky⟩ := kindOf_some this
    exact ⟨ny', ey', by rw [k1, eky]; exact hay⟩
  · intro q nq e
    by_cases eq : q = z
    · subst eq; rw [hzz] at e; cases e; rw [hkids]; exact w.kidsNodup q n ez
    · rw [hne q eq] at e; exact w.kidsNodup q nq e
  · intro y ny e
    by_cases eq : y = z
    · subst eq; rw [hzz] at e; cases e; exact shape
    · rw [hne y eq] at e; exact w.shape y ny e
  · intro y ny q e eo
    rw [hkidsOf]
    have : h.ownerOf y = some q := by rw [← ho, ownerOf_eq e]; exact eo
    obtain ⟨n0, e0, eo0⟩ := ownerOf_some this
    exact w.up y n0 q e0 eo0
  · intro q y hq hqd hy
    rw [hkidsOf] at hy; rw [ho]
    exact w.down q y ((halive q).mp hq) hqd hy
  · intro y ny e eo
    by_cases eq : y = z
    · subst eq; rw [hzz] at e; cases e; exact loose eo
    · rw [hne y eq] at e; exact w.loose y ny e eo
  · intro y ny a e
    simp only [hanc]
    by_cases eq : y = z
    · subst eq; rw [hzz] at e; cases e; exact refs a
    · rw [hne y eq] at e; exact w.refs y ny a e
  · intro y ny e
    simp only [hanc]
    by_cases eq : y = z
    · subst eq; rw [hzz] at e; cases e; exact full
    · rw [hne y eq] at e; exact w.full y ny e
  · intro r hr
    rw [hregs] at hr
    exact regOK_transfer (fun i k e => by rw [hk]; exact e) (ho _) (hanc _ _) (w.regSound r hr)

/-- only a lib stores a layer without storing a glyph -/
theorem layer_ref_is_lib {ds} {h : Heap} (s : Struct ds h) {x l : Id} {n : Node} (e : h.get x = some n)
    (k : n.kind.isLeaf = true) (eg : n.pGlyph = none) (el : n.pLayer = some l) : n.kind = .lib := by
  by_cases hl : n.kind = .lib
  · exact hl
  exfalso
  by_cases hg : n.kind = .guideline
  · cases ef : n.pFont with
    | none => have := s.loose x n e (by simp [owner, hg, eg, ef]); simp [el] at this
    | some f =>
      have h1 := (s.refs x n f e).2.2.2.1 ef
      have ho : h.ownerOf x = some f := by rw [ownerOf_eq e]; simp [owner, hg, eg, ef]
      have kf := ancOf_kind h1
      have h2 := (s.refs x n l e).2.1 el
      rw [ancOf_ne s ho (by rw [kf]; simp), ancOf_none s (ownerOf_font kf)] at h2
      simp at h2
  · have : owner n = none := by cases hk : n.kind <;> simp [owner, hk, eg, Kind.isLeaf] at k hl hg ⊢
    have := s.loose x n e this
    simp [el] at this

theorem fill_owner {ds} {h : Heap} (w : WiredX ds h) {x : Id} {n : Node} (ex : h.get x = some n)
    (hl : n.kind.isLeaf = true) :
    owner { n with pLayer := layerOf h x, pLayerSet := layerSetOf h x, pFont := fontOf h x, disp := dispOf h x } = owner n := by
  have kf : n.kind ≠ .font := by intro hk; simp [hk, Kind.isLeaf] at hl
  cases eg : n.pGlyph with
  | some g =>
    rw [owner_leaf_glyph hl eg]
    exact owner_leaf_glyph (n := { n with pGlyph := some g, pLayer := layerOf h x, pLayerSet := layerSetOf h x, pFont := fontOf h x, disp := dispOf h x }) hl rfl
  | none =>
    have L0 : layerOf h x = n.pLayer := by rw [layerOf_leaf ex hl, eg]; simp
    cases el : n.pLayer with
    | some l =>
      have hk := layer_ref_is_lib w.toStruct ex hl eg el
      simp [owner, hk, eg, el, L0]
    | none =>
      have F0 : fontOf h x = n.pFont := by
        cases ef : n.pFont with
        | some f =>
          obtain ⟨_, _, _, _, _, _, _, _, F1, _⟩ := exact_leaf_font w.toStruct ex hl eg el ef
          exact F1
        | none =>
          have eo : owner n = none := by cases hk : n.kind <;> simp [owner, hk, eg, el, ef, Kind.isLeaf] at hl ⊢
          obtain ⟨_, _, _, _, F1, _⟩ := exact_loose w.toStruct ex kf eo
          exact F1
      cases hk : n.kind <;> simp [owner, hk, eg, el, L0, F0, Kind.isLeaf] at hl ⊢

theorem wired_fill {ds} {h : Heap} (w : WiredX ds h) (x : Id) : WiredX ds (fill h x) := by
  unfold fill
  cases ex : h.get x with
  | none =>
    refine wired_regs w (fun i => ?_) (fun r hr => Or.inl (by simpa using hr))
    rw [get_upd]; by_cases e : x = i
    · subst e; simp [ex]
    · simp [e]
  | some n =>
    by_cases kf : n.kind = .font
    · refine wired_regs w (fun i => ?_) (fun r hr => Or.inl (by simpa using hr))
      rw [get_upd]; by_cases e : x = i
      · subst e; simp [ex, kf]
      · simp [e]
    · obtain ⟨F, D⟩ := font_exact w.toStruct ex kf
      cases hl : n.kind.isLeaf with
      | false =>
        -- a container: only the cached dispatcher
        refine wired_recache (n' := { n with disp := dispOf h x }) w ex (fun i => ?_) (by simp) rfl rfl ?_ ?_ ?_ ?_ ?_
        · rw [get_upd]; by_cases e : x = i
          · subst e; simp [ex, kf, hl]
          · simp [e]
        · cases hk : n.kind <;> simp [owner, hk]
        · have := w.shape x n ex
          exact ⟨this.1, fun hk => absurd hk kf, this.2.2.1, this.2.2.2⟩
        · intro eo
          have eo' : owner n = none := by cases hk : n.kind <;> simp [owner, hk] at eo ⊢ <;> exact eo
          obtain ⟨a, b, c, d, _⟩ := w.loose x n ex eo'
          have ho : h.ownerOf x = none := by rw [ownerOf_eq ex]; exact eo'
          refine ⟨a, b, c, d, ?_⟩
          simp only; rw [D, ancOf_none w.toStruct ho]
        · intro a
          obtain ⟨r1, r2, r3, r4, _⟩ := w.refs x n a ex
          exact ⟨r1, r2, r3, r4, fun hd => by simp only at hd; rw [← D]; exact hd⟩
        · exact (w.full x n ex)
      | true =>
        obtain ⟨G, L, LS, F', D'⟩ := leaf_exact w.toStruct ex hl
        have hown := fill_owner w ex hl
        refine wired_recache (n' := { n with pLayer := layerOf h x, pLayerSet := layerSetOf h x, pFont := fontOf h x, disp := dispOf h x })
          w ex (fun i => ?_) (by simp) rfl rfl hown ?_ ?_ ?_ ?_
        · rw [get_upd]; by_cases e : x = i
          · subst e; simp [ex, kf, hl]
          · simp [e]
        · refine ⟨fun hh => by simp [hl] at hh, fun hk => absurd hk kf, fun hk => ?_, fun hk => ?_⟩ <;>
            (simp only at hk; rw [hk] at hl; simp [Kind.isLeaf] at hl)
        · intro eo
          rw [hown] at eo
          have ho : h.ownerOf x = none := by rw [ownerOf_eq ex]; exact eo
          obtain ⟨a, _⟩ := w.loose x n ex eo
          refine ⟨a, ?_, ?_, ?_, ?_⟩ <;> simp only
          · rw [L, ancOf_none w.toStruct ho]
          · rw [LS, ancOf_none w.toStruct ho]
          · rw [F', ancOf_none w.toStruct ho]
          · rw [D', ancOf_none w.toStruct ho]
        · intro a
          refine ⟨(w.refs x n a ex).1, fun hh => ?_, fun hh => ?_, fun hh => ?_, fun hh => ?_⟩ <;> simp only at hh
          · rw [← L]; exact hh
          · rw [← LS]; exact hh
          · rw [← F']; exact hh
          · rw [← D']; exact hh
        · refine ⟨fun hk => ?_, fun hk => ?_⟩ <;>
            (simp only at hk; rw [hk] at hl; simp [Kind.isLeaf] at hl)


/-! ### The objects the containers build -/

theorem wired_cacheAll {ds} {h : Heap} (w : WiredX ds h) : WiredX ds (cacheAll h) := by
  unfold cacheAll
  generalize List.range h.next = xs
  induction xs generalizing h with
  | nil => exact w
  | cons x xs ih => rw [List.foldl_cons]; exact ih (wired_fill w x)

theorem spawnOK_leafInGlyph {h : Heap} {g : Id} {k : Kind} (kg : h.kindOf g = some .glyph) (kl : k.isLeaf = true) :
    SpawnOK h g { kind := k, pGlyph := some g } := by
  refine ⟨rfl, owner_leaf_glyph (n := { kind := k, pGlyph := some g }) kl rfl, ?_, ?_, ?_⟩
  · refine ⟨fun hh => by simp [kl] at hh, fun hk => ?_, fun hk => ?_, fun hk => ?_⟩ <;>
      (simp only at hk; rw [hk] at kl; simp [Kind.isLeaf] at kl)
  · intro a; simp [ancVia, kg]
  · refine ⟨fun hk => ?_, fun hk => ?_⟩ <;> (simp only at hk; rw [hk] at kl; simp [Kind.isLeaf] at kl)

theorem spawnOK_libInLayer {h : Heap} {l : Id} (kl : h.kindOf l = some .layer) :
    SpawnOK h l { kind := .lib, pLayer := some l } := by
  refine ⟨rfl, by simp [owner], ?_, ?_, ?_⟩
  · simp [Kind.isLeaf]
  · intro a; simp [ancVia, kl]
  · simp

theorem spawnOK_libInFont {h : Heap} {f : Id} (kf : h.kindOf f = some .font) :
    SpawnOK h f { kind := .lib, pFont := some f } := by
  refine ⟨rfl, by simp [owner], ?_, ?_, ?_⟩
  · simp [Kind.isLeaf]
  · intro a; simp [ancVia, kf]
  · simp

theorem spawnOK_layerInSet {h : Heap} {s : Id} (ks : h.kindOf s = some .layerSet) (hf : ancOf h .font s ≠ none) :
    SpawnOK h s { kind := .layer, pLayerSet := some s } := by
  refine ⟨rfl, by simp [owner], ?_, ?_, ?_⟩
  · simp [Kind.isLeaf]
  · intro a; simp [ancVia, ks]
  · simp [ancVia, ks, hf]

theorem spawnOK_setInFont {h : Heap} {f : Id} (kf : h.kindOf f = some .font) :
    SpawnOK h f { kind := .layerSet, pFont := some f } := by
  refine ⟨rfl, by simp [owner], ?_, ?_, ?_⟩
  · simp [Kind.isLeaf]
  · intro a; simp [ancVia, kf]
  · simp

theorem wired_spawnInGlyph {ds} {h : Heap} (w : WiredX ds h) {g : Id} {k : Kind} (kg : h.kindOf g = some .glyph)
    (kl : k.isLeaf = true) : WiredX ds (spawnInGlyph h g k) := by
  obtain ⟨ng, eg, kng⟩ := kindOf_some kg
  exact wired_spawn w eg (by simp [kng, allowed, kl]) (spawnOK_leafInGlyph kg kl)

/-- kinds of existing objects survive everything we do; a helper to carry them along -/
theorem kindOf_spawn {h : Heap} {p : Id} {n' : Node} {i : Id} {k : Kind} (e : h.kindOf i = some k) :
    (spawn h p n').kindOf i = some k := by
  obtain ⟨n, en, kn⟩ := kindOf_some e
  have hi : i ≠ h.next := fun e2 => by rw [e2, get_next] at en; cases en
  simp only [Heap.kindOf, get_spawn, get_addKid, get_alloc]
  by_cases e1 : p = i
  · subst e1; simp [hi, en, kn]
  · simp [e1, hi, en, kn]

theorem wired_spawnMany {ds} {g : Id} {k : Kind} (kl : k.isLeaf = true) (n : Nat) :
    ∀ {h : Heap}, WiredX ds h → h.kindOf g = some .glyph →
      WiredX ds (spawnMany h g k n) ∧ (∀ i kk, h.kindOf i = some kk → (spawnMany h g k n).kindOf i = some kk) := by
  induction n with
  | zero => intro h w kg; exact ⟨w, fun i kk e => e⟩
  | succ n ih =>
    intro h w kg
    unfold spawnMany
    have w1 := wired_spawnInGlyph w kg kl
    have kg1 : (spawnInGlyph h g k).kindOf g = some .glyph := kindOf_spawn kg
    obtain ⟨w2, k2⟩ := ih w1 kg1
    exact ⟨w2, fun i kk e => k2 i kk (kindOf_spawn e)⟩

theorem wired_spawnChildren {ds} {h : Heap} (w : WiredX ds h) {g : Id} (kg : h.kindOf g = some .glyph) (spec : List Nat) :
    WiredX ds (spawnChildren h g spec) ∧ (∀ i kk, h.kindOf i = some kk → (spawnChildren h g spec).kindOf i = some kk) := by
  unfold spawnChildren
  simp only
  obtain ⟨w1, k1⟩ := wired_spawnMany (k := .contour) (by simp [Kind.isLeaf]) (spec.getD 0 0) w kg
  obtain ⟨w2, k2⟩ := wired_spawnMany (k := .component) (by simp [Kind.isLeaf]) (spec.getD 1 0) w1 (k1 g _ kg)
  obtain ⟨w3, k3⟩ := wired_spawnMany (k := .anchor) (by simp [Kind.isLeaf]) (spec.getD 2 0) w2 (k2 g _ (k1 g _ kg))
  obtain ⟨w4, k4⟩ := wired_spawnMany (k := .guideline) (by simp [Kind.isLeaf]) (spec.getD 3 0) w3
    (k3 g _ (k2 g _ (k1 g _ kg)))
  obtain ⟨w5, k5⟩ := wired_spawnMany (k := .image) (by simp [Kind.isLeaf]) (spec.getD 4 0) w4
    (k4 g _ (k3 g _ (k2 g _ (k1 g _ kg))))
  obtain ⟨w6, k6⟩ := wired_spawnMany (k := .lib) (by simp [Kind.isLeaf]) (spec.getD 5 0) w5
    (k5 g _ (k4 g _ (k3 g _ (k2 g _ (k1 g _ kg)))))
  exact ⟨w6, fun i kk e => k6 i kk (k5 i kk (k4 i kk (k3 i kk (k2 i kk (k1 i kk e)))))⟩


theorem wired_observe_self {ds} {h : Heap} (w : WiredX ds h) (x : Id) : WiredX ds (observe h x x [.all]) := by
  refine wired_regs w (fun i => by simp) (fun r hr => ?_)
  rcases mem_observe hr with h0 | ⟨c, nm, hc, hnm, rfl⟩
  · exact Or.inl h0
  · right
    simp at hnm; subst hnm
    exact ⟨by rw [← disp_exact w.toStruct]; exact hc, Or.inl ⟨rfl, rfl⟩⟩

theorem wired_observe_link {ds} {h : Heap} (w : WiredX ds h) {o x : Id} (hl : Link h o x) :
    WiredX ds (observe h x o (namesFor h o x)) := by
  refine wired_regs w (fun i => by simp) (fun r hr => ?_)
  rcases mem_observe hr with h0 | ⟨c, nm, hc, hnm, rfl⟩
  · exact Or.inl h0
  · right
    exact ⟨by rw [← disp_exact w.toStruct]; exact hc, Or.inr ⟨hnm, hl⟩⟩

/-- a layer that belongs to a layer set: its layer set and font -/
theorem layerCtx_of_live {ds} {h : Heap} (st : Struct ds h) {l s : Id} (kl : h.kindOf l = some .layer)
    (hs : h.storedLayerSet l = some s) : ∃ f, LayerCtx h l s f := by
  obtain ⟨nl, el, knl⟩ := kindOf_some kl
  have ps : nl.pLayerSet = some s := by simpa [Heap.storedLayerSet, el] using hs
  have ol : h.ownerOf l = some s := by rw [ownerOf_eq el]; simp [owner, knl, ps]
  obtain ⟨nS, eS, _, hkS, _⟩ := owner_kind st el (by rw [← ownerOf_eq el]; exact ol)
  have ks : h.kindOf s = some .layerSet := by rw [kindOf_eq eS, hkS knl]
  have hfull := (st.full l nl el).2 knl (by simp [ps])
  rw [ancOf_ne st ol (by rw [ks]; simp)] at hfull
  cases eo : h.ownerOf s with
  | none => rw [ancOf_none st eo] at hfull; exact absurd rfl hfull
  | some f =>
    obtain ⟨nf, ef, hkf, _⟩ := owner_kind st eS (by rw [← ownerOf_eq eS]; exact eo)
    have kf : h.kindOf f = some .font := by rw [kindOf_eq ef, hkf (hkS knl)]
    exact ⟨f, kl, ol, ks, eo, kf⟩

theorem wired_ensure {ds} {h : Heap} (w : WiredX ds h) {p : Id} {k : Kind}
    (h1 : h.kindOf p = some .glyph → k.isLeaf = true)
    (h2 : h.kindOf p = some .layer → k = .lib) (h3 : h.kindOf p = some .font → k = .lib) :
    WiredX ds (ensure h p k) := by
  unfold ensure
  split
  · exact w
  · cases ep : h.kindOf p with
    | none => exact w
    | some kp =>
      obtain ⟨np, enp, knp⟩ := kindOf_some ep
      cases kp with
      | glyph => exact wired_spawnInGlyph w ep (h1 ep)
      | layer =>
        have := h2 ep; subst this
        exact wired_spawn w enp (by simp [knp, allowed]) (spawnOK_libInLayer ep)
      | font =>
        have := h3 ep; subst this
        exact wired_spawn w enp (by simp [knp, allowed]) (spawnOK_libInFont ep)
      | layerSet => exact w
      | contour => exact w
      | component => exact w
      | anchor => exact w
      | guideline => exact w
      | image => exact w
      | lib => exact w


theorem ownerOf_spawn {h : Heap} {p : Id} {n' : Node} {i : Id} {q : Id} (e : h.ownerOf i = some q) :
    (spawn h p n').ownerOf i = some q := by
  obtain ⟨n, en, eo⟩ := ownerOf_some e
  have hi : i ≠ h.next := fun e2 => by rw [e2, get_next] at en; cases en
  simp only [Heap.ownerOf, get_spawn, get_addKid, get_alloc]
  by_cases e1 : p = i
  · subst e1; simp [hi, en]; simpa [owner] using eo
  · simp [e1, hi, en, eo]

theorem get_spawn_new {h : Heap} {p : Id} {n' : Node} (hp : p ≠ h.next) : (spawn h p n').get h.next = some n' := by
  simp [get_spawn, get_addKid, get_alloc, hp]

@[simp] theorem next_addReg (h : Heap) (r : Reg) : (h.addReg r).next = h.next := by
  unfold Heap.addReg; split <;> rfl

@[simp] theorem next_observe (h : Heap) (x o : Id) (names : List NName) : (observe h x o names).next = h.next := by
  unfold observe
  split
  · rfl
  · rename_i c _
    have : ∀ (h : Heap), (names.foldl (fun h nm => h.addReg ⟨c, o, x, nm⟩) h).next = h.next := by
      intro h
      induction names generalizing h with
      | nil => rfl
      | cons nm ns ih => simp [List.foldl_cons, ih]
    exact this h

@[simp] theorem next_addKid (h : Heap) (p x : Id) : (h.addKid p x).next = h.next := by simp [Heap.addKid]

@[simp] theorem next_spawn (h : Heap) (p : Id) (n' : Node) : (spawn h p n').next = h.next + 1 := by
  simp [spawn]

@[simp] theorem next_setName (h : Heap) (x : Id) (s : String) : (h.setName x s).next = h.next := rfl

/-- `LayerSet.newLayer` and the font's reaction -/
theorem wired_addLayer {ds} {h : Heap} (w : WiredX ds h) {f s : Id} (name : String)
    (ks : h.kindOf s = some .layerSet) (os : h.ownerOf s = some f) (kf : h.kindOf f = some .font) :
    WiredX ds (addLayer h f s name) ∧
    (∀ i k, h.kindOf i = some k → (addLayer h f s name).kindOf i = some k) ∧
    (∀ i q, h.ownerOf i = some q → (addLayer h f s name).ownerOf i = some q) ∧
    LayerCtx (addLayer h f s name) h.next s f ∧ (addLayer h f s name).next = h.next + 1 := by
  obtain ⟨nS, eS, knS⟩ := kindOf_some ks
  have hfs : ancOf h .font s ≠ none := by rw [ancOf_eq w.toStruct os kf]; simp
  have w1 := wired_spawn w eS (by simp [knS, allowed]) (spawnOK_layerInSet ks hfs)
  let h1 := spawn h s { kind := .layer, pLayerSet := some s }
  have hsn : s ≠ h.next := fun e => by rw [e, get_next] at eS; cases eS
  have el : h1.get h.next = some { kind := .layer, pLayerSet := some s } := get_spawn_new hsn
  have c1 : LayerCtx h1 h.next s f :=
    ⟨by rw [kindOf_eq el], by rw [ownerOf_eq el]; simp [owner], kindOf_spawn ks, ownerOf_spawn os, kindOf_spawn kf⟩
  have w2 : WiredX ds (h1.setName h.next name) := wired_regs w1 (fun i => rfl) (fun r hr => Or.inl hr)
  have c2 : LayerCtx (h1.setName h.next name) h.next s f := c1.transfer rfl rfl rfl
  have hl : Link (h1.setName h.next name) f h.next := Or.inr ⟨c2.kl, c2.centre w2.toStruct⟩
  have w3 := wired_observe_link w2 hl
  have g3 : ∀ i, (addLayer h f s name).get i = h1.get i := fun i => by simp [addLayer, h1]
  refine ⟨w3, fun i k e => ?_, fun i q e => ?_, ?_, ?_⟩
  · rw [kindOf_congr g3]; exact kindOf_spawn e
  · rw [ownerOf_congr g3]; exact ownerOf_spawn e
  · exact c1.transfer (g3 _) (g3 _) (g3 _)
  · simp [addLayer]

theorem wired_newFontCore {ds} {h : Heap} (w : WiredX ds h) :
    WiredX ds (newFontCore h) ∧
    (∀ i k, h.kindOf i = some k → (newFontCore h).kindOf i = some k) ∧
    (newFontCore h).kindOf h.next = some .font ∧ (newFontCore h).kindOf (h.next + 1) = some .layerSet ∧
    (newFontCore h).ownerOf (h.next + 1) = some h.next ∧ (newFontCore h).next = h.next + 2 := by
  unfold newFontCore
  simp only
  have w1 : WiredX ds (h.alloc { kind := .font }) := wired_alloc w .font
  let h1 := h.alloc { kind := .font }
  have e1 : h1.get h.next = some { kind := .font } := by simp [h1, get_alloc]
  have w2 : WiredX ds (observe h1 h.next h.next [.all]) := wired_observe_self w1 h.next
  let h2 := observe h1 h.next h.next [.all]
  have e2 : h2.get h.next = some { kind := .font } := by simp [h2, e1]
  have k2 : h2.kindOf h.next = some .font := by rw [kindOf_eq e2]
  have w3 := wired_spawn w2 e2 (by simp [allowed]) (spawnOK_setInFont k2)
  have n2 : h2.next = h.next + 1 := by simp [h2, h1]
  have hne : h.next ≠ h2.next := by rw [n2]; exact Nat.ne_of_lt (Nat.lt_succ_self _)
  have e3 : (spawn h2 h.next { kind := .layerSet, pFont := some h.next }).get h2.next =
      some { kind := .layerSet, pFont := some h.next } := get_spawn_new hne
  rw [n2] at e3
  refine ⟨w3, fun i k e => ?_, kindOf_spawn k2, by rw [kindOf_eq e3], by rw [ownerOf_eq e3]; simp [owner], ?_⟩
  · apply kindOf_spawn
    obtain ⟨n, en, kn⟩ := kindOf_some e
    have hi : i ≠ h.next := fun e2 => by rw [e2, get_next] at en; cases en
    simp [Heap.kindOf, h2, h1, get_alloc, hi, en, kn]
  · simp [h2, h1]


/-! ### A layer's glyphs -/

theorem findNamed_some {h : Heap} {p : Id} {k : Kind} {name : String} {r : Id} (e : h.findNamed p k name = some r) :
    r ∈ h.kidsOf p ∧ h.kindOf r = some k := by
  unfold Heap.findNamed at e
  have h1 := List.find?_some e
  have h2 := List.mem_of_find?_eq_some e
  simp only [decide_eq_true_eq] at h1
  exact ⟨h2, h1.1⟩

/-- a glyph listed by a live layer: what `wired_killGlyph` needs -/
theorem glyph_of_live_layer {h : Heap} (w : Wired h) {l s f r : Id} (c : LayerCtx h l s f)
    (hr : r ∈ h.kidsOf l) (kr : h.kindOf r = some .glyph) :
    ∃ nr, h.get r = some nr ∧ nr.kind = .glyph ∧ h.ownerOf r = some l ∧ dispOf h r ≠ none := by
  obtain ⟨nr, er, knr⟩ := kindOf_some kr
  obtain ⟨nl, el, _⟩ := kindOf_some c.kl
  have lalive : h.alive l := ⟨nl, el, Or.inr (by rw [← ownerOf_eq el, c.ol]; simp)⟩
  have ho := w.down l r lalive (by simp) hr
  exact ⟨nr, er, knr, ho, by rw [disp_of_owned_by_layer w.toStruct c ho]; simp⟩

theorem get_killGlyph {h : Heap} (w : Wired h) {l r : Id} {nr : Node} (er : h.get r = some nr)
    (kr : nr.kind = .glyph) (ho : h.ownerOf r = some l) (i : Id) (hi : i ≠ r) (hoi : h.ownerOf i ≠ some r) :
    (killGlyph h l r).get i = if l = i then (h.get l).map (fun n => { n with kids := n.kids.filter (· ≠ r) }) else h.get i := by
  unfold killGlyph
  have w' : WiredX [l] h := wired_mono w (fun d hd => by simp at hd)
  have hlr : r ≠ l := fun e => by
    subst e
    obtain ⟨n, np, en, _, ep, hm, ha⟩ := ownerOf_node w.toStruct ho
    rw [en] at ep; cases ep
    cases hk : n.kind <;> simp [hk, allowed, Kind.isLeaf] at ha
  have g := (wired_endGlyph w' er kr ho (by simp) (by simp [hlr])).2.1
  rw [get_unlist, g, g]
  have kgl : h.kindOf r = some .glyph := by rw [kindOf_eq er, kr]
  by_cases e : l = i
  · subst e
    have : h.ownerOf l ≠ some r := hoi
    simp [Ne.symm hlr, this]
  · simp [e, hi, hoi]

theorem kindOf_killGlyph {h : Heap} (w : Wired h) {l r : Id} {nr : Node} (er : h.get r = some nr)
    (kr : nr.kind = .glyph) (ho : h.ownerOf r = some l) {i : Id} {k : Kind} (e : h.kindOf i = some k) :
    (killGlyph h l r).kindOf i = some k := by
  unfold killGlyph
  have w' : WiredX [l] h := wired_mono w (fun d hd => by simp at hd)
  have hlr : r ≠ l := fun e => by
    subst e
    obtain ⟨n, np, en, _, ep, hm, ha⟩ := ownerOf_node w.toStruct ho
    rw [en] at ep; cases ep
    cases hk : n.kind <;> simp [hk, allowed, Kind.isLeaf] at ha
  have g := (wired_endGlyph w' er kr ho (by simp) (by simp [hlr])).2.1
  obtain ⟨n, en, kn⟩ := kindOf_some e
  have gi : ∃ n', (endGlyph h l r).get i = some n' ∧ n'.kind = k := by
    rw [g]
    by_cases c : dispOf h r ≠ none ∧ (i = r ∨ h.ownerOf i = some r)
    · rw [if_pos c, en]; exact ⟨_, rfl, by simp [Node.cleared, kn]⟩
    · rw [if_neg c, en]; exact ⟨_, rfl, kn⟩
  obtain ⟨n', en', kn'⟩ := gi
  simp only [Heap.kindOf, get_unlist]
  by_cases e1 : l = i
  · subst e1; simp [en', kn']
  · simp [e1, en', kn']

@[simp] theorem next_unobserve (h : Heap) (x o : Id) (names : List NName) : (unobserve h x o names).next = h.next := by
  unfold unobserve; split <;> rfl
@[simp] theorem next_clear (h : Heap) (x : Id) : (h.clear x).next = h.next := by simp [Heap.clear]
@[simp] theorem next_endSelf (h : Heap) (x : Id) : (endSelf h x).next = h.next := by simp [endSelf]
@[simp] theorem next_unlist (h : Heap) (p x : Id) : (h.unlist p x).next = h.next := by simp [Heap.unlist]
@[simp] theorem next_detachChild (h : Heap) (g x : Id) : (detachChild h g x).next = h.next := by
  unfold detachChild; split <;> simp
@[simp] theorem next_detachSingleton (h : Heap) (p x : Id) : (detachSingleton h p x).next = h.next := by
  unfold detachSingleton; split <;> simp
@[simp] theorem next_stepG (g : Id) (h : Heap) (k : Id) : (stepG g h k).next = h.next := by
  unfold stepG; split <;> simp
theorem next_foldl {α} (f : Heap → α → Heap) (hf : ∀ h a, (f h a).next = h.next) (xs : List α) (h : Heap) :
    (xs.foldl f h).next = h.next := by
  induction xs generalizing h with
  | nil => rfl
  | cons x xs ih => rw [List.foldl_cons, ih, hf]
@[simp] theorem next_endGlyph (h : Heap) (l g : Id) : (endGlyph h l g).next = h.next := by
  rw [endGlyph_eq]; split
  · rfl
  · simp [next_foldl _ (next_stepG g)]
@[simp] theorem next_killGlyph (h : Heap) (l r : Id) : (killGlyph h l r).next = h.next := by simp [killGlyph]


/-- letting go of the glyph stored under a name (if any) keeps the layer as it is -/
def dropNamed (h : Heap) (l : Id) (name : String) : Heap :=
  match h.findNamed l .glyph name with
  | some r => killGlyph h l r
  | none => h

def glyphNode (h : Heap) (l : Id) : Node :=
  { kind := .glyph, pLayer := some l, pLayerSet := h.storedLayerSet l, pFont := (h.storedLayerSet l).bind h.storedFont }

theorem addGlyph_eq (h : Heap) (l : Id) (name : String) :
    addGlyph h l name =
      ((spawn (dropNamed h l name) l (glyphNode (dropNamed h l name) l)).setName (dropNamed h l name).next name).dropUnloaded l name := rfl

theorem wired_dropNamed {h : Heap} (w : Wired h) {l s f : Id} (c : LayerCtx h l s f) (name : String) :
    Wired (dropNamed h l name) ∧ LayerCtx (dropNamed h l name) l s f ∧
    (∀ i k, h.kindOf i = some k → (dropNamed h l name).kindOf i = some k) ∧ (dropNamed h l name).next = h.next := by
  unfold dropNamed
  cases e : h.findNamed l .glyph name with
  | none => exact ⟨w, c, fun i k e => e, rfl⟩
  | some r =>
    obtain ⟨hr, kr⟩ := findNamed_some e
    obtain ⟨nr, er, knr, ho, hd⟩ := glyph_of_live_layer w c hr kr
    simp only
    refine ⟨wired_killGlyph w er knr ho (by simp) hd, ?_, fun i k e => kindOf_killGlyph w er knr ho e, by simp⟩
    have ne : ∀ i, h.kindOf i ≠ some .glyph → i ≠ r := fun i hk e => hk (e ▸ kr)
    have notown : ∀ i q, h.ownerOf i = some q → q ≠ r → h.ownerOf i ≠ some r := fun i q e hq e2 => by
      rw [e] at e2; cases e2; exact hq rfl
    have gl := get_killGlyph w er knr ho l (ne l (by rw [c.kl]; simp))
      (notown l s c.ol (ne s (by rw [c.ks]; simp)))
    have gs := get_killGlyph w er knr ho s (ne s (by rw [c.ks]; simp))
      (notown s f c.os (ne f (by rw [c.kf]; simp)))
    have gf := get_killGlyph w er knr ho f (ne f (by rw [c.kf]; simp)) (by rw [ownerOf_font c.kf]; simp)
    have hls : l ≠ s := fun e => by have := c.kl; rw [e, c.ks] at this; cases this
    have hlf : l ≠ f := fun e => by have := c.kl; rw [e, c.kf] at this; cases this
    simp only [hls, hlf, if_false, if_true] at gl gs gf
    obtain ⟨nl, el, knl⟩ := kindOf_some c.kl
    refine ⟨?_, ?_, ?_, ?_, ?_⟩
    · simp [Heap.kindOf, gl, el, knl]
    · have := c.ol; rw [ownerOf_eq el] at this
      simp only [Heap.ownerOf, gl, el, Option.map_some, Option.bind_some]
      simpa [owner] using this
    · simp only [Heap.kindOf, gs]; exact c.ks
    · simp only [Heap.ownerOf, gs]; exact c.os
    · simp only [Heap.kindOf, gf]; exact c.kf

theorem wired_addGlyph {h : Heap} (w : Wired h) {l s : Id} (kl : h.kindOf l = some .layer)
    (hs : h.storedLayerSet l = some s) (name : String) :
    Wired (addGlyph h l name) ∧ (∀ i k, h.kindOf i = some k → (addGlyph h l name).kindOf i = some k) ∧
    (addGlyph h l name).kindOf h.next = some .glyph ∧ (addGlyph h l name).next = h.next + 1 := by
  obtain ⟨f, c⟩ := layerCtx_of_live w.toStruct kl hs
  obtain ⟨w1, c1, k1, n1⟩ := wired_dropNamed w c name
  rw [addGlyph_eq]
  generalize dropNamed h l name = h1 at w1 c1 k1 n1
  obtain ⟨nl, el, knl⟩ := kindOf_some c1.kl
  obtain ⟨nS, eS, knS⟩ := kindOf_some c1.ks
  have sl : h1.storedLayerSet l = some s := by
    have := c1.ol; rw [ownerOf_eq el] at this
    simp only [owner, knl] at this
    simp [Heap.storedLayerSet, el, this]
  have sf : h1.storedFont s = some f := by
    have := c1.os; rw [ownerOf_eq eS] at this
    simp only [owner, knS] at this
    simp [Heap.storedFont, eS, this]
  have ok : SpawnOK h1 l (glyphNode h1 l) := by
    unfold glyphNode
    rw [sl]; simp only [Option.bind_some, sf]
    refine ⟨rfl, by simp [owner], by simp [Kind.isLeaf], ?_, by simp⟩
    intro a
    have a1 : ancVia h1 .layerSet (some l) = some s := by
      simp only [ancVia, c1.kl]; simp
      exact ancOf_eq w1.toStruct c1.ol c1.ks
    have a2 : ancVia h1 .font (some l) = some f := by
      simp only [ancVia, c1.kl]; simp
      exact c1.centre w1.toStruct
    refine ⟨by simp, ?_, ?_, ?_, by simp⟩
    · intro e; simp at e; subst e; simp [ancVia, c1.kl]
    · intro e; simp at e; subst e; exact a1
    · intro e; simp at e; subst e; exact a2
  have kgn : (glyphNode h1 l).kind = .glyph := rfl
  have w2 := wired_spawn w1 el (by simp [knl, allowed, kgn]) ok
  have hln : l ≠ h1.next := fun e => by rw [e, get_next] at el; cases el
  refine ⟨wired_regs w2 (fun i => rfl) (fun r hr => Or.inl hr), fun i k e => ?_, ?_, ?_⟩
  · show (spawn h1 l _).kindOf i = some k
    exact kindOf_spawn (k1 i k e)
  · show (spawn h1 l _).kindOf h.next = some .glyph
    rw [← n1, kindOf_eq (get_spawn_new hln)]; rfl
  · show (spawn h1 l _).next = h.next + 1
    simp [n1]


/-! ### Operations -/

theorem wired_same {h h' : Heap} (w : Wired h) (hg : ∀ i, h'.get i = h.get i) (hr : h'.regs = h.regs) : Wired h' :=
  wired_regs w hg (fun r hm => Or.inl (hr ▸ hm))

theorem wired_mark {h : Heap} (w : Wired h) (x : Id) : Wired (mark h x) := wired_same w (fun i => by simp) (by simp)
theorem wired_setDirty {h : Heap} (w : Wired h) (x : Id) : Wired (h.setDirty x) := wired_same w (fun i => by simp) (by simp)

theorem child_leaf {k : Kind} (e : k.isChild = true) : k.isLeaf = true := by
  cases k <;> simp [Kind.isChild, Kind.isLeaf] at e ⊢

theorem fontOf_none_pFont {h : Heap} {x : Id} {n : Node} (e : h.get x = some n) (k : n.kind = .guideline)
    (hf : fontOf h x = none) : n.pFont = none := by
  rw [fontOf_leaf_via e (by simp [k, Kind.viaLayer])] at hf
  cases ef : n.pFont with
  | none => rfl
  | some f => simp [ef] at hf

theorem wired_insertStep {h : Heap} (w : Wired h) (p x : Id) : Wired (insertStep h p x).1 := by
  unfold insertStep
  cases ep : h.kindOf p with
  | none => exact w
  | some kp =>
    cases ex : h.get x with
    | none => cases kp <;> exact w
    | some nx =>
      obtain ⟨np, enp, knp⟩ := kindOf_some ep
      cases kp with
      | glyph =>
        simp only
        split
        · exact w
        · rename_i hchild
          simp only [Bool.not_eq_true, Bool.not_eq_false] at hchild
          split
          · exact w
          · rename_i hnk
            split
            · exact w
            · rename_i hng
              split
              · exact w
              · rename_i hnf
                simp only
                refine wired_mark ?_ p
                have kleaf := child_leaf hchild
                have eg : nx.pGlyph = none := by simpa using hng
                have lo : owner nx = none := by
                  cases hk : nx.kind <;> simp [owner, hk, eg, Kind.isChild] at hchild ⊢
                  -- a guideline: the font reference must be empty too
                  have hf : fontOf h x = none := by
                    cases hfo : fontOf h x with
                    | none => rfl
                    | some f => exact absurd ⟨hk, by simp [hfo]⟩ hnf
                  exact fontOf_none_pFont ex hk hf
                obtain ⟨_, l2, l3, l4, l5⟩ := w.loose x nx ex lo
                rw [attachChild_eq]
                have hxk : x ∉ np.kids := by rw [← kidsOf_eq enp]; exact hnk
                refine wired_adopt w enp ex kleaf lo rfl rfl (by simp [knp, allowed, kleaf]) hxk ?_
                refine ⟨by simp [leaf_no_kids w.toStruct ex kleaf], owner_leaf_glyph (n := { nx with pGlyph := some p, pLayer := none, pLayerSet := none, pFont := none }) kleaf rfl, ?_, ?_, ?_⟩
                · refine ⟨fun hh => by simp [kleaf] at hh, fun hk => ?_, fun hk => ?_, fun hk => ?_⟩ <;>
                    (simp only at hk; rw [hk] at kleaf; simp [Kind.isLeaf] at kleaf)
                · intro a; simp [ancVia, ep, l5]
                · refine ⟨fun hk => ?_, fun hk => ?_⟩ <;> (simp only at hk; rw [hk] at kleaf; simp [Kind.isLeaf] at kleaf)
      | font =>
        simp only
        split
        · exact w
        · rename_i hgl
          simp only [ne_eq, Decidable.not_not] at hgl
          split
          · exact w
          · rename_i hnf
            split
            · exact w
            · rename_i hng
              simp only
              refine wired_mark ?_ p
              have kleaf : nx.kind.isLeaf = true := by simp [hgl, Kind.isLeaf]
              have eg : nx.pGlyph = none := by simpa using hng
              have hf : fontOf h x = none := by
                cases hfo : fontOf h x with
                | none => rfl
                | some f => simp [hfo] at hnf
              have ef := fontOf_none_pFont ex hgl hf
              have lo : owner nx = none := by simp [owner, hgl, eg, ef]
              obtain ⟨_, l2, l3, l4, l5⟩ := w.loose x nx ex lo
              rw [attachFontGuideline_eq]
              have hxk : x ∉ np.kids := fun hm => by
                have := w.down p x ⟨np, enp, Or.inl knp⟩ (by simp) (by rw [kidsOf_eq enp]; exact hm)
                rw [ownerOf_eq ex, lo] at this; cases this
              refine wired_adopt w enp ex kleaf lo rfl rfl (by simp [knp, hgl, allowed]) hxk ?_
              refine ⟨by simp [leaf_no_kids w.toStruct ex kleaf], by simp [owner, hgl, eg], ?_, ?_, ?_⟩
              · simp [hgl, Kind.isLeaf]
              · intro a; simp [ancVia, ep, eg, l2, l3, l5]
              · simp [hgl]
      | layerSet => exact w
      | layer => exact w
      | contour => exact w
      | component => exact w
      | anchor => exact w
      | guideline => exact w
      | image => exact w
      | lib => exact w

theorem wired_insertAll {p : Id} (xs : List Id) : ∀ {h : Heap}, Wired h → Wired (insertAll h p xs).1 := by
  induction xs with
  | nil => intro h w; exact w
  | cons x xs ih =>
    intro h w
    unfold insertAll
    have w1 := wired_insertStep w p x
    split
    · rename_i h' heq
      rw [heq] at w1
      exact ih w1
    · rename_i r hne
      exact w1


/-! clearing a role -/

theorem kindOf_cleared_map {o : Option Node} {k : Kind} (e : o.map Node.kind = some k) :
    (o.map Node.cleared).map Node.kind = some k := by
  cases o <;> simp [Node.cleared] at e ⊢; exact e

theorem kindOf_unlist (h : Heap) (p x i : Id) : (h.unlist p x).kindOf i = h.kindOf i := by
  simp only [Heap.kindOf, get_unlist]
  by_cases e : p = i
  · subst e; cases h.get p <;> simp
  · simp [e]

theorem kindOf_detachChild (h : Heap) (g x i : Id) : (detachChild h g x).kindOf i = h.kindOf i := by
  simp only [Heap.kindOf, get_detachChild]
  by_cases c : x = i ∧ glyphOf h x = some g
  · obtain ⟨c1, c2⟩ := c; subst c1
    simp only [c2, and_self, if_true]
    cases h.get x <;> simp [Node.cleared]
  · simp [c]

theorem kindOf_detachSingleton (h : Heap) (p x i : Id) : (detachSingleton h p x).kindOf i = h.kindOf i := by
  simp only [Heap.kindOf, get_detachSingleton]
  by_cases c : x = i ∧ dispOf h x ≠ none
  · obtain ⟨c1, c2⟩ := c; subst c1
    simp only [c2, ne_eq, not_false_eq_true, and_self, if_true]
    cases h.get x <;> simp [Node.cleared]
  · simp [c]

theorem kindOf_removeChild {h : Heap} {g x i : Id} {k : Kind} (e : h.kindOf i = some k) :
    (removeChild h g x).kindOf i = some k := by
  have : (removeChild h g x).kindOf i = ((detachChild h g x).unlist g x).kindOf i := by
    simp only [Heap.kindOf, removeChild, get_mark, get_detachChild_unlist]
  rw [this, kindOf_unlist, kindOf_detachChild]; exact e

theorem wired_removeAny_glyph {h : Heap} (w : Wired h) {g x : Id} (kg : h.kindOf g = some .glyph) :
    Wired (removeAny h g x) ∧ (removeAny h g x).kindOf g = some .glyph := by
  unfold removeAny
  simp only [kg, reduceCtorEq, if_false]
  exact ⟨wired_removeChild w kg, kindOf_removeChild kg⟩

theorem wired_clearRole_glyph {g : Id} (xs : List Id) :
    ∀ {h : Heap}, Wired h → h.kindOf g = some .glyph →
      Wired (xs.foldl (fun h x => removeAny h g x) h) ∧ (xs.foldl (fun h x => removeAny h g x) h).kindOf g = some .glyph := by
  induction xs with
  | nil => intro h w kg; exact ⟨w, kg⟩
  | cons x xs ih =>
    intro h w kg
    rw [List.foldl_cons]
    obtain ⟨w1, k1⟩ := wired_removeAny_glyph (x := x) w kg
    exact ih w1 k1

theorem get_removeFontGuideline (h : Heap) (f x i : Id) :
    (removeFontGuideline h f x).get i = ((detachSingleton h f x).unlist f x).get i := by
  simp [removeFontGuideline, get_detachSingleton_unlist]

theorem wired_clearRole_font {f : Id} (xs : List Id) (hnd : xs.Nodup) :
    ∀ {h : Heap}, Wired h → h.kindOf f = some .font → (∀ x ∈ xs, x ∈ h.kidsOf f ∧ h.kindOf x = some .guideline) →
      Wired (xs.foldl (fun h x => removeAny h f x) h) := by
  induction xs with
  | nil => intro h w _ _; exact w
  | cons x xs ih =>
    intro h w kf hx
    rw [List.foldl_cons]
    obtain ⟨hxk, kx⟩ := hx x (by simp)
    obtain ⟨nx, ex, knx⟩ := kindOf_some kx
    obtain ⟨nf, ef, knf⟩ := kindOf_some kf
    have kleaf : nx.kind.isLeaf = true := by simp [knx, Kind.isLeaf]
    have ho := w.down f x ⟨nf, ef, Or.inl knf⟩ (by simp) hxk
    have hra : removeAny h f x = removeFontGuideline h f x := by simp [removeAny, kf]
    rw [hra]
    have w1 := wired_removeFontGuideline w ex kleaf ho kf
    have hxf : x ≠ f := fun e => by rw [e, kf] at kx; cases kx
    have hc := centre_of_owned_by_font w.toStruct ho kf
    have gi : ∀ i, i ≠ x → (removeFontGuideline h f x).get i =
        if f = i then (h.get f).map (fun n => { n with kids := n.kids.filter (· ≠ x) }) else h.get i := by
      intro i hi
      rw [get_removeFontGuideline, get_unlist, get_detachSingleton, get_detachSingleton]
      simp [Ne.symm hi, hxf]
    refine ih (List.nodup_cons.mp hnd).2 w1 ?_ ?_
    · simp [Heap.kindOf, gi f (Ne.symm hxf), ef, knf]
    · intro y hy
      have hyx : y ≠ x := fun e => (List.nodup_cons.mp hnd).1 (e ▸ hy)
      obtain ⟨hyk, ky⟩ := hx y (by simp [hy])
      have hyf : y ≠ f := fun e => by rw [e, kf] at ky; cases ky
      refine ⟨?_, ?_⟩
      · simp only [Heap.kidsOf, gi f (Ne.symm hxf), if_true, ef, Option.map_some]
        rw [kidsOf_eq ef] at hyk
        simp [hyk, hyx]
      · simp only [Heap.kindOf, gi y hyx, Ne.symm hyf, if_false]; exact ky

theorem kidsOfKind_spec {h : Heap} {p : Id} {k : Kind} {x : Id} (hx : x ∈ h.kidsOfKind p k) :
    x ∈ h.kidsOf p ∧ h.kindOf x = some k := by
  unfold Heap.kidsOfKind at hx
  simpa using List.mem_filter.mp hx

theorem wired_clearRole {h : Heap} (w : Wired h) (p : Id) (role : Kind)
    (hk : h.kindOf p = some .glyph ∨ (h.kindOf p = some .font ∧ role = .guideline)) :
    Wired (clearRole h p role) ∧ (∀ k, h.kindOf p = some k → k = .glyph → (clearRole h p role).kindOf p = some .glyph) := by
  unfold clearRole
  rcases hk with kg | ⟨kf, hr⟩
  · obtain ⟨w1, k1⟩ := wired_clearRole_glyph (h.kidsOfKind p role) w kg
    exact ⟨w1, fun _ _ _ => k1⟩
  · subst hr
    refine ⟨wired_clearRole_font (h.kidsOfKind p .guideline) ?_ w kf (fun x hx => kidsOfKind_spec hx), ?_⟩
    · unfold Heap.kidsOfKind
      obtain ⟨nf, ef, _⟩ := kindOf_some kf
      rw [kidsOf_eq ef]
      exact (w.kidsNodup p nf ef).filter _
    · intro k e1 e2; rw [kf] at e1; cases e1; cases e2


theorem kindOf_ensure {h : Heap} {p : Id} {k : Kind} {i : Id} {kk : Kind} (e : h.kindOf i = some kk) :
    (ensure h p k).kindOf i = some kk := by
  unfold ensure
  split
  · exact e
  · split
    · exact kindOf_spawn e
    · exact kindOf_spawn e
    · exact kindOf_spawn e
    · exact e

theorem kindOf_mark {h : Heap} (x i : Id) : (mark h x).kindOf i = h.kindOf i := by simp [Heap.kindOf]
theorem kindOf_setDirty {h : Heap} (x i : Id) : (h.setDirty x).kindOf i = h.kindOf i := by simp [Heap.kindOf]

theorem kidOfKind_spec {h : Heap} {p : Id} {k : Kind} {x : Id} (e : h.kidOfKind p k = some x) :
    x ∈ h.kidsOf p ∧ h.kindOf x = some k := by
  unfold Heap.kidOfKind at e
  have h1 := List.find?_some e
  have h2 := List.mem_of_find?_eq_some e
  simp only [decide_eq_true_eq] at h1
  exact ⟨h2, h1⟩

/-- the layer set of a font, as `newLayer/delLayer` find it -/
theorem layerSetOfFont_spec {h : Heap} (w : Wired h) {f s : Id} (e : layerSetOfFont h f = some s) :
    h.kindOf f = some .font ∧ h.kindOf s = some .layerSet ∧ h.ownerOf s = some f := by
  unfold layerSetOfFont at e
  split at e
  · rename_i kf
    obtain ⟨hs, ks⟩ := kidOfKind_spec e
    obtain ⟨nf, ef, knf⟩ := kindOf_some kf
    exact ⟨kf, ks, w.down f s ⟨nf, ef, Or.inl knf⟩ (by simp) hs⟩
  · cases e

theorem liveLayer_spec {h : Heap} {l : Id} (e : liveLayer h l = true) :
    h.kindOf l = some .layer ∧ ∃ s, h.storedLayerSet l = some s := by
  unfold liveLayer at e
  simp only [decide_eq_true_eq, Bool.and_eq_true, Option.isSome_iff_exists] at e
  exact e

theorem wired_openLayers (f s : Id) (layers : List (String × List String)) :
    ∀ {h : Heap}, Wired h → h.kindOf s = some .layerSet → h.ownerOf s = some f → h.kindOf f = some .font →
      Wired (layers.foldl (fun h ln =>
        let l := h.next
        let h := addLayer h f s ln.1
        { h with unloaded := AL.set h.unloaded l ln.2 }) h) ∧
      (layers.foldl (fun h ln =>
        let l := h.next
        let h := addLayer h f s ln.1
        { h with unloaded := AL.set h.unloaded l ln.2 }) h).kindOf f = some .font := by
  induction layers with
  | nil => intro h w _ _ kf; exact ⟨w, kf⟩
  | cons ln lns ih =>
    intro h w ks os kf
    rw [List.foldl_cons]
    obtain ⟨w1, k1, o1, _, _⟩ := wired_addLayer w ln.1 ks os kf
    have w2 : Wired { addLayer h f s ln.1 with unloaded := AL.set (addLayer h f s ln.1).unloaded h.next ln.2 } :=
      wired_same w1 (fun i => rfl) rfl
    exact ih w2 (k1 s _ ks) (o1 s f os) (k1 f _ kf)


theorem wired_empty : Wired {} := by
  refine ⟨⟨?_, ?_, ?_, ?_, ?_, ?_, ?_, ?_⟩, ?_⟩ <;> intros <;> simp_all [Heap.get, Heap.kidsOf]

/-- the layer a glyph object's layer reference points to is a live layer -/
theorem layer_of_glyph_live {h : Heap} (w : Wired h) {g l : Id} (kg : h.kindOf g = some .glyph)
    (hl : h.storedLayer g = some l) : h.kindOf l = some .layer ∧ ∃ s, h.storedLayerSet l = some s := by
  obtain ⟨ng, eg, kng⟩ := kindOf_some kg
  have pl : ng.pLayer = some l := by simpa [Heap.storedLayer, eg] using hl
  obtain ⟨E1, E2, E3⟩ := exact_glyph w.toStruct eg kng
  have ho : h.ownerOf g = some l := by rw [ownerOf_eq eg]; simp [owner, kng, pl]
  have kl : h.kindOf l = some .layer := ancOf_kind (by rw [← E1]; exact pl)
  obtain ⟨nl, el, knl⟩ := kindOf_some kl
  have hfull := ((w.full g ng eg).1 kng (by simp [pl])).1
  rw [E2, ancOf_ne w.toStruct ho (by rw [kl]; simp), ← (exact_layer w.toStruct el knl).1] at hfull
  refine ⟨kl, ?_⟩
  cases e : nl.pLayerSet with
  | none => exact absurd e hfull
  | some s => exact ⟨s, by simp [Heap.storedLayerSet, el, e]⟩

theorem wired_killNamed {h : Heap} (w : Wired h) {l s r : Id} (kl : h.kindOf l = some .layer)
    (hs : h.storedLayerSet l = some s) (hr : r ∈ h.kidsOf l) (kr : h.kindOf r = some .glyph) :
    Wired (killGlyph h l r) := by
  obtain ⟨f, c⟩ := layerCtx_of_live w.toStruct kl hs
  obtain ⟨nr, er, knr, ho, hd⟩ := glyph_of_live_layer w c hr kr
  exact wired_killGlyph w er knr ho (by simp) hd

theorem wired_dropUnloaded {h : Heap} (w : Wired h) (l : Id) (name : String) : Wired (h.dropUnloaded l name) :=
  wired_same w (fun i => rfl) rfl
theorem wired_setName {h : Heap} (w : Wired h) (x : Id) (name : String) : Wired (h.setName x name) :=
  wired_same w (fun i => rfl) rfl

theorem step_newFont {h : Heap} (w : Wired h) : Wired (step h .newFont).1 := by
  simp only [step]
  obtain ⟨w1, k1, kf, ks, os, n1⟩ := wired_newFontCore w
  obtain ⟨w2, k2, _, _, _⟩ := wired_addLayer w1 "public.default" ks os kf
  have kf2 : (mark ((addLayer (newFontCore h) h.next (h.next + 1) "public.default").setDirty (h.next + 1 + 1)) (h.next + 1)).kindOf h.next
      = some .font := by rw [kindOf_mark, kindOf_setDirty]; exact k2 _ _ kf
  refine wired_ensure (wired_mark (wired_setDirty w2 _) _) ?_ ?_ ?_
  · intro _; rfl
  · intro hk; rw [kf2] at hk
  · intro _; rfl

theorem step_openFont {h : Heap} (w : Wired h) (layers) : Wired (step h (.openFont layers)).1 := by
  simp only [step]
  obtain ⟨w1, k1, kf, ks, os, n1⟩ := wired_newFontCore w
  obtain ⟨w2, kf2⟩ := wired_openLayers h.next (h.next + 1) layers w1 ks os kf
  refine wired_ensure w2 ?_ ?_ ?_
  · intro _; rfl
  · intro hk; rw [kf2] at hk
  · intro _; rfl

theorem step_newLayer {h : Heap} (w : Wired h) (f name) : Wired (step h (.newLayer f name)).1 := by
  simp only [step]
  cases e : layerSetOfFont h f with
  | none => exact w
  | some s =>
    obtain ⟨kf, ks, os⟩ := layerSetOfFont_spec w e
    simp only
    cases e2 : h.findNamed s .layer name with
    | some _ => exact w
    | none =>
      obtain ⟨w1, _⟩ := wired_addLayer w name ks os kf
      exact wired_mark (wired_setDirty w1 _) _

theorem step_delLayer {h : Heap} (w : Wired h) (f name) : Wired (step h (.delLayer f name)).1 := by
  simp only [step]
  cases e : layerSetOfFont h f with
  | none => exact w
  | some s =>
    obtain ⟨kf, ks, os⟩ := layerSetOfFont_spec w e
    simp only
    cases e2 : h.findNamed s .layer name with
    | none => exact w
    | some l =>
      obtain ⟨hl, kl⟩ := findNamed_some e2
      obtain ⟨nS, eS, knS⟩ := kindOf_some ks
      have ol := w.down s l ⟨nS, eS, Or.inr (by rw [← ownerOf_eq eS, os]; simp)⟩ (by simp) hl
      exact wired_mark (wired_killLayer w ⟨kl, ol, ks, os, kf⟩ (by simp) (fun k _ => by simp)) _

theorem step_renameLayer {h : Heap} (w : Wired h) (l name) : Wired (step h (.renameLayer l name)).1 := by
  simp only [step]
  split
  · exact w
  · split
    · exact w
    · exact wired_mark (wired_setName w l name) _

theorem step_newGlyph {h : Heap} (w : Wired h) (l name) : Wired (step h (.newGlyph l name)).1 := by
  simp only [step]
  split
  · exact w
  · split
    · exact w
    · rename_i _ hlive
      obtain ⟨kl, s, hs⟩ := liveLayer_spec (by simpa using hlive)
      exact wired_mark (wired_setDirty (wired_addGlyph w kl hs name).1 _) _

theorem step_getGlyph {h : Heap} (w : Wired h) (l name spec) : Wired (step h (.getGlyph l name spec)).1 := by
  simp only [step]
  split
  · exact w
  · split
    · exact w
    · rename_i _ hlive
      obtain ⟨kl, s, hs⟩ := liveLayer_spec (by simpa using hlive)
      split
      · exact w
      · split
        · obtain ⟨w1, _, kg, _⟩ := wired_addGlyph w kl hs name
          exact (wired_spawnChildren w1 kg spec).1
        · exact w

theorem step_delGlyph {h : Heap} (w : Wired h) (l name) : Wired (step h (.delGlyph l name)).1 := by
  simp only [step]
  split
  · exact w
  · split
    · exact w
    · rename_i _ hlive
      obtain ⟨kl, s, hs⟩ := liveLayer_spec (by simpa using hlive)
      split
      · rename_i g e
        obtain ⟨hg, kg⟩ := findNamed_some e
        exact wired_mark (wired_killNamed w kl hs hg kg) _
      · split
        · exact wired_mark (wired_dropUnloaded w l name) _
        · exact w

theorem step_renameGlyph {h : Heap} (w : Wired h) (g name) : Wired (step h (.renameGlyph g name)).1 := by
  simp only [step]
  split
  · exact w
  · rename_i kg
    simp only [ne_eq, Decidable.not_not] at kg
    split
    · exact w
    · have w0 : Wired (h.setName g name) := wired_setName w g name
      split
      · rename_i c l hc hl
        have kg' : (h.setName g name).kindOf g = some .glyph := kg
        obtain ⟨kl, s, hs⟩ := layer_of_glyph_live w0 kg' hl
        refine wired_mark (wired_dropUnloaded ?_ l name) _
        split
        · rename_i r e
          have h1 := List.find?_some e
          have h2 := List.mem_of_find?_eq_some e
          simp only [decide_eq_true_eq] at h1
          exact wired_killNamed w0 kl hs h2 h1.1
        · exact w0
      · exact wired_setDirty w0 _


theorem step_insertGlyph {h : Heap} (w : Wired h) (l src name) : Wired (step h (.insertGlyph l src name)).1 := by
  simp only [step]
  split
  · exact w
  · rename_i hk
    simp only [not_or, ne_eq, Decidable.not_not] at hk
    split
    · exact w
    · rename_i hlive
      obtain ⟨kl, s, hs⟩ := liveLayer_spec (by simpa using hlive)
      obtain ⟨w1, k1, kg, _⟩ := wired_addGlyph w kl hs (name.getD (h.nameOf src))
      generalize addGlyph h l (name.getD (h.nameOf src)) = h1 at w1 k1 kg
      have w2 := wired_mark (wired_setDirty w1 h.next) l
      have kg2 : (mark (h1.setDirty h.next) l).kindOf h.next = some .glyph := by
        rw [kindOf_mark, kindOf_setDirty]; exact kg
      have ks2 : (mark (h1.setDirty h.next) l).kindOf src = some .glyph := by
        rw [kindOf_mark, kindOf_setDirty]; exact k1 _ _ hk.2
      generalize mark (h1.setDirty h.next) l = h2 at w2 kg2 ks2
      obtain ⟨w3, k3⟩ := wired_spawnChildren w2 kg2
        ([Kind.contour, .component, .anchor, .guideline].map (fun k => (h.kidsOfKind src k).length) ++ [1, 1])
      have ks3 := k3 _ _ ks2
      generalize spawnChildren h2 h.next _ = h3 at w3 ks3
      have w4 : Wired (ensure h3 src .image) :=
        wired_ensure w3 (fun _ => by simp [Kind.isLeaf]) (fun e => by rw [ks3] at e; cases e)
          (fun e => by rw [ks3] at e; cases e)
      have ks4 : (ensure h3 src .image).kindOf src = some .glyph := kindOf_ensure ks3
      have w5 : Wired (ensure (ensure h3 src .image) src .lib) :=
        wired_ensure w4 (fun _ => by simp [Kind.isLeaf]) (fun _ => rfl) (fun _ => rfl)
      exact wired_mark w5 _

theorem step_new {h : Heap} (w : Wired h) (k) : Wired (step h (.new k)).1 := by
  simp only [step]
  split
  · exact wired_alloc w k
  · exact w

theorem step_remove {h : Heap} (w : Wired h) (p x) : Wired (step h (.remove p x)).1 := by
  simp only [step]
  cases ep : h.kindOf p with
  | none => exact w
  | some kp =>
    cases ex : h.kindOf x with
    | none => cases kp <;> exact w
    | some kx =>
      cases kp with
      | glyph =>
        simp only
        split
        · exact w
        · split
          · exact wired_removeChild w ep
          · exact w
      | font =>
        simp only
        split
        · exact w
        · rename_i hgl
          simp only [ne_eq, Decidable.not_not] at hgl
          split
          · rename_i hm
            obtain ⟨nx, enx, knx⟩ := kindOf_some ex
            obtain ⟨nf, ef, knf⟩ := kindOf_some ep
            have ho := w.down p x ⟨nf, ef, Or.inl knf⟩ (by simp) hm
            exact wired_removeFontGuideline w enx (by simp [knx, hgl, Kind.isLeaf]) ho ep
          · exact w
      | layerSet => exact w
      | layer => exact w
      | contour => exact w
      | component => exact w
      | anchor => exact w
      | guideline => exact w
      | image => exact w
      | lib => exact w

theorem step_clear {h : Heap} (w : Wired h) (p role) : Wired (step h (.clear p role)).1 := by
  simp only [step]
  cases ep : h.kindOf p with
  | none => exact w
  | some kp =>
    cases kp with
    | glyph =>
      simp only
      split
      · exact (wired_clearRole w p role (Or.inl ep)).1
      · exact w
    | font =>
      simp only
      split
      · rename_i hr; exact (wired_clearRole w p role (Or.inr ⟨ep, hr⟩)).1
      · exact w
    | layerSet => exact w
    | layer => exact w
    | contour => exact w
    | component => exact w
    | anchor => exact w
    | guideline => exact w
    | image => exact w
    | lib => exact w

theorem wired_clearAllCore {h : Heap} (w : Wired h) {g : Id} (kg : h.kindOf g = some .glyph) :
    Wired (clearAllCore h g) := by
  obtain ⟨w1, k1⟩ := wired_clearRole w g .contour (Or.inl kg)
  have kg1 := k1 _ kg rfl
  obtain ⟨w2, k2⟩ := wired_clearRole w1 g .component (Or.inl kg1)
  have kg2 := k2 _ kg1 rfl
  obtain ⟨w3, k3⟩ := wired_clearRole w2 g .anchor (Or.inl kg2)
  have kg3 := k3 _ kg2 rfl
  obtain ⟨w4, k4⟩ := wired_clearRole w3 g .guideline (Or.inl kg3)
  generalize hh : clearRole (clearRole (clearRole (clearRole h g .contour) g .component) g .anchor) g .guideline = h4 at w4
  have e : clearAllCore h g = if (h4.kidOfKind g .image).isSome then mark h4 g else h4 := by
    unfold clearAllCore; rw [hh]
  rw [e]
  split
  · exact wired_mark w4 g
  · exact w4

theorem step_clearAll {h : Heap} (w : Wired h) (g) : Wired (step h (.clearAll g)).1 := by
  simp only [step, apply_ite Prod.fst]
  split
  · exact w
  · rename_i kg
    simp only [ne_eq, Decidable.not_not] at kg
    exact wired_clearAllCore w kg

theorem step_setList {h : Heap} (w : Wired h) (p role xs) : Wired (step h (.setList p role xs)).1 := by
  simp only [step]
  split
  · exact w
  · rename_i hok
    simp only [not_or, Decidable.not_not] at hok
    have hk : h.kindOf p = some .glyph ∨ (h.kindOf p = some .font ∧ role = .guideline) := by
      have := hok.1
      cases ep : h.kindOf p with
      | none => simp [ep, setListOK] at this
      | some kp => cases kp <;> simp [ep, setListOK] at this ⊢ <;> exact this
    exact wired_insertAll xs (wired_clearRole w p role hk).1

theorem step_touch {h : Heap} (w : Wired h) (p what) : Wired (step h (.touch p what)).1 := by
  simp only [step]
  split
  · exact w
  · rename_i hok
    simp only [Bool.not_eq_true, Bool.not_eq_false] at hok
    have we : Wired (ensure h p what) := by
      refine wired_ensure w ?_ ?_ ?_
      · intro hk; simp only [hk, touchOK, decide_eq_true_eq, Bool.or_eq_true] at hok
        rcases hok with e | e <;> simp [e, Kind.isLeaf]
      · intro hk; simpa [hk, touchOK] using hok
      · intro hk; simpa [hk, touchOK] using hok
    split <;> exact we

theorem step_mutate {h : Heap} (w : Wired h) (x) : Wired (step h (.mutate x)).1 := by
  simp only [step]
  split
  · exact w
  · split
    · exact wired_same w (fun i => by simp) (by simp)
    · exact wired_same w (fun i => by simp [markPost]) (by simp [markPost])

/-- every operation preserves the invariant -/
theorem wired_step {h : Heap} (w : Wired h) (op : Op) : Wired (step h op).1 := by
  cases op with
  | newFont => exact step_newFont w
  | openFont layers => exact step_openFont w layers
  | newLayer f name => exact step_newLayer w f name
  | delLayer f name => exact step_delLayer w f name
  | renameLayer l name => exact step_renameLayer w l name
  | newGlyph l name => exact step_newGlyph w l name
  | getGlyph l name spec => exact step_getGlyph w l name spec
  | delGlyph l name => exact step_delGlyph w l name
  | renameGlyph g name => exact step_renameGlyph w g name
  | insertGlyph l src name => exact step_insertGlyph w l src name
  | new k => exact step_new w k
  | newGlyphObj => exact wired_alloc w .glyph
  | insert p x => exact wired_insertStep w p x
  | remove p x => exact step_remove w p x
  | clear p role => exact step_clear w p role
  | clearAll g => exact step_clearAll w g
  | setList p role xs => exact step_setList w p role xs
  | touch p what => exact step_touch w p what
  | mutate x => exact step_mutate w x
  | clean => exact wired_same w (fun i => rfl) rfl
  | dump => exact wired_cacheAll w

theorem wired_run (ops : List Op) : ∀ {h : Heap}, Wired h → Wired (run h ops) := by
  induction ops with
  | nil => intro h w; exact w
  | cons op ops ih => intro h w; exact ih (wired_step w op)


/-! ### Posting reaches owners only -/

theorem Anc.trans {h : Heap} {x y z : Id} (a : Anc h x y) (b : Anc h y z) : Anc h x z := by
  induction a with
  | refl => exact b
  | step ho _ ih => exact Anc.step ho (ih b)

theorem Anc.congr {h h' : Heap} (hg : ∀ i, h'.get i = h.get i) {x y : Id} (a : Anc h x y) : Anc h' x y := by
  induction a with
  | refl => exact Anc.refl _
  | step ho _ ih => exact Anc.step (by rw [ownerOf_congr hg]; exact ho) ih

/-- who is registered for an object's `*.Changed` notification, other than the object itself: its owner -/
theorem changed_observer_is_owner {h : Heap} (w : Wired h) {r : Reg} (hr : r ∈ h.regs) {ks : Kind}
    (kx : h.kindOf r.observable = some ks) (hn : r.name = changedName ks) (hne : r.observer ≠ r.observable) :
    h.ownerOf r.observable = some r.observer := by
  rcases (w.regSound r hr).2 with ⟨_, h2⟩ | ⟨h1, h2⟩
  · exact absurd h2 hne
  · rcases h2 with h2 | ⟨kl, h2⟩
    · exact h2
    · -- the font's observation of a layer is for other notifications
      exfalso
      rw [kx] at kl; cases kl
      have kf := ancOf_kind h2
      rw [hn] at h1
      simp [namesFor, kf, kx, tableNames, changedName] at h1

theorem post_sound (fuel : Nat) :
    ∀ {h : Heap} (w : Wired h) (s : Id),
      (∀ a ∈ (post fuel h s).2, Anc h s a) ∧
      (∀ a ∈ (post fuel h s).1.dirty, a ∈ h.dirty ∨ Anc h s a) := by
  induction fuel with
  | zero => intro h w s; exact ⟨fun a ha => by simp [post] at ha, fun a ha => Or.inl ha⟩
  | succ fuel ih =>
    intro h w s
    unfold post
    split
    · rename_i c ks hc hk
      -- the observers are owners of s
      have hobs : ∀ r ∈ h.regs.filter (fun r => r.centre = c ∧ r.observable = s ∧ r.name = changedName ks ∧ r.observer ≠ s),
          h.ownerOf s = some r.observer := by
        intro r hr
        simp only [List.mem_filter, decide_eq_true_eq] at hr
        obtain ⟨hr0, _, h2, h3, h4⟩ := hr
        have := changed_observer_is_owner w hr0 (by rw [h2]; exact hk) h3 (by rw [h2]; exact h4)
        rw [h2] at this; exact this
      generalize (h.regs.filter _) = obs at hobs
      suffices H : ∀ (acc : Heap × List Id), (∀ i, acc.1.get i = h.get i) → acc.1.regs = h.regs →
          (∀ a ∈ acc.2, Anc h s a) → (∀ a ∈ acc.1.dirty, a ∈ h.dirty ∨ Anc h s a) →
          (∀ a ∈ (obs.foldl (fun (acc : Heap × List Id) r =>
            if h.kindOf r.observer = some .font ∧ ks = .layerSet ∧ ¬ acc.1.isDirty s then acc
            else
              let res := post fuel (acc.1.setDirty r.observer) r.observer
              (res.1, acc.2 ++ res.2)) acc).2, Anc h s a) ∧
          (∀ a ∈ (obs.foldl (fun (acc : Heap × List Id) r =>
            if h.kindOf r.observer = some .font ∧ ks = .layerSet ∧ ¬ acc.1.isDirty s then acc
            else
              let res := post fuel (acc.1.setDirty r.observer) r.observer
              (res.1, acc.2 ++ res.2)) acc).1.dirty, a ∈ h.dirty ∨ Anc h s a) from
        H (h, [s]) (fun i => rfl) rfl (fun a ha => by simp at ha; subst ha; exact Anc.refl _) (fun a ha => Or.inl ha)
      induction obs with
      | nil => intro acc _ _ h1 h2; exact ⟨h1, h2⟩
      | cons r rs ihr =>
        intro acc hg hrg h1 h2
        rw [List.foldl_cons]
        have hor := hobs r (by simp)
        apply ihr (fun r' hr' => hobs r' (by simp [hr']))
        · split
          · exact hg
          · intro i; simp [hg]
        · split
          · exact hrg
          · simp [hrg]
        · split
          · exact h1
          · intro a ha
            simp only [List.mem_append] at ha
            rcases ha with ha | ha
            · exact h1 a ha
            · have wacc : Wired (acc.1.setDirty r.observer) := wired_same w (fun i => by simp [hg]) (by simp [hrg])
              have := (ih wacc r.observer).1 a ha
              exact Anc.step hor (Anc.congr (h := acc.1.setDirty r.observer) (h' := h) (fun i => by simp [hg]) this)
        · split
          · exact h2
          · intro a ha
            have wacc : Wired (acc.1.setDirty r.observer) := wired_same w (fun i => by simp [hg]) (by simp [hrg])
            rcases (ih wacc r.observer).2 a ha with hd | hd
            · unfold Heap.setDirty at hd
              split at hd
              · exact h2 a hd
              · simp only [List.mem_cons] at hd
                rcases hd with hd | hd
                · subst hd; right; exact Anc.step hor (Anc.refl _)
                · exact h2 a hd
            · right
              exact Anc.step hor (Anc.congr (h := acc.1.setDirty r.observer) (h' := h) (fun i => by simp [hg]) hd)
    · exact ⟨fun a ha => by simp at ha, fun a ha => Or.inl ha⟩


/-! ### What removal leaves behind -/

/-- an object that points to no owner is mentioned by no registration, neither as observable nor as observer -/
theorem loose_unregistered {h : Heap} (w : Wired h) {x : Id} {n : Node} (e : h.get x = some n)
    (k : n.kind ≠ .font) (eo : owner n = none) : ∀ r ∈ h.regs, r.observable ≠ x ∧ r.observer ≠ x := by
  intro r hr
  have h1 := loose_no_regs w e k eo r hr
  refine ⟨h1, fun hx => ?_⟩
  have ok := w.regSound r hr
  have hox : h.ownerOf x = none := by rw [ownerOf_eq e]; exact eo
  rcases ok.2 with ⟨_, h2⟩ | ⟨_, h2⟩
  · exact h1 (by rw [← h2, hx])
  · rw [hx] at h2
    rcases h2 with h2 | ⟨_, h2⟩
    · -- the observable would be owned by x, and then has no centre
      have c := ok.1
      obtain ⟨ns, es, _⟩ := ownerOf_some h2
      obtain ⟨_, _, _, _, _, _, knf⟩ := owner_kind w.toStruct es (by rw [← ownerOf_eq es]; exact h2)
      have kx : h.kindOf x ≠ some .font := by rw [kindOf_eq e]; simpa using k
      simp only [centreOf, kindOf_eq es] at c
      rw [if_neg (by simpa using knf), ancOf_ne w.toStruct h2 kx, ancOf_none w.toStruct hox] at c
      cases c
    · have := ancOf_kind h2
      rw [kindOf_eq e] at this
      exact k (by simpa using this)

/-- without a dispatcher nothing is posted -/
theorem post_silent (fuel : Nat) (h : Heap) (x : Id) (hd : dispOf h x = none) : post fuel h x = (h, []) := by
  cases fuel with
  | zero => rfl
  | succ fuel => unfold post; simp [hd]

theorem ownerOf_removeChild_self {h : Heap} (w : Wired h) {g x : Id} (kg : h.kindOf g = some .glyph)
    (ho : h.ownerOf x = some g) : (removeChild h g x).ownerOf x = none ∧ x ∉ (removeChild h g x).kidsOf g := by
  have hgl := glyphOf_of_owner w.toStruct ho kg
  obtain ⟨n, en, eo⟩ := ownerOf_some ho
  have hxg : x ≠ g := fun e => by
    subst e
    obtain ⟨n1, np, en', _, ep, _, ha⟩ := ownerOf_node w.toStruct ho
    rw [en'] at ep; cases ep
    cases hk : n1.kind <;> simp [hk, allowed, Kind.isLeaf] at ha
  have knf : n.kind ≠ .font := by
    obtain ⟨_, _, _, _, _, _, knf⟩ := owner_kind w.toStruct en eo
    exact knf
  have gx : (removeChild h g x).get x = some n.cleared := by
    rw [show (removeChild h g x).get x = ((detachChild h g x).unlist g x).get x from by
      simp only [removeChild, get_mark, get_detachChild_unlist]]
    rw [get_unlist, if_neg (Ne.symm hxg), get_detachChild]
    simp [hgl, en]
  refine ⟨by rw [ownerOf_eq gx]; exact owner_cleared n knf, ?_⟩
  obtain ⟨ng, eg, _⟩ := kindOf_some kg
  have gg : (removeChild h g x).get g = some { ng with kids := ng.kids.filter (· ≠ x) } := by
    rw [show (removeChild h g x).get g = ((detachChild h g x).unlist g x).get g from by
      simp only [removeChild, get_mark, get_detachChild_unlist]]
    rw [get_unlist, if_pos rfl, get_detachChild]
    simp [hxg, eg]
  rw [kidsOf_eq gg]
  simp


/-- after a layer let go of a glyph object: the glyph and everything it owned point nowhere, the layer does not
list it any more -/
theorem killGlyph_detaches {h : Heap} (w : Wired h) {l g : Id} {ng : Node} (eg : h.get g = some ng)
    (kg : ng.kind = .glyph) (ho : h.ownerOf g = some l) (hc : dispOf h g ≠ none) :
    (∀ y, y = g ∨ h.ownerOf y = some g → (killGlyph h l g).ownerOf y = none) ∧ g ∉ (killGlyph h l g).kidsOf l := by
  have w' : WiredX [l] h := wired_mono w (fun d hd => by simp at hd)
  have hgl : g ≠ l := fun e => by
    subst e
    obtain ⟨n1, np, en', _, ep, _, ha⟩ := ownerOf_node w.toStruct ho
    rw [en'] at ep; cases ep
    cases hk : n1.kind <;> simp [hk, allowed, Kind.isLeaf] at ha
  have gch := (wired_endGlyph w' eg kg ho (by simp) (by simp [hgl])).2.1
  have kgg : h.kindOf g = some .glyph := by rw [kindOf_eq eg, kg]
  obtain ⟨_, nl, _, _, el, _, hal⟩ := ownerOf_node w.toStruct ho
  have kl : h.kindOf l = some .layer := by
    rw [kindOf_eq el]
    rename_i n1 _ _ _
    have : n1 = ng := by rw [eg] at *; simp_all
    subst this
    cases hk : nl.kind <;> simp [hk, kg, allowed, Kind.isLeaf] at hal ⊢
  have holg := layer_owner_not_glyph w.toStruct kl kgg
  refine ⟨fun y hy => ?_, ?_⟩
  · have hyl : y ≠ l := by
      rcases hy with e | e
      · rw [e]; exact hgl
      · intro e2; rw [e2] at e; exact holg e
    have gy : (killGlyph h l g).get y = (h.get y).map Node.cleared := by
      unfold killGlyph
      rw [get_unlist, if_neg (Ne.symm hyl), gch, if_pos ⟨hc, hy⟩]
    unfold Heap.ownerOf
    rw [gy]
    cases ey : h.get y with
    | none => rfl
    | some ny =>
      have kny : ny.kind ≠ .font := by
        rcases hy with e | e
        · subst e; rw [eg] at ey; cases ey; rw [kg]; simp
        · obtain ⟨_, _, _, _, _, _, knf⟩ := owner_kind w.toStruct ey (by rw [← ownerOf_eq ey]; exact e)
          exact knf
      simp [owner_cleared ny kny]
  · have gl : (killGlyph h l g).get l = some { nl with kids := nl.kids.filter (· ≠ g) } := by
      unfold killGlyph
      rw [get_unlist, if_pos rfl, gch, if_neg (by simp [Ne.symm hgl, holg]), el]; rfl
    rw [kidsOf_eq gl]
    simp


/-- what the glyphs of the layer owned is let go with them -/
theorem fold_stepL_grand {ds} {l s f : Id} (ks : List Id) (hnd : ks.Nodup) :
    ∀ h, WiredX (l :: ds) h → LayerCtx h l s f → l ∉ ks → s ∉ ks → f ∉ ks →
      (∀ k ∈ ks, h.ownerOf k = some l ∧ k ∉ l :: ds) →
      ∀ i, (∃ k ∈ ks, h.ownerOf i = some k) → (ks.foldl (stepL l) h).ownerOf i = none := by
  induction ks with
  | nil => intro h _ _ _ _ _ _ i hi; obtain ⟨k, hk, _⟩ := hi; simp at hk
  | cons k ks ih =>
    intro h w c hl hs hf hown i hi
    obtain ⟨hok, hkd⟩ := hown k (by simp)
    obtain ⟨w1, g1, r1⟩ := stepL_facts w c hok hkd
    have hkk : k ∉ ks := (List.nodup_cons.mp hnd).1
    have lk : l ≠ k := fun e => hl (by simp [e])
    have sk : s ≠ k := fun e => hs (by simp [e])
    have fk : f ≠ k := fun e => hf (by simp [e])
    have osk : h.ownerOf s ≠ some k := by rw [c.os]; intro e; cases e; exact fk rfl
    have olk : h.ownerOf l ≠ some k := by rw [c.ol]; intro e; cases e; exact sk rfl
    have ofk : h.ownerOf f ≠ some k := by rw [ownerOf_font c.kf]; simp
    have c1 : LayerCtx (stepL l h k) l s f :=
      c.transfer (by rw [g1]; simp [lk, olk]) (by rw [g1]; simp [sk, osk]) (by rw [g1]; simp [fk, ofk])
    have hown1 : ∀ k' ∈ ks, (stepL l h k).ownerOf k' = some l ∧ k' ∉ l :: ds := fun k' hk' => by
      obtain ⟨a, b⟩ := hown k' (by simp [hk'])
      have ne : k' ≠ k := fun e => hkk (e ▸ hk')
      have : h.ownerOf k' ≠ some k := by rw [a]; intro e; cases e; exact lk rfl
      refine ⟨?_, b⟩
      have e1 : (stepL l h k).get k' = h.get k' := by rw [g1]; simp [ne, this]
      simp only [Heap.ownerOf, e1]
      exact a
    rw [List.foldl_cons]
    obtain ⟨k0, hk0, hoi⟩ := hi
    rcases List.mem_cons.mp hk0 with rfl | hk0
    · -- owned by the head: cleared by this step, untouched afterwards
      obtain ⟨ni, ei, eo⟩ := ownerOf_some hoi
      have kni : ni.kind ≠ .font := by
        obtain ⟨_, _, _, _, _, _, knf⟩ := owner_kind w.toStruct ei eo
        exact knf
      have e1 : (stepL l h k0).get i = some ni.cleared := by rw [g1]; simp [hoi, ei]
      have o1 : (stepL l h k0).ownerOf i = none := by rw [ownerOf_eq e1]; exact owner_cleared ni kni
      have hik : i ∉ ks := fun hm => by
        have := (hown i (by simp [hm])).1
        rw [hoi] at this; cases this; exact lk rfl
      obtain ⟨_, _, g2, _⟩ := fold_stepL (s := s) (f := f) ks (List.nodup_cons.mp hnd).2 (stepL l h k0) w1 c1
        (fun hm => hl (by simp [hm])) (fun hm => hs (by simp [hm])) (fun hm => hf (by simp [hm])) hown1
      have := g2 i hik (fun k2 _ => by rw [o1]; simp)
      simp only [Heap.ownerOf, this]
      exact o1
    · -- owned by a later one: this step leaves it alone
      have hik : i ≠ k := fun e => by
        subst e; rw [hok] at hoi; cases hoi
        exact hl (by simp [hk0])
      have hoik : h.ownerOf i ≠ some k := by
        rw [hoi]; intro e; cases e; exact hkk hk0
      have e1 : (stepL l h k).get i = h.get i := by rw [g1]; simp [hik, hoik]
      refine ih (List.nodup_cons.mp hnd).2 (stepL l h k) w1 c1
        (fun hm => hl (by simp [hm])) (fun hm => hs (by simp [hm])) (fun hm => hf (by simp [hm])) hown1 i
        ⟨k0, hk0, by simp only [Heap.ownerOf, e1]; exact hoi⟩

/-- after a layer set let go of a layer: the layer, what it owned (glyph objects, lib) and what those glyphs owned
point to no owner; the layer set does not list the layer -/
theorem killLayer_detaches {h : Heap} (w : Wired h) {l s f : Id} (c : LayerCtx h l s f) :
    (∀ y, (y = l ∨ h.ownerOf y = some l ∨ ∃ k, h.ownerOf k = some l ∧ h.ownerOf y = some k) →
      (killLayer h s l).ownerOf y = none) ∧ l ∉ (killLayer h s l).kidsOf s := by
  rw [killLayer_eq]
  obtain ⟨nl, el, knl⟩ := kindOf_some c.kl
  obtain ⟨nS, eS, knS⟩ := kindOf_some c.ks
  have sf : h.storedFont s = some f := by
    have := c.os; rw [ownerOf_eq eS] at this
    simp only [owner, knS] at this
    simp [Heap.storedFont, eS, this]
  simp only [sf]
  let h0 := unobserve h l f (namesFor h f l)
  have g0 : ∀ i, h0.get i = h.get i := fun i => by simp [h0]
  have dl : dispOf h l = some f := by
    rw [disp_exact w.toStruct]; simp [centreOf, c.kl, c.centre w.toStruct]
  have d0 : dispOf h0 l = some f := by rw [dispOf_congr g0]; exact dl
  show (∀ y, _ → (match dispOf h0 l with
      | none => h0.unlist s l
      | some _ => (endSelf (((unobserve h0 l s (namesFor h0 s l)).kidsOf l).foldl (stepL l) (unobserve h0 l s (namesFor h0 s l))) l).unlist s l).ownerOf y = none) ∧
      l ∉ (match dispOf h0 l with
      | none => h0.unlist s l
      | some _ => (endSelf (((unobserve h0 l s (namesFor h0 s l)).kidsOf l).foldl (stepL l) (unobserve h0 l s (namesFor h0 s l))) l).unlist s l).kidsOf s
  rw [d0]
  simp only
  let h1 := unobserve h0 l s (namesFor h0 s l)
  have g1 : ∀ i, h1.get i = h.get i := fun i => by simp [h1, g0]
  have kids1 : h1.kidsOf l = nl.kids := by simp [Heap.kidsOf, g1, el]
  rw [kids1]
  have hls : l ≠ s := fun e => by have := c.kl; rw [e, c.ks] at this; cases this
  have kk : ∀ k, k ∈ nl.kids → h.kindOf k = some .glyph ∨ h.kindOf k = some .lib :=
    fun k hk => layer_kid_kind w.toStruct el knl hk
  have lks : l ∉ nl.kids := fun hm => by rcases kk l hm with e | e <;> (rw [c.kl] at e; cases e)
  have sks : s ∉ nl.kids := fun hm => by rcases kk s hm with e | e <;> (rw [c.ks] at e; cases e)
  have fks : f ∉ nl.kids := fun hm => by rcases kk f hm with e | e <;> (rw [c.kf] at e; cases e)
  have lalive : h.alive l := ⟨nl, el, Or.inr (by rw [← ownerOf_eq el, c.ol]; simp)⟩
  have regs1 : ∀ r ∈ h1.regs, r ∈ h.regs := fun r hr => (mem_unobserve (mem_unobserve hr).1).1
  have knf : nl.kind ≠ .font := by rw [knl]; simp
  have w1 : WiredX [l] h1 :=
    wired_mono (wired_regs w g1 (fun r hr => Or.inl (regs1 r hr))) (fun d hd => by simp at hd)
  have c1 : LayerCtx h1 l s f := c.transfer (g1 l) (g1 s) (g1 f)
  have hown : ∀ k ∈ nl.kids, h1.ownerOf k = some l ∧ k ∉ [l] := fun k hkm => by
    refine ⟨?_, ?_⟩
    · simp only [Heap.ownerOf, g1]
      exact w.down l k lalive (by simp) (by rw [kidsOf_eq el]; exact hkm)
    · have : k ≠ l := fun e => lks (e ▸ hkm)
      simp [this]
  obtain ⟨w2, o2, g2, r2⟩ := fold_stepL (s := s) (f := f) nl.kids (w.kidsNodup l nl el) h1 w1 c1 lks sks fks hown
  have o3 := fold_stepL_grand (s := s) (f := f) nl.kids (w.kidsNodup l nl el) h1 w1 c1 lks sks fks hown
  have ol1 : ∀ k ∈ nl.kids, h1.ownerOf l ≠ some k := fun k hkm => by
    simp only [Heap.ownerOf, g1]
    have := c.ol; simp only [Heap.ownerOf] at this; rw [this]
    intro e; cases e; exact sks hkm
  have e2l : (nl.kids.foldl (stepL l) h1).get l = some nl := by rw [g2 l lks ol1, g1, el]
  have os1 : ∀ k ∈ nl.kids, h1.ownerOf s ≠ some k := fun k hkm => by
    simp only [Heap.ownerOf, g1]
    have := c.os; simp only [Heap.ownerOf] at this; rw [this]
    intro e; cases e; exact fks hkm
  have e2s : (nl.kids.foldl (stepL l) h1).get s = some nS := by rw [g2 s sks os1, g1, eS]
  have e2l' : (List.foldl (stepL l) (unobserve h0 l s (namesFor h0 s l)) nl.kids).get l = some nl := e2l
  have e2s' : (List.foldl (stepL l) (unobserve h0 l s (namesFor h0 s l)) nl.kids).get s = some nS := e2s
  refine ⟨fun y hy => ?_, ?_⟩
  · have hys : y ≠ s := by
      rcases hy with e | e | ⟨k, e1, e2⟩
      · rw [e]; exact hls
      · intro e2; rw [e2, c.os] at e; cases e
        have := c.kf; rw [c.kl] at this; cases this
      · intro e3; rw [e3, c.os] at e2; cases e2
        -- the font would be owned by the layer
        rw [ownerOf_font c.kf] at e1; cases e1
    simp only [Heap.ownerOf, get_unlist, Ne.symm hys, if_false, get_endSelf]
    rcases hy with e | e | ⟨k, e1, e2⟩
    · subst e; simp [e2l', owner_cleared nl knf]
    · have hyl : y ≠ l := fun e2 => by
        subst e2; rw [c.ol] at e; cases e; exact hls rfl
      have hyk : y ∈ nl.kids := by
        obtain ⟨ny, ey, eo⟩ := ownerOf_some e
        have := w.up y ny l ey eo
        rw [kidsOf_eq el] at this; exact this
      have := o2 y hyk
      simp only [Ne.symm hyl, if_false]
      exact this
    · have hkk : k ∈ nl.kids := by
        obtain ⟨nk, ek, eo⟩ := ownerOf_some e1
        have := w.up k nk l ek eo
        rw [kidsOf_eq el] at this; exact this
      have hyl : y ≠ l := fun e3 => by
        subst e3; rw [c.ol] at e2; cases e2; exact sks hkk
      have := o3 y ⟨k, hkk, by simp only [Heap.ownerOf, g1]; exact e2⟩
      simp only [Ne.symm hyl, if_false]
      exact this
  · simp only [Heap.kidsOf, get_unlist, if_true, get_endSelf, if_neg hls, e2s', Option.map_some]
    simp

theorem owned_node {h : Heap} (w : Wired h) {x p : Id} {np : Node} (ho : h.ownerOf x = some p)
    (ep : h.get p = some np) : ∃ nx, h.get x = some nx ∧ allowed np.kind nx.kind = true := by
  obtain ⟨nx, np', ex, _, ep', _, ha⟩ := ownerOf_node w.toStruct ho
  rw [ep] at ep'; cases ep'
  exact ⟨nx, ex, ha⟩

end Parents
end DefconModel
