/-
Helper lemmas for C13 (M-Pen).
-/
import DefconModel.Pen
import DefconModel.Spec.Pen

namespace DefconModel
namespace Pen

variable {R : Type}

/-! ### sequencing -/

theorem runCore_append (skip : Bool) (a b : List (Ev R)) (s : PenSt R) :
    runCore skip (a ++ b) s = (runCore skip a s).bind (runCore skip b) := by
  induction a generalizing s with
  | nil => rfl
  | cons e es ih =>
    simp only [List.cons_append, runCore]
    cases h : stepCore skip s e with
    | error x => rfl
    | ok s' => simp [bind, Except.bind, ih]

theorem run_append (skip : Bool) (a b : List (Ev R)) (s : PenSt R) :
    run skip (a ++ b) s = (run skip a s).bind (run skip b) := by
  induction a generalizing s with
  | nil => rfl
  | cons e es ih =>
    simp only [List.cons_append, run]
    cases h : step skip s e with
    | error x => rfl
    | ok s' => simp [bind, Except.bind, ih]

@[simp] theorem effIdent_false (ids : List Ident) (o : Option Ident) : effIdent false ids o = o := by
  cases o <;> simp [effIdent]

@[simp] theorem claim_none (ids : List Ident) : claim ids none = .ok ids := rfl

theorem claim_some_of_not_mem {ids : List Ident} {i : Ident} (h : i ∉ ids) :
    claim ids (some i) = .ok (ids ++ [i]) := by simp [claim, h]

theorem claim_some_of_mem {ids : List Ident} {i : Ident} (h : i ∈ ids) :
    claim ids (some i) = .error .assertion := by simp [claim, h]

@[simp] theorem present_nil : present ([] : List (Option Ident)) = [] := rfl
@[simp] theorem present_none (l : List (Option Ident)) : present (none :: l) = present l := rfl
@[simp] theorem present_some (i : Ident) (l : List (Option Ident)) : present (some i :: l) = i :: present l := rfl
@[simp] theorem present_append (a b : List (Option Ident)) : present (a ++ b) = present a ++ present b := by
  simp [present]

/-- what a successful `claim` does to the registry -/
theorem claim_ok {ids ids' : List Ident} {o : Option Ident} (h : claim ids o = .ok ids') :
    ids' = ids ++ present [o] ∧ ∀ i, o = some i → i ∉ ids := by
  cases o with
  | none => simp [claim] at h; simp [h]
  | some i =>
    by_cases hm : i ∈ ids
    · simp [claim, hm] at h
    · simp [claim, hm] at h; simp [← h, hm]

/-! ### the point loop of one contour, `skipConflictingIdentifiers = False` -/

theorem point_eta (p : Point R) : ({ p with ident := p.ident } : Point R) = p := rfl

theorem runCore_points (pts : List (Point R)) (g : Glyph R) (c : Contour R)
    (h : (g.ids ++ present (pts.map (·.ident))).Nodup) :
    runCore false (pts.map .addPoint) ⟨g, some c⟩ =
      .ok ⟨{ g with ids := g.ids ++ present (pts.map (·.ident)) }, some { c with points := c.points ++ pts }⟩ := by
  induction pts generalizing g c with
  | nil => simp [runCore]
  | cons p ps ih =>
    simp only [List.map_cons, runCore, stepCore, penAddPoint, effIdent_false]
    cases hp : p.ident with
    | none =>
      simp only [claim_none, bind, Except.bind]
      have hp' : ({ p with ident := none } : Point R) = p := by rw [← hp]
      rw [hp']
      have := ih { g with ids := g.ids } { c with points := c.points ++ [p] } (by simpa [hp] using h)
      simpa [hp, List.append_assoc] using this
    | some i =>
      have hi : i ∉ g.ids := by
        intro hm
        simp only [List.map_cons, hp, present_some] at h
        have := (List.nodup_append.mp h).2.2 i hm i (by simp)
        exact this rfl
      simp only [claim_some_of_not_mem hi, bind, Except.bind]
      have hp' : ({ p with ident := some i } : Point R) = p := by rw [← hp]
      rw [hp']
      have := ih { g with ids := g.ids ++ [i] } { c with points := c.points ++ [p] }
        (by simpa [hp, List.append_assoc] using h)
      simpa [hp, List.append_assoc] using this

theorem contour_eta (c : Contour R) : (⟨c.ident, c.points⟩ : Contour R) = c := rfl

/-- one whole contour (`beginPath`, points, `endPath`) into a glyph without shallow contours -/
theorem runCore_contour (c : Contour R) (g : Glyph R) (h : (g.ids ++ present c.slots).Nodup) :
    runCore false (drawContour c) ⟨g, none⟩ =
      .ok ⟨{ g with contours := g.contours ++ [c], ids := g.ids ++ present c.slots }, none⟩ := by
  unfold drawContour
  simp only [runCore, stepCore, penBeginPath, effIdent_false]
  cases hc : c.ident with
  | none =>
    simp only [claim_none, bind, Except.bind]
    rw [runCore_append]
    have hn : (g.ids ++ present (c.points.map (·.ident))).Nodup := by
      simpa [Contour.slots, hc] using h
    have := runCore_points c.points { g with ids := g.ids } ⟨none, []⟩ hn
    simp only at this
    rw [this]
    simp only [Except.bind, runCore, stepCore, penEndPathCore, bind, List.nil_append]
    have hce : (⟨none, c.points⟩ : Contour R) = c := by rw [← hc]
    rw [hce]
    simp [Contour.slots, hc]
  | some i =>
    have hi : i ∉ g.ids := by
      intro hm
      simp only [Contour.slots, hc, present_some] at h
      exact (List.nodup_append.mp h).2.2 i hm i (by simp) rfl
    simp only [claim_some_of_not_mem hi, bind, Except.bind]
    rw [runCore_append]
    have hn : ((g.ids ++ [i]) ++ present (c.points.map (·.ident))).Nodup := by
      simpa [Contour.slots, hc, List.append_assoc] using h
    have := runCore_points c.points { g with ids := g.ids ++ [i] } ⟨some i, []⟩ hn
    simp only at this
    rw [this]
    simp only [Except.bind, runCore, stepCore, penEndPathCore, bind, List.nil_append]
    have hce : (⟨some i, c.points⟩ : Contour R) = c := by rw [← hc]
    rw [hce]
    simp [Contour.slots, hc, List.append_assoc]

theorem slotsOf_cons (c : Contour R) (cs : List (Contour R)) : slotsOf (c :: cs) = c.slots ++ slotsOf cs := by
  simp [slotsOf]

theorem runCore_contours (cs : List (Contour R)) (g : Glyph R) (h : (g.ids ++ present (slotsOf cs)).Nodup) :
    runCore false (cs.flatMap drawContour) ⟨g, none⟩ =
      .ok ⟨{ g with contours := g.contours ++ cs, ids := g.ids ++ present (slotsOf cs) }, none⟩ := by
  induction cs generalizing g with
  | nil => simp [runCore, slotsOf]
  | cons c cs ih =>
    simp only [List.flatMap_cons]
    rw [runCore_append]
    have h1 : (g.ids ++ present c.slots).Nodup := by
      rw [slotsOf_cons, present_append, ← List.append_assoc] at h
      exact (List.nodup_append.mp h).1
    rw [runCore_contour c g h1]
    simp only [Except.bind]
    have := ih { g with contours := g.contours ++ [c], ids := g.ids ++ present c.slots }
      (by simpa [slotsOf_cons, List.append_assoc] using h)
    rw [this]
    simp [slotsOf_cons, List.append_assoc]

theorem component_eta (k : Component R) : ({ k with ident := k.ident } : Component R) = k := rfl

theorem runCore_components (ks : List (Component R)) (g : Glyph R) (cur : Option (Contour R))
    (h : (g.ids ++ present (compSlots ks)).Nodup) :
    runCore false (ks.flatMap drawComponent) ⟨g, cur⟩ =
      .ok ⟨{ g with components := g.components ++ ks, ids := g.ids ++ present (compSlots ks) }, cur⟩ := by
  induction ks generalizing g with
  | nil => simp [runCore, compSlots]
  | cons k ks ih =>
    simp only [List.flatMap_cons, drawComponent, List.cons_append, List.nil_append, runCore, stepCore,
      penAddComponent, effIdent_false]
    cases hk : k.ident with
    | none =>
      simp only [claim_none, bind, Except.bind]
      have hk' : ({ k with ident := none } : Component R) = k := by rw [← hk]
      rw [hk']
      have := ih { g with ids := g.ids, components := g.components ++ [k] } (by simpa [compSlots, hk] using h)
      simp only [drawComponent] at this
      rw [this]
      simp [compSlots, hk, List.append_assoc]
    | some i =>
      have hi : i ∉ g.ids := by
        intro hm
        simp only [compSlots, List.map_cons, hk, present_some] at h
        exact (List.nodup_append.mp h).2.2 i hm i (by simp) rfl
      simp only [claim_some_of_not_mem hi, bind, Except.bind]
      have hk' : ({ k with ident := some i } : Component R) = k := by rw [← hk]
      rw [hk']
      have := ih { g with ids := g.ids ++ [i], components := g.components ++ [k] }
        (by simpa [compSlots, hk, List.append_assoc] using h)
      simp only [drawComponent] at this
      rw [this]
      simp [compSlots, hk, List.append_assoc]

/-- a whole outline drawn into a glyph without shallow contours -/
theorem runCore_outline (cs : List (Contour R)) (ks : List (Component R)) (g : Glyph R)
    (h : (g.ids ++ identsOf cs ks).Nodup) :
    runCore false (cs.flatMap drawContour ++ ks.flatMap drawComponent) ⟨g, none⟩ =
      .ok ⟨{ g with contours := g.contours ++ cs, components := g.components ++ ks,
                    ids := g.ids ++ identsOf cs ks }, none⟩ := by
  rw [runCore_append]
  have h1 : (g.ids ++ present (slotsOf cs)).Nodup := by
    rw [identsOf, present_append, ← List.append_assoc] at h
    exact (List.nodup_append.mp h).1
  rw [runCore_contours cs g h1]
  simp only [Except.bind]
  have := runCore_components ks { g with contours := g.contours ++ cs, ids := g.ids ++ present (slotsOf cs) } none
    (by simpa [identsOf, List.append_assoc] using h)
  rw [this]
  simp [identsOf, List.append_assoc]

/-! ### `run` = `runCore` on glyphs without shallow contours -/

theorem stepCore_shallow {skip : Bool} {s s' : PenSt R} {e : Ev R} (h : stepCore skip s e = .ok s') :
    s'.g.shallow = s.g.shallow := by
  cases e with
  | beginPath i =>
    simp only [stepCore, penBeginPath, bind, Except.bind] at h
    cases hc : claim s.g.ids (effIdent skip s.g.ids i) with
    | error x => simp [hc] at h
    | ok ids => simp [hc] at h; rw [← h]
  | addPoint p =>
    simp only [stepCore, penAddPoint] at h
    cases hcur : s.cur with
    | none => simp [hcur] at h
    | some c =>
      simp only [hcur, bind, Except.bind] at h
      cases hc : claim s.g.ids (effIdent skip s.g.ids p.ident) with
      | error x => simp [hc] at h
      | ok ids => simp [hc] at h; rw [← h]
  | endPath =>
    simp only [stepCore, penEndPathCore] at h
    cases hcur : s.cur with
    | none => simp [hcur] at h
    | some c => simp [hcur] at h; rw [← h]
  | addComponent k =>
    simp only [stepCore, penAddComponent, bind, Except.bind] at h
    cases hc : claim s.g.ids (effIdent skip s.g.ids k.ident) with
    | error x => simp [hc] at h
    | ok ids => simp [hc] at h; rw [← h]

theorem deepen_of_not_shallow {g : Glyph R} (h : g.shallow = none) : deepen g = .ok g := by
  simp [deepen, h]

theorem step_eq_stepCore {skip : Bool} {s : PenSt R} (h : s.g.shallow = none) (e : Ev R) :
    step skip s e = stepCore skip s e := by
  cases e with
  | endPath =>
    simp only [step, stepCore, penEndPathCore]
    cases s.cur with
    | none => rfl
    | some c => simp [deepen_of_not_shallow h, bind, Except.bind]
  | beginPath i => rfl
  | addPoint p => rfl
  | addComponent k => rfl

theorem run_eq_runCore (skip : Bool) (evs : List (Ev R)) (s : PenSt R) (h : s.g.shallow = none) :
    run skip evs s = runCore skip evs s := by
  induction evs generalizing s with
  | nil => rfl
  | cons e es ih =>
    simp only [run, runCore, step_eq_stepCore h]
    cases hs : stepCore skip s e with
    | error x => rfl
    | ok s' =>
      simp only [bind, Except.bind]
      exact ih s' (by rw [stepCore_shallow hs]; exact h)

/-! ### what a successful strict (`skip = False`) run says about identifiers -/

theorem evSlots_append (a b : List (Ev R)) : evSlots (a ++ b) = evSlots a ++ evSlots b := by
  induction a with
  | nil => rfl
  | cons e es ih => cases e <;> simp [evSlots, ih]

theorem evSlots_drawContour (c : Contour R) : evSlots (drawContour c) = c.slots := by
  unfold drawContour Contour.slots
  simp only [evSlots, evSlots_append]
  congr 1
  generalize c.points = pts
  induction pts with
  | nil => simp [evSlots]
  | cons p ps ih => simpa [evSlots] using ih

theorem evSlots_contours (cs : List (Contour R)) : evSlots (cs.flatMap drawContour) = slotsOf cs := by
  induction cs with
  | nil => rfl
  | cons c cs ih => simp [evSlots_append, evSlots_drawContour, slotsOf_cons, ih]

theorem evSlots_components (ks : List (Component R)) : evSlots (ks.flatMap drawComponent) = compSlots ks := by
  induction ks with
  | nil => rfl
  | cons k ks ih => simpa [drawComponent, evSlots, compSlots] using ih

theorem stepCore_false_ids {s s' : PenSt R} {e : Ev R} (h : stepCore false s e = .ok s') :
    s'.g.ids = s.g.ids ++ present (evSlots [e]) ∧ ∀ i ∈ present (evSlots [e]), i ∉ s.g.ids := by
  cases e with
  | beginPath i =>
    simp only [stepCore, penBeginPath, bind, Except.bind, effIdent_false] at h
    cases hc : claim s.g.ids i with
    | error x => simp [hc] at h
    | ok ids =>
      simp [hc] at h
      obtain ⟨h1, h2⟩ := claim_ok hc
      subst h
      refine ⟨by simpa [evSlots] using h1, ?_⟩
      intro j hj
      cases i with
      | none => simp [evSlots] at hj
      | some x => simp [evSlots] at hj; rw [hj]; exact h2 x rfl
  | addPoint p =>
    simp only [stepCore, penAddPoint] at h
    cases hcur : s.cur with
    | none => simp [hcur] at h
    | some c =>
      simp only [hcur, bind, Except.bind, effIdent_false] at h
      cases hc : claim s.g.ids p.ident with
      | error x => simp [hc] at h
      | ok ids =>
        simp [hc] at h
        obtain ⟨h1, h2⟩ := claim_ok hc
        subst h
        refine ⟨by simpa [evSlots] using h1, ?_⟩
        intro j hj
        cases hp : p.ident with
        | none => simp [evSlots, hp] at hj
        | some x => simp [evSlots, hp] at hj; rw [hj]; exact h2 x hp
  | endPath =>
    simp only [stepCore, penEndPathCore] at h
    cases hcur : s.cur with
    | none => simp [hcur] at h
    | some c => simp [hcur] at h; subst h; simp [evSlots]
  | addComponent k =>
    simp only [stepCore, penAddComponent, bind, Except.bind, effIdent_false] at h
    cases hc : claim s.g.ids k.ident with
    | error x => simp [hc] at h
    | ok ids =>
      simp [hc] at h
      obtain ⟨h1, h2⟩ := claim_ok hc
      subst h
      refine ⟨by simpa [evSlots] using h1, ?_⟩
      intro j hj
      cases hk : k.ident with
      | none => simp [evSlots, hk] at hj
      | some x => simp [evSlots, hk] at hj; rw [hj]; exact h2 x hk

/-- If a strict run succeeds, the registry grew by exactly the identifiers of the stream, and none of
them was used before or twice. -/
theorem runCore_false_ids {evs : List (Ev R)} {s s' : PenSt R} (h : runCore false evs s = .ok s')
    (hn : s.g.ids.Nodup) :
    s'.g.ids = s.g.ids ++ present (evSlots evs) ∧ (s.g.ids ++ present (evSlots evs)).Nodup := by
  induction evs generalizing s with
  | nil => simp [runCore] at h; subst h; simpa [evSlots] using hn
  | cons e es ih =>
    simp only [runCore, bind, Except.bind] at h
    cases hs : stepCore false s e with
    | error x => simp [hs] at h
    | ok s1 =>
      simp only [hs] at h
      obtain ⟨h1, h2⟩ := stepCore_false_ids hs
      have hn1 : s1.g.ids.Nodup := by
        rw [h1, List.nodup_append]
        refine ⟨hn, ?_, ?_⟩
        · cases e with
          | beginPath i => cases i <;> simp [evSlots]
          | addPoint p => cases hp : p.ident <;> simp [evSlots, hp]
          | endPath => simp [evSlots]
          | addComponent k => cases hk : k.ident <;> simp [evSlots, hk]
        · intro a ha b hb hab; subst hab; exact h2 a hb ha
      obtain ⟨h3, h4⟩ := ih h hn1
      have hsplit : evSlots (e :: es) = evSlots [e] ++ evSlots es := by
        have := evSlots_append [e] es
        simpa using this
      rw [hsplit, present_append, ← List.append_assoc, ← h1]
      exact ⟨h3, h4⟩

/-! ### shallow-loaded contours -/

theorem drawRawContour_eq (c : RawContour R) : drawRawContour c = drawContour c.toContour := by
  simp [drawRawContour, drawContour, RawContour.toContour, List.map_map, Function.comp_def]

theorem drawRaw_eq (raws : List (RawContour R)) :
    drawRaw raws = (raws.map RawContour.toContour).flatMap drawContour := by
  induction raws with
  | nil => rfl
  | cons c cs ih =>
    simp only [drawRaw, List.flatMap_cons, List.map_cons] at ih ⊢
    rw [drawRawContour_eq, ih]

@[simp] theorem toRaw_toContour (c : Contour R) : c.toRaw.toContour = c := by
  cases c with
  | mk i pts =>
    simp only [Contour.toRaw, RawContour.toContour, List.map_map]
    congr 1
    induction pts with
    | nil => rfl
    | cons p ps ih => simp [Point.toRaw, RawPoint.toPoint, ih]

theorem map_toRaw_toContour (cs : List (Contour R)) : (cs.map Contour.toRaw).map RawContour.toContour = cs := by
  induction cs with
  | nil => rfl
  | cons c cs ih => simp [ih]

/-- whatever form the contours are stored in, the glyph draws its outline, then its components -/
theorem draw_eq_outline (g : Glyph R) :
    g.draw = g.outline.flatMap drawContour ++ g.components.flatMap drawComponent := by
  unfold Glyph.draw Glyph.outline
  cases hs : g.shallow with
  | none => rfl
  | some raws =>
    cases raws with
    | nil => rfl
    | cons c cs => simp only [drawRaw_eq]

theorem releaseAll_cons (ids : List Ident) (x : Ident) (xs : List Ident) :
    releaseAll ids (x :: xs) = releaseAll (ids.erase x) xs := rfl

theorem nodup_releaseAll (ids xs : List Ident) (h : ids.Nodup) : (releaseAll ids xs).Nodup := by
  induction xs generalizing ids with
  | nil => exact h
  | cons x xs ih => rw [releaseAll_cons]; exact ih _ (h.erase x)

/-- handing over: releasing a reserved prefix of a duplicate-free registry leaves the rest -/
theorem releaseAll_append_left (S T : List Ident) (h : (S ++ T).Nodup) : releaseAll (S ++ T) S = T := by
  induction S with
  | nil => rfl
  | cons s S ih =>
    rw [releaseAll_cons]
    have : (s :: S ++ T).erase s = S ++ T := by simp
    rw [this]
    exact ih (by simpa using (List.nodup_cons.mp (by simpa using h)).2)

theorem rawIdents_eq (raws : List (RawContour R)) :
    rawIdents raws = present (slotsOf (raws.map RawContour.toContour)) := by
  induction raws with
  | nil => rfl
  | cons c cs ih =>
    simp only [rawIdents, List.flatMap_cons, List.map_cons, slotsOf_cons, present_append] at ih ⊢
    rw [ih]
    congr 1
    cases hc : c.identifier <;>
      simp [Contour.slots, RawContour.toContour, hc, present, List.filterMap_map, Function.comp_def,
        RawPoint.toPoint]

theorem deepen_ok {g : Glyph R} {raws : List (RawContour R)} (hs : g.shallow = some raws)
    (h : (releaseAll g.ids (rawIdents raws) ++ present (slotsOf (raws.map RawContour.toContour))).Nodup) :
    deepen g = .ok { g with shallow := none, contours := g.contours ++ raws.map RawContour.toContour,
                            ids := releaseAll g.ids (rawIdents raws) ++
                                   present (slotsOf (raws.map RawContour.toContour)) } := by
  unfold deepen
  simp only [hs, drawRaw_eq]
  have := runCore_contours (raws.map RawContour.toContour)
    { g with shallow := none, ids := releaseAll g.ids (rawIdents raws) } h
  simp only [bind, Except.bind, this]

/-- a successful deepening has exactly this result (the registry being a set) -/
theorem deepen_result {g g' : Glyph R} {raws : List (RawContour R)} (hs : g.shallow = some raws)
    (hn : g.ids.Nodup) (h : deepen g = .ok g') :
    (releaseAll g.ids (rawIdents raws) ++ present (slotsOf (raws.map RawContour.toContour))).Nodup ∧
    g' = { g with shallow := none, contours := g.contours ++ raws.map RawContour.toContour,
                  ids := releaseAll g.ids (rawIdents raws) ++
                         present (slotsOf (raws.map RawContour.toContour)) } := by
  have h0 := h
  unfold deepen at h
  simp only [hs, bind, Except.bind] at h
  cases hr : runCore false (drawRaw raws)
      ⟨{ g with shallow := none, ids := releaseAll g.ids (rawIdents raws) }, none⟩ with
  | error x => simp [hr] at h
  | ok s' =>
    have hnd := (runCore_false_ids hr (nodup_releaseAll _ _ hn)).2
    rw [drawRaw_eq, evSlots_contours] at hnd
    have hnd' : (releaseAll g.ids (rawIdents raws) ++
        present (slotsOf (raws.map RawContour.toContour))).Nodup := hnd
    refine ⟨hnd', ?_⟩
    rw [deepen_ok hs hnd'] at h0
    exact (Except.ok.inj h0).symm

/-! ### the loading pen -/

theorem appendRawPoint_snoc (l : List (RawContour R)) (c : RawContour R) (p : RawPoint R) :
    appendRawPoint (l ++ [c]) p = some (l ++ [{ c with points := c.points ++ [p] }]) := by
  induction l with
  | nil => rfl
  | cons a l ih =>
    cases l with
    | nil => simp [appendRawPoint]
    | cons b l' =>
      simp only [List.cons_append] at ih ⊢
      simp only [appendRawPoint, ih]
      rfl

theorem loadRun_append (a b : List (Ev R)) (g : Glyph R) :
    loadRun (a ++ b) g = (loadRun a g).bind (loadRun b) := by
  induction a generalizing g with
  | nil => rfl
  | cons e es ih =>
    simp only [List.cons_append, loadRun]
    cases h : loadStep g e with
    | error x => rfl
    | ok s' => simp [bind, Except.bind, ih]

theorem loadRun_points (pts : List (Point R)) (g : Glyph R) (l : List (RawContour R)) (rc : RawContour R)
    (hs : g.shallow = some (l ++ [rc])) (h : (g.ids ++ present (pts.map (·.ident))).Nodup) :
    loadRun (pts.map .addPoint) g =
      .ok { g with shallow := some (l ++ [{ rc with points := rc.points ++ pts.map Point.toRaw }]),
                   ids := g.ids ++ present (pts.map (·.ident)) } := by
  induction pts generalizing g rc with
  | nil =>
    simp only [List.map_nil, loadRun, List.append_nil, present_nil]
    cases g; simp_all
  | cons p ps ih =>
    simp only [List.map_cons, loadRun, loadStep]
    cases hp : p.ident with
    | none =>
      simp only [hs, Option.getD_some, appendRawPoint_snoc, bind, Except.bind]
      have := ih { g with shallow := some (l ++ [{ rc with points := rc.points ++ [⟨(p.x, p.y), p.seg, p.smooth, p.name, none⟩] }]) }
        { rc with points := rc.points ++ [⟨(p.x, p.y), p.seg, p.smooth, p.name, none⟩] } rfl
        (by simpa [hp] using h)
      rw [this]
      simp [Point.toRaw, hp, List.append_assoc]
    | some x =>
      have hx : x ∉ g.ids := by
        intro hm
        simp only [List.map_cons, hp, present_some] at h
        exact (List.nodup_append.mp h).2.2 x hm x (by simp) rfl
      simp only [hx, if_false, hs, Option.getD_some, appendRawPoint_snoc, bind, Except.bind]
      have := ih { g with shallow := some (l ++ [{ rc with points := rc.points ++ [⟨(p.x, p.y), p.seg, p.smooth, p.name, some x⟩] }]),
                          ids := g.ids ++ [x] }
        { rc with points := rc.points ++ [⟨(p.x, p.y), p.seg, p.smooth, p.name, some x⟩] } rfl
        (by simpa [hp, List.append_assoc] using h)
      rw [this]
      simp [Point.toRaw, hp, List.append_assoc]

theorem loadRun_contour (c : Contour R) (g : Glyph R) (h : (g.ids ++ present c.slots).Nodup) :
    loadRun (drawContour c) g =
      .ok { g with shallow := some (g.shallow.getD [] ++ [c.toRaw]), ids := g.ids ++ present c.slots } := by
  unfold drawContour
  simp only [loadRun, loadStep]
  cases hc : c.ident with
  | none =>
    have hpts : (g.ids ++ present (c.points.map (·.ident))).Nodup := by
      simpa [Contour.slots, hc] using h
    simp only [bind, Except.bind]
    rw [loadRun_append]
    rw [loadRun_points c.points { g with shallow := some (g.shallow.getD [] ++ [⟨none, []⟩]) } (g.shallow.getD []) ⟨none, []⟩ rfl hpts]
    simp [Except.bind, bind, loadRun, loadStep, Contour.toRaw, Contour.slots, hc]
  | some x =>
    have hx : x ∉ g.ids := by
      intro hm
      simp only [Contour.slots, hc, present_some] at h
      exact (List.nodup_append.mp h).2.2 x hm x (by simp) rfl
    have hpts : ((g.ids ++ [x]) ++ present (c.points.map (·.ident))).Nodup := by
      simpa [Contour.slots, hc, List.append_assoc] using h
    simp only [hx, if_false, bind, Except.bind]
    rw [loadRun_append]
    rw [loadRun_points c.points { g with shallow := some (g.shallow.getD [] ++ [⟨some x, []⟩]), ids := g.ids ++ [x] }
      (g.shallow.getD []) ⟨some x, []⟩ rfl hpts]
    simp [Except.bind, bind, loadRun, loadStep, Contour.toRaw, Contour.slots, hc, List.append_assoc]

theorem loadRun_contours (cs : List (Contour R)) (g : Glyph R) (l : List (RawContour R)) (hs : g.shallow = some l)
    (h : (g.ids ++ present (slotsOf cs)).Nodup) :
    loadRun (cs.flatMap drawContour) g =
      .ok { g with shallow := some (l ++ cs.map Contour.toRaw), ids := g.ids ++ present (slotsOf cs) } := by
  induction cs generalizing g l with
  | nil =>
    simp only [List.flatMap_nil, loadRun, List.map_nil, List.append_nil, slotsOf, present_nil]
    cases g; simp_all
  | cons c cs ih =>
    simp only [List.flatMap_cons]
    have h1 : (g.ids ++ present c.slots).Nodup := by
      rw [slotsOf_cons, present_append, ← List.append_assoc] at h
      exact (List.nodup_append.mp h).1
    rw [loadRun_append, loadRun_contour c g h1]
    simp only [Except.bind, hs, Option.getD_some]
    rw [ih _ (l ++ [c.toRaw]) rfl (by simpa [slotsOf_cons, List.append_assoc] using h)]
    simp [slotsOf_cons, List.append_assoc]

theorem loadRun_components (ks : List (Component R)) (g : Glyph R)
    (h : (g.ids ++ present (compSlots ks)).Nodup) :
    loadRun (ks.flatMap drawComponent) g =
      .ok { g with components := g.components ++ ks, ids := g.ids ++ present (compSlots ks) } := by
  induction ks generalizing g with
  | nil =>
    simp only [List.flatMap_nil, loadRun, compSlots, List.map_nil, present_nil, List.append_nil]
  | cons k ks ih =>
    simp only [List.flatMap_cons, drawComponent, List.cons_append, List.nil_append, loadRun, loadStep]
    cases hk : k.ident with
    | none =>
      simp only [claim_none, bind, Except.bind]
      have := ih { g with ids := g.ids, components := g.components ++ [k] } (by simpa [compSlots, hk] using h)
      simp only [drawComponent] at this
      rw [this]
      simp [compSlots, hk, List.append_assoc]
    | some i =>
      have hi : i ∉ g.ids := by
        intro hm
        simp only [compSlots, List.map_cons, hk, present_some] at h
        exact (List.nodup_append.mp h).2.2 i hm i (by simp) rfl
      simp only [claim_some_of_not_mem hi, bind, Except.bind]
      have := ih { g with ids := g.ids ++ [i], components := g.components ++ [k] }
        (by simpa [compSlots, hk, List.append_assoc] using h)
      simp only [drawComponent] at this
      rw [this]
      simp [compSlots, hk, List.append_assoc]

/-! ### registering anchors / guidelines -/

theorem claimAll_ok (ids : List Ident) (l : List (Option Ident)) (h : (ids ++ present l).Nodup) :
    claimAll ids l = .ok (ids ++ present l) := by
  induction l generalizing ids with
  | nil => simp [claimAll]
  | cons o r ih =>
    cases o with
    | none => simpa [claimAll, bind, Except.bind] using ih ids (by simpa using h)
    | some i =>
      have hi : i ∉ ids := by
        intro hm
        simp only [present_some] at h
        exact (List.nodup_append.mp h).2.2 i hm i (by simp) rfl
      simp only [claimAll, claim_some_of_not_mem hi, bind, Except.bind]
      rw [ih (ids ++ [i]) (by simpa [List.append_assoc] using h)]
      simp [List.append_assoc]

/-! ### explicit results of the three ways to obtain a glyph, and of copying -/

theorem build_outline (g : Glyph R) (cs : List (Contour R)) (ks : List (Component R)) (hs : g.shallow = none)
    (h : (g.ids ++ identsOf cs ks).Nodup) :
    build false (cs.flatMap drawContour ++ ks.flatMap drawComponent) g =
      .ok { g with contours := g.contours ++ cs, components := g.components ++ ks,
                   ids := g.ids ++ identsOf cs ks } := by
  unfold build
  rw [run_eq_runCore false _ ⟨g, none⟩ hs, runCore_outline cs ks g h]
  rfl

theorem nodup_left {a b : List Ident} (h : (a ++ b).Nodup) : a.Nodup := (List.nodup_append.mp h).1
theorem nodup_right {a b : List Ident} (h : (a ++ b).Nodup) : b.Nodup := (List.nodup_append.mp h).2.1

theorem releaseAll_nil (ids : List Ident) : releaseAll ids [] = ids := rfl

section Fresh
variable [OfNat R 0] [OfNat R 1]

theorem ofContent_fresh (n : Option String) (c : Content R) (h : c.Valid) :
    Glyph.ofContent (Glyph.fresh n) c =
      .ok { name := n, width := c.width, height := c.height, unicodes := c.unicodes, note := c.note,
            image := c.image, anchors := c.anchors, guidelines := c.guidelines, lib := c.lib, shallow := none,
            contours := c.contours, components := c.components, ids := c.allIdents } := by
  unfold Content.Valid Content.allIdents at h
  unfold Glyph.ofContent
  have h1 : (([] : List Ident) ++ present (c.guidelines.map (·.ident))).Nodup := by
    simpa using nodup_left (nodup_left h)
  have h2 : ((([] : List Ident) ++ present (c.guidelines.map (·.ident))) ++ present (c.anchors.map (·.ident))).Nodup := by
    simpa using nodup_left h
  simp only [Glyph.fresh, claimAll_ok _ _ h1, claimAll_ok _ _ h2, bind, Except.bind, Content.draw]
  rw [build_outline _ _ _ rfl (by simpa [List.append_assoc] using h)]
  simp [Content.allIdents, List.append_assoc]

theorem perm_load (S K G A : List Ident) : (S ++ K ++ G ++ A).Perm (G ++ A ++ (S ++ K)) := by
  have h1 : S ++ K ++ G ++ A = (S ++ K) ++ (G ++ A) := by simp [List.append_assoc]
  rw [h1]
  exact List.perm_append_comm

/-- after the hand-over the registry holds the same identifiers, the reserved ones moved to the end -/
theorem perm_handover (S T : List Ident) : (T ++ S).Perm (S ++ T) := List.perm_append_comm

theorem load_fresh (n : Option String) (c : Content R) (h : c.Valid) :
    Glyph.load (Glyph.fresh n) c =
      .ok { name := n, width := c.width, height := c.height, unicodes := c.unicodes, note := c.note,
            image := c.image, anchors := c.anchors, guidelines := c.guidelines, lib := c.lib,
            shallow := some (c.contours.map Contour.toRaw), contours := [], components := c.components,
            ids := present (slotsOf c.contours) ++ present (compSlots c.components) ++
                   present (c.guidelines.map (·.ident)) ++ present (c.anchors.map (·.ident)) } := by
  unfold Content.Valid Content.allIdents identsOf at h
  have hp := (perm_load (present (slotsOf c.contours)) (present (compSlots c.components))
    (present (c.guidelines.map (·.ident))) (present (c.anchors.map (·.ident)))).nodup_iff.mpr (by simpa using h)
  have hSKG := nodup_left hp
  have hSK := nodup_left hSKG
  have hS := nodup_left hSK
  unfold Glyph.load
  simp only [Content.draw]
  rw [loadRun_append]
  rw [loadRun_contours c.contours _ [] rfl (by simpa [Glyph.fresh] using hS)]
  simp only [Except.bind, List.nil_append]
  rw [loadRun_components c.components _ (by simpa [Glyph.fresh] using hSK)]
  simp only [bind, Except.bind, Glyph.fresh, List.nil_append]
  rw [claimAll_ok _ _ hSKG]
  simp only
  rw [claimAll_ok _ _ hp]

theorem copy_fresh (n : Option String) (src : Glyph R) (h : src.Valid) :
    copyData (Glyph.fresh n) src =
      .ok { name := n, width := src.width, height := src.height, unicodes := src.unicodes, note := src.note,
            image := src.image, anchors := src.anchors, guidelines := src.guidelines, lib := src.lib,
            shallow := none, contours := src.outline, components := src.components, ids := src.allIdents } := by
  unfold Glyph.Valid Glyph.allIdents at h
  unfold copyData
  have h1 : (([] : List Ident) ++ present (src.guidelines.map (·.ident))).Nodup := by
    simpa using nodup_left (nodup_left h)
  have h2 : (present (src.guidelines.map (·.ident)) ++ present (src.anchors.map (·.ident))).Nodup := nodup_left h
  simp only [Glyph.fresh, claimAll_ok _ _ h1, bind, Except.bind, List.reverse_nil, List.filterMap_nil,
    releaseAll_nil, List.nil_append, claimAll_ok _ _ h2, draw_eq_outline]
  rw [build_outline _ _ _ rfl (by simpa [List.append_assoc] using h)]
  simp [Glyph.allIdents, List.append_assoc]

end Fresh

/-! ### `skipConflictingIdentifiers = True`: nothing is rejected, conflicting identifiers are dropped -/

theorem dedupe_append (seen : List Ident) (a b : List (Option Ident)) :
    dedupe seen (a ++ b) = dedupe seen a ++ dedupe (seen ++ present (dedupe seen a)) b := by
  induction a generalizing seen with
  | nil => simp [dedupe]
  | cons o r ih =>
    cases o with
    | none => simp [dedupe, ih]
    | some i =>
      by_cases hi : i ∈ seen
      · simp [dedupe, hi, ih]
      · simp [dedupe, hi, ih, List.append_assoc]

theorem dedupe_length (seen : List Ident) (l : List (Option Ident)) : (dedupe seen l).length = l.length := by
  induction l generalizing seen with
  | nil => rfl
  | cons o r ih =>
    cases o with
    | none => simp [dedupe, ih]
    | some i => by_cases hi : i ∈ seen <;> simp [dedupe, hi, ih]

def Point.eraseId (p : Point R) : Point R := { p with ident := none }

theorem eraseIds_def (c : Contour R) : c.eraseIds = ⟨none, c.points.map Point.eraseId⟩ := rfl

theorem runCore_points_skip (pts : List (Point R)) (g : Glyph R) (c : Contour R) :
    ∃ pts' : List (Point R),
      runCore true (pts.map .addPoint) ⟨g, some c⟩ =
        .ok ⟨{ g with ids := g.ids ++ present (pts'.map (·.ident)) }, some { c with points := c.points ++ pts' }⟩ ∧
      pts'.map (·.ident) = dedupe g.ids (pts.map (·.ident)) ∧
      pts'.map Point.eraseId = pts.map Point.eraseId := by
  induction pts generalizing g c with
  | nil => exact ⟨[], by simp [runCore], by simp [dedupe], rfl⟩
  | cons p ps ih =>
    simp only [List.map_cons, runCore, stepCore, penAddPoint]
    cases hp : p.ident with
    | none =>
      obtain ⟨pts', h1, h2, h3⟩ := ih { g with ids := g.ids } { c with points := c.points ++ [p] }
      refine ⟨p :: pts', ?_, ?_, ?_⟩
      · simp only [effIdent, claim_none, bind, Except.bind]
        have hp' : ({ p with ident := none } : Point R) = p := by rw [← hp]
        rw [hp', h1]
        simp [hp, List.append_assoc]
      · simp [hp, dedupe, h2]
      · simp [h3]
    | some i =>
      by_cases hi : i ∈ g.ids
      · obtain ⟨pts', h1, h2, h3⟩ := ih { g with ids := g.ids } { c with points := c.points ++ [{ p with ident := none }] }
        refine ⟨{ p with ident := none } :: pts', ?_, ?_, ?_⟩
        · simp only [effIdent, hi, and_self, if_true, claim_none, bind, Except.bind]
          rw [h1]
          simp [List.append_assoc]
        · simp [dedupe, hi, h2]
        · simp [h3, Point.eraseId]
      · obtain ⟨pts', h1, h2, h3⟩ := ih { g with ids := g.ids ++ [i] } { c with points := c.points ++ [p] }
        refine ⟨p :: pts', ?_, ?_, ?_⟩
        · simp only [effIdent, hi, and_false, if_false, claim_some_of_not_mem hi, bind, Except.bind]
          have hp' : ({ p with ident := some i } : Point R) = p := by rw [← hp]
          rw [hp', h1]
          simp [hp, List.append_assoc]
        · simp [hp, dedupe, hi, h2]
        · simp [h3]

theorem runCore_contour_skip (c : Contour R) (g : Glyph R) :
    ∃ c' : Contour R,
      runCore true (drawContour c) ⟨g, none⟩ =
        .ok ⟨{ g with contours := g.contours ++ [c'], ids := g.ids ++ present c'.slots }, none⟩ ∧
      c'.slots = dedupe g.ids c.slots ∧ c'.eraseIds = c.eraseIds := by
  unfold drawContour
  simp only [runCore, stepCore, penBeginPath]
  cases hc : c.ident with
  | none =>
    obtain ⟨pts', h1, h2, h3⟩ := runCore_points_skip c.points { g with ids := g.ids } ⟨none, []⟩
    refine ⟨⟨none, pts'⟩, ?_, ?_, ?_⟩
    · simp only [effIdent, claim_none, bind, Except.bind]
      rw [runCore_append, h1]
      simp [Except.bind, runCore, stepCore, penEndPathCore, bind, Contour.slots]
    · simp [Contour.slots, hc, dedupe, h2]
    · simp [eraseIds_def, h3]
  | some i =>
    by_cases hi : i ∈ g.ids
    · obtain ⟨pts', h1, h2, h3⟩ := runCore_points_skip c.points { g with ids := g.ids } ⟨none, []⟩
      refine ⟨⟨none, pts'⟩, ?_, ?_, ?_⟩
      · simp only [effIdent, hi, and_self, if_true, claim_none, bind, Except.bind]
        rw [runCore_append, h1]
        simp [Except.bind, runCore, stepCore, penEndPathCore, bind, Contour.slots]
      · simp [Contour.slots, hc, dedupe, hi, h2]
      · simp [eraseIds_def, h3]
    · obtain ⟨pts', h1, h2, h3⟩ := runCore_points_skip c.points { g with ids := g.ids ++ [i] } ⟨some i, []⟩
      refine ⟨⟨some i, pts'⟩, ?_, ?_, ?_⟩
      · simp only [effIdent, hi, and_false, if_false, claim_some_of_not_mem hi, bind, Except.bind]
        rw [runCore_append, h1]
        simp [Except.bind, runCore, stepCore, penEndPathCore, bind, Contour.slots, List.append_assoc]
      · simp [Contour.slots, hc, dedupe, hi, h2]
      · simp [eraseIds_def, h3]

theorem runCore_contours_skip (cs : List (Contour R)) (g : Glyph R) :
    ∃ cs' : List (Contour R),
      runCore true (cs.flatMap drawContour) ⟨g, none⟩ =
        .ok ⟨{ g with contours := g.contours ++ cs', ids := g.ids ++ present (slotsOf cs') }, none⟩ ∧
      slotsOf cs' = dedupe g.ids (slotsOf cs) ∧ cs'.map Contour.eraseIds = cs.map Contour.eraseIds := by
  induction cs generalizing g with
  | nil => exact ⟨[], by simp [runCore, slotsOf], by simp [slotsOf, dedupe], rfl⟩
  | cons c cs ih =>
    obtain ⟨c', h1, h2, h3⟩ := runCore_contour_skip c g
    obtain ⟨cs', k1, k2, k3⟩ := ih { g with contours := g.contours ++ [c'], ids := g.ids ++ present c'.slots }
    refine ⟨c' :: cs', ?_, ?_, ?_⟩
    · simp only [List.flatMap_cons]
      rw [runCore_append, h1]
      simp only [Except.bind]
      rw [k1]
      simp [slotsOf_cons, List.append_assoc]
    · rw [slotsOf_cons, slotsOf_cons, dedupe_append, h2, k2, h2]
    · simp [h3, k3]

/-! ### affine maps over a commutative ring -/

section Ring
variable [Lean.Grind.CommRing R]

theorem Transform.apply_id (x y : R) : (Transform.id : Transform R).apply x y = (x, y) := by
  simp only [Transform.apply, Transform.id]
  ext <;> grind

/-- `t.transform u` is "first `u`, then `t`" -/
theorem Transform.transform_apply (t u : Transform R) (x y : R) :
    (t.transform u).apply x y = t.apply (u.apply x y).1 (u.apply x y).2 := by
  simp only [Transform.apply, Transform.transform]
  ext <;> grind

theorem Transform.ext' {a b : Transform R} (h1 : a.xx = b.xx) (h2 : a.xy = b.xy) (h3 : a.yx = b.yx)
    (h4 : a.yy = b.yy) (h5 : a.dx = b.dx) (h6 : a.dy = b.dy) : a = b := by
  cases a; cases b; simp_all

theorem Transform.id_transform (u : Transform R) : (Transform.id : Transform R).transform u = u := by
  apply Transform.ext' <;> simp only [Transform.transform, Transform.id] <;> grind

theorem Transform.transform_id (t : Transform R) : t.transform (Transform.id : Transform R) = t := by
  apply Transform.ext' <;> simp only [Transform.transform, Transform.id] <;> grind

theorem Transform.transform_assoc (a b c : Transform R) :
    (a.transform b).transform c = a.transform (b.transform c) := by
  apply Transform.ext' <;> simp only [Transform.transform] <;> grind

theorem Point.transform_id (p : Point R) : p.transform (Transform.id : Transform R) = p := by
  simp [Point.transform, Transform.apply_id]

theorem Point.transform_transform (t u : Transform R) (p : Point R) :
    p.transform (t.transform u) = (p.transform u).transform t := by
  simp [Point.transform, Transform.transform_apply]

theorem Contour.transform_id (c : Contour R) : c.transform (Transform.id : Transform R) = c := by
  cases c with
  | mk i pts =>
    simp only [Contour.transform]
    congr 1
    induction pts with
    | nil => rfl
    | cons p ps ih => simp [Point.transform_id, ih]

theorem Contour.transform_transform (t u : Transform R) (c : Contour R) :
    c.transform (t.transform u) = (c.transform u).transform t := by
  simp [Contour.transform, Point.transform_transform, List.map_map, Function.comp_def]

theorem map_transform_id (cs : List (Contour R)) : cs.map (Contour.transform (Transform.id : Transform R)) = cs := by
  induction cs with
  | nil => rfl
  | cons c cs ih => simp [Contour.transform_id, ih]

/-- a transformation changes coordinates only -/
theorem Contour.slots_transform (t : Transform R) (c : Contour R) : (c.transform t).slots = c.slots := by
  simp [Contour.slots, Contour.transform, Point.transform, List.map_map, Function.comp_def]

theorem transformEv_drawContour (t : Transform R) (c : Contour R) :
    (drawContour c).map (transformEv t) = drawContour (c.transform t) := by
  simp [drawContour, transformEv, Contour.transform, List.map_map, Function.comp_def]

end Ring

/-! ### the decomposing pen produces the flattened outline -/

section Ring
variable [Lean.Grind.CommRing R] [DecidableEq R]

theorem expandEvs_noComp (rec : String → Transform R → Option (List (Ev R))) (t : Transform R)
    (evs rest : List (Ev R)) (h : ∀ e ∈ evs, ∀ k, e ≠ .addComponent k) :
    expandEvs rec t (evs ++ rest) =
      (expandEvs rec t rest).map (evs.map (fun e => if t = Transform.id then e else transformEv t e) ++ ·) := by
  induction evs with
  | nil =>
    simp only [List.nil_append, List.map_nil]
    cases hx : expandEvs rec t rest <;> simp
  | cons e es ih =>
    have ih' := ih (fun e he => h e (List.mem_cons_of_mem _ he))
    have he := h e (by simp)
    by_cases ht : t = Transform.id
    · cases e with
      | addComponent k => exact absurd rfl (he k)
      | beginPath i => simp only [List.cons_append, expandEvs, ht, if_true] at ih' ⊢; rw [ih']; cases expandEvs rec Transform.id rest <;> simp
      | addPoint p => simp only [List.cons_append, expandEvs, ht, if_true] at ih' ⊢; rw [ih']; cases expandEvs rec Transform.id rest <;> simp
      | endPath => simp only [List.cons_append, expandEvs, ht, if_true] at ih' ⊢; rw [ih']; cases expandEvs rec Transform.id rest <;> simp
    · cases e with
      | addComponent k => exact absurd rfl (he k)
      | beginPath i => simp only [List.cons_append, expandEvs, ht, if_false, transformEv] at ih' ⊢; rw [ih']; cases expandEvs rec t rest <;> simp
      | addPoint p => simp only [List.cons_append, expandEvs, ht, if_false, transformEv] at ih' ⊢; rw [ih']; cases expandEvs rec t rest <;> simp
      | endPath => simp only [List.cons_append, expandEvs, ht, if_false, transformEv] at ih' ⊢; rw [ih']; cases expandEvs rec t rest <;> simp

theorem drawContour_noComp (cs : List (Contour R)) : ∀ e ∈ cs.flatMap drawContour, ∀ k, e ≠ .addComponent k := by
  intro e he k hk
  subst hk
  simp only [List.mem_flatMap] at he
  obtain ⟨c, _, hc⟩ := he
  simp [drawContour] at hc

theorem map_if_drawContours (t : Transform R) (cs : List (Contour R)) :
    (cs.flatMap drawContour).map (fun e => if t = Transform.id then e else transformEv t e) =
      (cs.map (Contour.transform t)).flatMap drawContour := by
  by_cases ht : t = Transform.id
  · subst ht
    simp [map_transform_id]
  · simp only [ht, if_false]
    induction cs with
    | nil => rfl
    | cons c cs ih => simp [transformEv_drawContour, ih]

theorem expandEvs_comps (rec1 : String → Transform R → Option (List (Ev R)))
    (rec2 : String → Transform R → Option (List (Contour R)))
    (hrec : ∀ b u, rec1 b u = (rec2 b u).map (·.flatMap drawContour)) (t : Transform R) (ks : List (Component R)) :
    expandEvs rec1 t (ks.flatMap drawComponent) =
      (flatten.flattenComps rec2 t ks).map (·.flatMap drawContour) := by
  induction ks with
  | nil => simp [expandEvs, flatten.flattenComps]
  | cons k ks ih =>
    simp only [List.flatMap_cons, drawComponent, List.cons_append, List.nil_append, flatten.flattenComps]
    by_cases ht : t = Transform.id
    · subst ht
      simp only [expandEvs, if_true, Transform.id_transform, hrec, ih]
      cases rec2 k.base k.t <;> cases flatten.flattenComps rec2 Transform.id ks <;> simp
    · simp only [expandEvs, ht, if_false, transformEv, hrec, ih]
      cases rec2 k.base (t.transform k.t) <;> cases flatten.flattenComps rec2 t ks <;> simp

/-- `DecomposeComponentPointPen.addComponent` hands the underlying glyph pen exactly the contours of the
recursively flattened base glyph -/
theorem expand_eq_flatten (fuel : Nat) (l : Layer R) (b : String) (t : Transform R) :
    expand fuel l b t = (flatten fuel l b t).map (·.flatMap drawContour) := by
  induction fuel generalizing b t with
  | zero => rfl
  | succ n ih =>
    simp only [expand, flatten]
    cases hb : AL.get? l b with
    | none => rfl
    | some g =>
      simp only
      rw [draw_eq_outline, expandEvs_noComp _ _ _ _ (drawContour_noComp g.outline),
        expandEvs_comps (expand n l) (flatten n l) (fun b u => ih b u), map_if_drawContours]
      cases flatten.flattenComps (flatten n l) t g.components <;> simp

end Ring

/-! ### flattening: meaning, fuel, acyclic layers -/

section Ring
variable [Lean.Grind.CommRing R]

theorem flattenComps_map (rec : String → Transform R → Option (List (Contour R))) (t : Transform R)
    (ks : List (Component R))
    (h : ∀ k ∈ ks, rec k.base (t.transform k.t) =
      (rec k.base ((Transform.id : Transform R).transform k.t)).map (·.map (Contour.transform t))) :
    flatten.flattenComps rec t ks =
      (flatten.flattenComps rec (Transform.id : Transform R) ks).map (·.map (Contour.transform t)) := by
  induction ks with
  | nil => simp [flatten.flattenComps]
  | cons k ks ih =>
    have ih' := ih (fun k hk => h k (List.mem_cons_of_mem _ hk))
    simp only [flatten.flattenComps, h k (by simp), ih']
    cases rec k.base ((Transform.id : Transform R).transform k.t) <;>
      cases flatten.flattenComps rec (Transform.id : Transform R) ks <;> simp

/-- The flattened outline under `t` is the flattened outline itself, mapped through `t`: nested
transformations compose. -/
theorem flatten_transform (fuel : Nat) (l : Layer R) (b : String) (t : Transform R) :
    flatten fuel l b t = (flatten fuel l b (Transform.id : Transform R)).map (·.map (Contour.transform t)) := by
  induction fuel generalizing b t with
  | zero => rfl
  | succ n ih =>
    simp only [flatten]
    cases hb : AL.get? l b with
    | none => rfl
    | some g =>
      simp only
      have hk : ∀ k ∈ g.components, flatten n l k.base (t.transform k.t) =
          (flatten n l k.base ((Transform.id : Transform R).transform k.t)).map (·.map (Contour.transform t)) := by
        intro k _
        rw [ih k.base (t.transform k.t), Transform.id_transform, ih k.base k.t]
        cases flatten n l k.base (Transform.id : Transform R) with
        | none => rfl
        | some cs =>
          simp only [Option.map_some, List.map_map]
          congr 1
          apply List.map_congr_left
          intro c _
          simp [Contour.transform_transform]
      rw [flattenComps_map (flatten n l) t g.components hk]
      cases flatten.flattenComps (flatten n l) (Transform.id : Transform R) g.components with
      | none => rfl
      | some sub => simp [map_transform_id]

end Ring

section Arith
variable [Add R] [Mul R] [OfNat R 0] [OfNat R 1]

theorem flattenComps_some_of (rec : String → Transform R → Option (List (Contour R))) (t : Transform R)
    (ks : List (Component R)) (h : ∀ k ∈ ks, ∀ u, (rec k.base u).isSome) :
    (flatten.flattenComps rec t ks).isSome := by
  induction ks with
  | nil => simp [flatten.flattenComps]
  | cons k ks ih =>
    have h1 := h k (by simp) (t.transform k.t)
    have h2 := ih (fun k hk => h k (List.mem_cons_of_mem _ hk))
    simp only [flatten.flattenComps]
    cases ha : rec k.base (t.transform k.t) with
    | none => simp [ha] at h1
    | some a =>
      cases hb : flatten.flattenComps rec t ks with
      | none => simp [hb] at h2
      | some b => simp

/-- acyclic references: fuel above the rank of the glyph always suffices -/
theorem flatten_isSome_of_acyclic {l : Layer R} {rank : String → Nat} (hac : Acyclic l rank)
    (fuel : Nat) (b : String) (t : Transform R) (h : rank b < fuel) : (flatten fuel l b t).isSome := by
  induction fuel generalizing b t with
  | zero => omega
  | succ n ih =>
    simp only [flatten]
    cases hb : AL.get? l b with
    | none => simp
    | some g =>
      simp only
      have := flattenComps_some_of (flatten n l) t g.components
        (fun k hk u => ih k.base u (by have := hac b g hb k hk; omega))
      cases hf : flatten.flattenComps (flatten n l) t g.components with
      | none => simp [hf] at this
      | some sub => simp

theorem flattenComps_congr (rec1 rec2 : String → Transform R → Option (List (Contour R))) (t : Transform R)
    (ks : List (Component R)) (r : List (Contour R))
    (h : ∀ b u x, rec1 b u = some x → rec2 b u = some x)
    (h1 : flatten.flattenComps rec1 t ks = some r) : flatten.flattenComps rec2 t ks = some r := by
  induction ks generalizing r with
  | nil => simpa [flatten.flattenComps] using h1
  | cons k ks ih =>
    simp only [flatten.flattenComps] at h1 ⊢
    cases ha : rec1 k.base (t.transform k.t) with
    | none => simp [ha] at h1
    | some a =>
      cases hb : flatten.flattenComps rec1 t ks with
      | none => simp [ha, hb] at h1
      | some b =>
        simp only [ha, hb] at h1
        rw [h _ _ _ ha, ih b hb]
        exact h1

/-- more fuel never changes a result -/
theorem flatten_fuel_succ (fuel : Nat) (l : Layer R) (b : String) (t : Transform R) (r : List (Contour R))
    (h : flatten fuel l b t = some r) : flatten (fuel + 1) l b t = some r := by
  induction fuel generalizing b t r with
  | zero => simp [flatten] at h
  | succ n ih =>
    simp only [flatten] at h ⊢
    cases hb : AL.get? l b with
    | none => simpa [hb] using h
    | some g =>
      simp only [hb] at h ⊢
      cases hf : flatten.flattenComps (flatten n l) t g.components with
      | none => simp [hf] at h
      | some sub =>
        simp only [hf] at h
        have := flattenComps_congr (flatten n l) (flatten (n + 1) l) t g.components sub
          (fun b u x hx => ih b u x hx) hf
        simp only [flatten] at this
        rw [this]
        exact h

end Arith

theorem nodup_dedupe (seen : List Ident) (l : List (Option Ident)) (h : seen.Nodup) :
    (seen ++ present (dedupe seen l)).Nodup := by
  induction l generalizing seen with
  | nil => simpa [dedupe] using h
  | cons o r ih =>
    cases o with
    | none => simpa [dedupe] using ih seen h
    | some i =>
      by_cases hi : i ∈ seen
      · simpa [dedupe, hi] using ih seen h
      · have h' : (seen ++ [i]).Nodup := by
          rw [List.nodup_append]
          refine ⟨h, by simp, ?_⟩
          intro a ha b hb hab
          simp at hb
          subst hb; subst hab
          exact hi ha
        simpa [dedupe, hi, List.append_assoc] using ih (seen ++ [i]) h'

@[simp] theorem map_toContour_comp_toRaw (cs : List (Contour R)) :
    cs.map (RawContour.toContour ∘ Contour.toRaw) = cs := by
  rw [← List.map_map]; exact map_toRaw_toContour cs

theorem outline_of_shallow {g : Glyph R} {raws : List (RawContour R)} (hs : g.shallow = some raws)
    (hinv : g.contours = []) : g.outline = raws.map RawContour.toContour := by
  cases raws with
  | nil => simp [Glyph.outline, hs, hinv]
  | cons c cs => simp [Glyph.outline, hs]

/-! ### segment pens -/

section Seg
variable [DecidableEq R]

/-- what `SegmentToPointPen` remembers of a point -/
def Point.core (p : Point R) : (R × R) × Option Seg := (p.pt, p.seg)

/-- the entries the drawing calls append to `SegmentToPointPen.contour` -/
def accum : List (SegEv R) → List ((R × R) × Option Seg)
  | [] => []
  | .lineTo p :: r => (p, some .line) :: accum r
  | .curveTo offs l :: r => offs.map (·, none) ++ [(l, some .curve)] ++ accum r
  | .qCurveTo offs (some l) :: r => offs.map (·, none) ++ [(l, some .qcurve)] ++ accum r
  | _ :: r => accum r

/-- only lineTo / curveTo / qCurveTo-with-endpoint calls -/
def drawOnly : List (SegEv R) → Bool
  | [] => true
  | .lineTo _ :: r => drawOnly r
  | .curveTo _ _ :: r => drawOnly r
  | .qCurveTo _ (some _) :: r => drawOnly r
  | _ :: _ => false

theorem stpRun_drawOnly (evs tl : List (SegEv R)) (c : List ((R × R) × Option Seg)) (h : drawOnly evs = true) :
    stpRun (some c) (evs ++ tl) = stpRun (some (c ++ accum evs)) tl := by
  induction evs generalizing c with
  | nil => simp [accum]
  | cons e es ih =>
    cases e with
    | lineTo p =>
      simp only [List.cons_append, stpRun, stpStep, drawOnly, accum] at h ⊢
      rw [ih _ h]; simp
    | curveTo offs l =>
      simp only [List.cons_append, stpRun, stpStep, drawOnly, accum] at h ⊢
      rw [ih _ h]; simp [List.append_assoc]
    | qCurveTo offs l =>
      cases l with
      | none => simp [drawOnly] at h
      | some l =>
        simp only [List.cons_append, stpRun, stpStep, drawOnly, accum] at h ⊢
        rw [ih _ h]; simp [List.append_assoc]
    | moveTo p => simp [drawOnly] at h
    | closePath => simp [drawOnly] at h
    | endPath => simp [drawOnly] at h
    | addComponent b t => simp [drawOnly] at h

theorem core_of_off {a : Point R} (h : a.seg = none) : a.core = (a.pt, none) := by simp [Point.core, h]

theorem map_core_off (acc : List (Point R)) (h : ∀ a ∈ acc, a.seg = none) :
    acc.map Point.core = (acc.map Point.pt).map (·, none) := by
  induction acc with
  | nil => rfl
  | cons a r ih =>
    simp only [List.map_cons, List.mem_cons, forall_eq_or_imp] at h ⊢
    rw [core_of_off h.1, ih h.2]

/-- open paths: every segment is emitted, the pen accumulates exactly the points walked over -/
theorem emit_open (l acc : List (Point R)) (last : Option (R × R)) (hacc : ∀ a ∈ acc, a.seg = none)
    (hok : segsOK (!acc.isEmpty) l = true) :
    ∃ evs, emitSegs false last (groupSegs l acc) = some evs ∧ drawOnly evs = true ∧
      accum evs = (acc ++ l).map Point.core := by
  induction l generalizing acc last with
  | nil =>
    cases acc with
    | nil => exact ⟨[], rfl, rfl, rfl⟩
    | cons a r => simp [segsOK] at hok
  | cons p ps ih =>
    cases hp : p.seg with
    | none =>
      simp only [segsOK, hp] at hok
      obtain ⟨evs, h1, h2, h3⟩ := ih (acc ++ [p]) last
        (by intro a ha; simp at ha; rcases ha with ha | ha; exact hacc a ha; rw [ha]; exact hp)
        (by have e : (!(acc ++ [p]).isEmpty) = true := by cases acc <;> rfl
            rw [e]; exact hok)
      exact ⟨evs, by simp only [groupSegs, hp]; exact h1, h2, by simpa [List.append_assoc] using h3⟩
    | some s =>
      cases s with
      | move => simp [segsOK, hp] at hok
      | line =>
        simp only [segsOK, hp, Bool.and_eq_true, Bool.not_eq_true', Bool.not_eq_false'] at hok
        have hnil : acc = [] := by
          cases acc with
          | nil => rfl
          | cons a r => simp at hok
        subst hnil
        obtain ⟨evs, h1, h2, h3⟩ := ih [] (some p.pt) (by simp) (by simpa using hok.2)
        refine ⟨.lineTo p.pt :: evs, ?_, by simpa [drawOnly] using h2, ?_⟩
        · simp only [groupSegs, hp, List.nil_append, emitSegs, List.reverse_cons, List.reverse_nil]
          simp [h1]
        · simp [accum, h3, Point.core, hp]
      | curve =>
        simp only [segsOK, hp] at hok
        obtain ⟨evs, h1, h2, h3⟩ := ih [] (some p.pt) (by simp) (by simpa using hok)
        refine ⟨.curveTo (acc.map Point.pt) p.pt :: evs, ?_, by simpa [drawOnly] using h2, ?_⟩
        · simp only [groupSegs, hp, emitSegs, List.reverse_append, List.reverse_cons, List.reverse_nil,
            List.nil_append, List.singleton_append, List.reverse_reverse]
          simp [h1]
        · simp [accum, h3, map_core_off acc hacc, Point.core, hp, List.append_assoc]
      | qcurve =>
        simp only [segsOK, hp] at hok
        obtain ⟨evs, h1, h2, h3⟩ := ih [] (some p.pt) (by simp) (by simpa using hok)
        refine ⟨.qCurveTo (acc.map Point.pt) (some p.pt) :: evs, ?_, by simpa [drawOnly] using h2, ?_⟩
        · simp only [groupSegs, hp, emitSegs, List.reverse_append, List.reverse_cons, List.reverse_nil,
            List.nil_append, List.singleton_append, List.reverse_reverse]
          simp [h1]
        · simp [accum, h3, map_core_off acc hacc, Point.core, hp, List.append_assoc]

end Seg

section Seg
variable [DecidableEq R]

/-- the current point after walking over `l` (the last on-curve point met, else the initial one) -/
def lastOn : List (Point R) → Option (R × R) → Option (R × R)
  | [], last => last
  | p :: ps, last => lastOn ps (if p.seg.isSome then some p.pt else last)

theorem groupSegs_snoc_ne_nil (l acc : List (Point R)) (P : Point R) (s : Seg) (hP : P.seg = some s) :
    groupSegs (l ++ [P]) acc ≠ [] := by
  induction l generalizing acc with
  | nil => simp [groupSegs, hP]
  | cons p ps ih =>
    cases hp : p.seg with
    | none => simpa [groupSegs, hp] using ih (acc ++ [p])
    | some s' => simp [groupSegs, hp]

/-- closed paths: all segments but possibly the closing `line` are emitted -/
theorem emit_closed (P : Point R) (sP : Seg) (hP : P.seg = some sP) (l acc : List (Point R))
    (last : Option (R × R)) (hacc : ∀ a ∈ acc, a.seg = none)
    (hok : segsOK (!acc.isEmpty) (l ++ [P]) = true) :
    ∃ evs, emitSegs true last (groupSegs (l ++ [P]) acc) = some evs ∧ drawOnly evs = true ∧
      accum evs = (acc ++ l).map Point.core ++
        (if sP = .line ∧ some P.pt ≠ lastOn l last then [] else [P.core]) := by
  induction l generalizing acc last with
  | nil =>
    cases sP with
    | move => simp [segsOK, hP] at hok
    | line =>
      simp only [List.nil_append, segsOK, hP, Bool.and_eq_true, Bool.not_eq_true', Bool.not_eq_false'] at hok
      have hnil : acc = [] := by
        cases acc with
        | nil => rfl
        | cons a r => simp at hok
      subst hnil
      by_cases he : some P.pt = last
      · refine ⟨[.lineTo P.pt], ?_, rfl, ?_⟩
        · simp [groupSegs, hP, emitSegs, he]
        · simp [accum, lastOn, he, Point.core, hP]
      · refine ⟨[], ?_, rfl, ?_⟩
        · simp [groupSegs, hP, emitSegs, he]
        · simp [accum, lastOn, he]
    | curve =>
      refine ⟨[.curveTo (acc.map Point.pt) P.pt], ?_, rfl, ?_⟩
      · simp [groupSegs, hP, emitSegs]
      · simp [accum, map_core_off acc hacc, Point.core, hP]
    | qcurve =>
      refine ⟨[.qCurveTo (acc.map Point.pt) (some P.pt)], ?_, rfl, ?_⟩
      · simp [groupSegs, hP, emitSegs]
      · simp [accum, map_core_off acc hacc, Point.core, hP]
  | cons p ps ih =>
    cases hp : p.seg with
    | none =>
      simp only [List.cons_append, segsOK, hp] at hok
      obtain ⟨evs, h1, h2, h3⟩ := ih (acc ++ [p]) last
        (by intro a ha; simp at ha; rcases ha with ha | ha; exact hacc a ha; rw [ha]; exact hp)
        (by have e : (!(acc ++ [p]).isEmpty) = true := by cases acc <;> rfl
            rw [e]; exact hok)
      refine ⟨evs, by simp only [List.cons_append, groupSegs, hp]; exact h1, h2, ?_⟩
      simpa [List.append_assoc, lastOn, hp] using h3
    | some s =>
      have hne := groupSegs_snoc_ne_nil ps [] P sP hP
      cases s with
      | move => simp [segsOK, hp] at hok
      | line =>
        simp only [List.cons_append, segsOK, hp, Bool.and_eq_true, Bool.not_eq_true', Bool.not_eq_false'] at hok
        have hnil : acc = [] := by
          cases acc with
          | nil => rfl
          | cons a r => simp at hok
        subst hnil
        obtain ⟨evs, h1, h2, h3⟩ := ih [] (some p.pt) (by simp) (by simpa using hok.2)
        refine ⟨.lineTo p.pt :: evs, ?_, by simpa [drawOnly] using h2, ?_⟩
        · simp only [List.cons_append, groupSegs, hp, List.nil_append, emitSegs, List.reverse_cons, List.reverse_nil]
          simp [h1, hne]
        · simp [accum, h3, Point.core, hp, lastOn]
      | curve =>
        simp only [List.cons_append, segsOK, hp] at hok
        obtain ⟨evs, h1, h2, h3⟩ := ih [] (some p.pt) (by simp) (by simpa using hok)
        refine ⟨.curveTo (acc.map Point.pt) p.pt :: evs, ?_, by simpa [drawOnly] using h2, ?_⟩
        · simp only [List.cons_append, groupSegs, hp, emitSegs, List.reverse_append, List.reverse_cons,
            List.reverse_nil, List.nil_append, List.singleton_append, List.reverse_reverse]
          simp [h1]
        · simp [accum, h3, map_core_off acc hacc, Point.core, hp, List.append_assoc, lastOn]
      | qcurve =>
        simp only [List.cons_append, segsOK, hp] at hok
        obtain ⟨evs, h1, h2, h3⟩ := ih [] (some p.pt) (by simp) (by simpa using hok)
        refine ⟨.qCurveTo (acc.map Point.pt) (some p.pt) :: evs, ?_, by simpa [drawOnly] using h2, ?_⟩
        · simp only [List.cons_append, groupSegs, hp, emitSegs, List.reverse_append, List.reverse_cons,
            List.reverse_nil, List.nil_append, List.singleton_append, List.reverse_reverse]
          simp [h1]
        · simp [accum, h3, map_core_off acc hacc, Point.core, hp, List.append_assoc, lastOn]

end Seg

section Seg
variable [DecidableEq R]

theorem strip_eq (p : Point R) : p.strip = ⟨p.x, p.y, p.seg, false, none, none⟩ := rfl

theorem stpFlush_core (l : List (Point R)) :
    stpFlush (l.map Point.core) = drawContour ⟨none, l.map Point.strip⟩ := by
  simp [stpFlush, drawContour, List.map_map, Function.comp_def, Point.core, Point.pt, strip_eq]

theorem firstOn_none {pts : List (Point R)} (h : firstOn pts = none) : ∀ a ∈ pts, a.seg = none := by
  induction pts with
  | nil => simp
  | cons p ps ih =>
    simp only [firstOn] at h
    cases hp : p.seg with
    | some s => simp [hp] at h
    | none =>
      simp only [hp, Option.isSome_none, Bool.false_eq_true, if_false, Option.map_eq_none_iff] at h
      intro a ha
      simp at ha
      rcases ha with ha | ha
      · rw [ha]; exact hp
      · exact ih h a ha

theorem firstOn_some {pts : List (Point R)} {i : Nat} (h : firstOn pts = some i) :
    ∃ offs P after, pts = offs ++ P :: after ∧ offs.length = i ∧ (∀ a ∈ offs, a.seg = none) ∧
      P.seg.isSome = true := by
  induction pts generalizing i with
  | nil => simp [firstOn] at h
  | cons p ps ih =>
    simp only [firstOn] at h
    by_cases hp : p.seg.isSome = true
    · simp only [hp, if_true, Option.some.injEq] at h
      exact ⟨[], p, ps, rfl, by simp [← h], by simp, hp⟩
    · simp only [hp, Bool.false_eq_true, if_false, Option.map_eq_some_iff] at h
      obtain ⟨j, hj, rfl⟩ := h
      obtain ⟨offs, P, after, h1, h2, h3, h4⟩ := ih hj
      refine ⟨p :: offs, P, after, by simp [h1], by simp [h2], ?_, h4⟩
      intro a ha
      simp at ha
      rcases ha with ha | ha
      · rw [ha]; cases hps : p.seg <;> simp_all
      · exact h3 a ha

theorem groupSegs_no_move (l acc : List (Point R)) (b : Bool) (hok : segsOK b l = true) :
    ∀ sg ∈ groupSegs l acc, sg.1 ≠ Seg.move := by
  induction l generalizing acc b with
  | nil => simp [groupSegs]
  | cons p ps ih =>
    cases hp : p.seg with
    | none =>
      simp only [segsOK, hp] at hok
      simpa [groupSegs, hp] using ih (acc ++ [p]) true hok
    | some s =>
      cases s with
      | move => simp [segsOK, hp] at hok
      | line =>
        simp only [segsOK, hp, Bool.and_eq_true] at hok
        intro sg hsg
        simp only [groupSegs, hp, List.mem_cons] at hsg
        rcases hsg with hsg | hsg
        · rw [hsg]; simp
        · exact ih [] false hok.2 sg hsg
      | curve =>
        simp only [segsOK, hp] at hok
        intro sg hsg
        simp only [groupSegs, hp, List.mem_cons] at hsg
        rcases hsg with hsg | hsg
        · rw [hsg]; simp
        · exact ih [] false hok sg hsg
      | qcurve =>
        simp only [segsOK, hp] at hok
        intro sg hsg
        simp only [groupSegs, hp, List.mem_cons] at hsg
        rcases hsg with hsg | hsg
        · rw [hsg]; simp
        · exact ih [] false hok sg hsg

theorem groupSegs_snoc_getLast (l acc : List (Point R)) (P : Point R) (s : Seg) (hP : P.seg = some s) :
    ((groupSegs (l ++ [P]) acc).getLast?).bind (fun sg => sg.2.getLast?) = some P := by
  induction l generalizing acc with
  | nil => simp [groupSegs, hP]
  | cons p ps ih =>
    cases hp : p.seg with
    | none => simpa [groupSegs, hp] using ih (acc ++ [p])
    | some s' =>
      simp only [List.cons_append, groupSegs, hp]
      rw [List.getLast?_cons_of_ne_nil (groupSegs_snoc_ne_nil ps [] P s hP)]
      exact ih []

/-- does a walk over `X`, started with/without pending off-curves, end with pending off-curves? -/
def endsPending (b : Bool) (X : List (Point R)) : Bool :=
  match X.getLast? with
  | none => b
  | some q => q.seg.isNone

theorem segsOK_append (b : Bool) (X Y : List (Point R)) (h : segsOK b (X ++ Y) = true) :
    segsOK (endsPending b X) Y = true := by
  induction X generalizing b with
  | nil => simpa [endsPending] using h
  | cons x xs ih =>
    have key : ∀ b', segsOK b' (xs ++ Y) = true → b' = x.seg.isNone → segsOK (endsPending b (x :: xs)) Y = true := by
      intro b' hb' hb
      have := ih b' hb'
      cases xs with
      | nil => simpa [endsPending, hb] using this
      | cons y ys =>
        cases hl : (y :: ys).getLast? with
        | none => simp at hl
        | some q =>
          simp only [endsPending, hl, List.getLast?_cons_cons] at this ⊢
          exact this
    cases hx : x.seg with
    | none => simp only [List.cons_append, segsOK, hx] at h; exact key true h (by simp [hx])
    | some s =>
      cases s with
      | move => simp [segsOK, hx] at h
      | line => simp only [List.cons_append, segsOK, hx, Bool.and_eq_true] at h; exact key false h.2 (by simp [hx])
      | curve => simp only [List.cons_append, segsOK, hx] at h; exact key false h (by simp [hx])
      | qcurve => simp only [List.cons_append, segsOK, hx] at h; exact key false h (by simp [hx])

theorem lastOn_snoc (L : List (Point R)) (Q : Point R) (x : Option (R × R)) (hQ : Q.seg.isSome = true) :
    lastOn (L ++ [Q]) x = some Q.pt := by
  induction L generalizing x with
  | nil => simp [lastOn, hQ]
  | cons p ps ih => simp [lastOn, ih]

end Seg

section Seg
variable [DecidableEq R]

theorem split_at (offs : List (Point R)) (P : Point R) (after : List (Point R)) :
    (offs ++ P :: after).drop (offs.length + 1) = after ∧
    (offs ++ P :: after).take (offs.length + 1) = offs ++ [P] ∧
    (offs ++ P :: after).drop offs.length = P :: after ∧
    (offs ++ P :: after).take offs.length = offs := by
  induction offs with
  | nil => simp
  | cons a r ih => simpa using ih

theorem flushContour_closed (segs : List (Seg × List (Point R))) (hne : segs ≠ [])
    (hnm : ∀ sg ∈ segs, sg.1 ≠ Seg.move) :
    flushContour segs =
      match (segs.getLast?).bind (fun sg => sg.2.getLast?) with
      | none => none
      | some lp => (emitSegs true (some lp.pt) segs).map (fun evs => .moveTo lp.pt :: evs ++ [.closePath]) := by
  cases segs with
  | nil => exact absurd rfl hne
  | cons sg rest =>
    obtain ⟨s, pts⟩ := sg
    have := hnm (s, pts) (by simp)
    cases s with
    | move => exact absurd rfl this
    | line => rfl
    | curve => rfl
    | qcurve => rfl

theorem stpRun_single (st : StpSt R) (e : SegEv R) :
    stpRun st [e] = (stpStep st e).map (·.2) := by
  simp only [stpRun]
  cases stpStep st e with
  | none => rfl
  | some r => obtain ⟨a, b⟩ := r; simp

theorem segRoundTrip_single (p : Point R) (h : p.seg = some .move) :
    segRoundTrip [p] = some (drawContour ⟨none, [p.strip]⟩) := by
  have := stpFlush_core [p]
  simp only [List.map_cons, List.map_nil, Point.core, h] at this
  simp [segRoundTrip, segContour, flushContour, emitSegs, stpRun, stpStep, this]

theorem segRoundTrip_open (p q : Point R) (r : List (Point R)) (hm : p.seg = some .move)
    (h : segsOK false (q :: r) = true) :
    segRoundTrip (p :: q :: r) = some (drawContour ⟨none, (p :: q :: r).map Point.strip⟩) := by
  obtain ⟨evs, h1, h2, h3⟩ := emit_open (q :: r) [] (some p.pt) (by simp) (by simpa using h)
  have hcore : (p.pt, some Seg.move) = p.core := by simp [Point.core, hm]
  simp only [segRoundTrip, segContour, hm, if_true, flushContour, h1, Option.map_some, Option.bind_some]
  simp only [stpRun, stpStep, List.cons_append]
  rw [stpRun_drawOnly evs [.endPath] _ h2, stpRun_single]
  simp only [stpStep, Option.map_some, List.nil_append, h3, hcore]
  rw [← stpFlush_core]
  simp

theorem segRoundTrip_offonly (p q : Point R) (r : List (Point R)) (hfo : firstOn (p :: q :: r) = none)
    (h : ∀ l, (q :: r).getLast? = some l → p.pt ≠ l.pt) :
    segRoundTrip (p :: q :: r) = some (drawContour ⟨none, (p :: q :: r).map Point.strip⟩) := by
  have hall := firstOn_none hfo
  have hp : p.seg = none := hall p (by simp)
  have hm : ¬ p.seg = some Seg.move := by simp [hp]
  obtain ⟨l, hl⟩ : ∃ l, (q :: r).getLast? = some l := by
    cases hx : (q :: r).getLast? with
    | none => simp at hx
    | some l => exact ⟨l, rfl⟩
  have hne := h l hl
  have hlast : (((q :: r).map Point.pt).map (fun x => (x, (none : Option Seg)))).getLast? = some (l.pt, none) := by
    rw [List.getLast?_map, List.getLast?_map, hl]; rfl
  have hcore := map_core_off (p :: q :: r) hall
  simp only [segRoundTrip, segContour, hm, if_false, hfo, Option.bind_some]
  simp only [stpRun, stpStep, List.map_cons, hlast]
  simp only [List.map_cons] at hlast hcore
  simp only [hlast, hne, if_false, Option.map_some, List.nil_append, List.append_nil]
  have hf := stpFlush_core (p :: q :: r)
  simp only [List.map_cons] at hf
  rw [← hf, hcore]
  simp

end Seg

section Seg
variable [DecidableEq R]

theorem stpStep_close_merge (x : R × R) (ty : Option Seg) (rr : List ((R × R) × Option Seg)) :
    stpStep (some ((x, some Seg.move) :: (rr ++ [(x, ty)]))) .closePath =
      some (none, stpFlush ((x, ty) :: rr)) := by
  simp [stpStep]

theorem stpStep_close_line (x : R × R) (rr : List ((R × R) × Option Seg)) (l : (R × R) × Option Seg)
    (hl : rr.getLast? = some l) (hne : x ≠ l.1) :
    stpStep (some ((x, some Seg.move) :: rr)) .closePath = some (none, stpFlush ((x, some Seg.line) :: rr)) := by
  simp [stpStep, hl, hne]

theorem stpStep_close_single (x : R × R) :
    stpStep (some [(x, some Seg.move)]) .closePath = some (none, stpFlush [(x, some Seg.line)]) := by
  simp [stpStep]

theorem segRoundTrip_closed (offs : List (Point R)) (P : Point R) (after : List (Point R))
    (hPs : P.seg.isSome = true)
    (h : segsOK false ((after ++ offs) ++ [P]) = true) :
    (flushContour (groupSegs ((after ++ offs) ++ [P]) [])).bind (stpRun none) =
      some (drawContour ⟨none, (P :: (after ++ offs)).map Point.strip⟩) := by
  obtain ⟨sP, hP⟩ : ∃ sP, P.seg = some sP := by
    cases hx : P.seg with
    | none => simp [hx] at hPs
    | some s => exact ⟨s, rfl⟩
  obtain ⟨evs, h1, h2, h3⟩ := emit_closed P sP hP (after ++ offs) [] (some P.pt) (by simp) (by simpa using h)
  simp only [List.nil_append] at h3
  rw [flushContour_closed _ (groupSegs_snoc_ne_nil _ _ P sP hP) (groupSegs_no_move _ _ false h),
    groupSegs_snoc_getLast _ _ P sP hP]
  simp only [h1, Option.map_some, Option.bind_some]
  have hrun : stpRun none (.moveTo P.pt :: evs ++ [.closePath]) =
      (stpStep (some ((P.pt, some Seg.move) :: accum evs)) .closePath).map (·.2) := by
    have e0 : stpRun none (.moveTo P.pt :: (evs ++ [.closePath])) =
        (stpRun (some [(P.pt, some Seg.move)]) (evs ++ [.closePath])).map ([] ++ ·) := rfl
    rw [List.cons_append, e0, stpRun_drawOnly evs [.closePath] _ h2, stpRun_single]
    simp only [List.singleton_append]
    cases stpStep (some ((P.pt, some Seg.move) :: accum evs)) SegEv.closePath <;> simp
  rw [hrun]
  have hcoreP : P.core = (P.pt, some sP) := by simp [Point.core, hP]
  have hf := stpFlush_core (P :: (after ++ offs))
  simp only [List.map_cons, hcoreP] at hf
  generalize hLdef : after ++ offs = L at *
  by_cases hfin : sP = Seg.line ∧ some P.pt ≠ lastOn L (some P.pt)
  · rw [if_pos hfin, List.append_nil] at h3
    obtain ⟨hline, hneq⟩ := hfin
    subst hline
    rw [h3]
    rcases List.eq_nil_or_concat L with hL | ⟨L', Q, hL⟩
    · subst hL
      simp only [List.map_nil] at hf ⊢
      rw [stpStep_close_single]
      simp only [Option.map_some, List.map_cons, List.map_nil]
      rw [hf]
    · rw [List.concat_eq_append] at hL
      subst hL
      have hQ : Q.seg.isSome = true := by
        have := segsOK_append false (L' ++ [Q]) [P] h
        simp only [endsPending, List.getLast?_append, List.getLast?_singleton, Option.some_or, segsOK, hP,
          Bool.and_eq_true, Bool.not_eq_true', Option.isNone_eq_false_iff] at this
        exact this.1
      rw [lastOn_snoc L' Q _ hQ] at hneq
      have hne : P.pt ≠ Q.core.1 := fun e => hneq (by rw [e]; rfl)
      have hlast : ((L' ++ [Q]).map Point.core).getLast? = some Q.core := by
        simp [List.getLast?_map]
      rw [stpStep_close_line _ _ _ hlast hne]
      simp only [Option.map_some, List.map_cons]
      rw [hf]
  · rw [if_neg hfin] at h3
    rw [h3, hcoreP, stpStep_close_merge]
    simp only [Option.map_some, List.map_cons]
    rw [hf]

/-- **Segment round trip of one contour.** -/
theorem segRoundTrip_faithful (pts : List (Point R)) (h : SegFaithful pts) :
    segRoundTrip pts = some (drawContour ⟨none, (rotateToFirstOn pts).map Point.strip⟩) := by
  match pts, h with
  | [], h => exact absurd h (by simp [SegFaithful, segFaithful])
  | [p], h =>
    have hp : p.seg = some Seg.move := by simpa [SegFaithful, segFaithful] using h
    rw [segRoundTrip_single p hp]
    simp [rotateToFirstOn, firstOn, hp]
  | p :: q :: r, h =>
    by_cases hm : p.seg = some Seg.move
    · have h' : segsOK false (q :: r) = true := by simpa [SegFaithful, segFaithful, hm] using h
      rw [segRoundTrip_open p q r hm h']
      simp [rotateToFirstOn, firstOn, hm]
    · cases hfo : firstOn (p :: q :: r) with
      | none =>
        have h' : ∀ l, (q :: r).getLast? = some l → p.pt ≠ l.pt := by
          intro l hl
          have := h
          simp only [SegFaithful, segFaithful, hm, if_false, hfo, hl, decide_eq_true_eq] at this
          exact this
        rw [segRoundTrip_offonly p q r hfo h']
        simp [rotateToFirstOn, hfo]
      | some i =>
        have h' : segsOK false ((p :: q :: r).drop (i + 1) ++ (p :: q :: r).take (i + 1)) = true := by
          simpa [SegFaithful, segFaithful, hm, hfo] using h
        obtain ⟨offs, P, after, hpts, hlen, hoffs, hPs⟩ := firstOn_some hfo
        obtain ⟨s1, s2, s3, s4⟩ := split_at offs P after
        rw [← hlen, hpts, s1, s2] at h'
        have hc := segRoundTrip_closed offs P after hPs (by simpa [List.append_assoc] using h')
        simp only [segRoundTrip, segContour, hm, if_false, hfo]
        simp only [rotateToFirstOn, hfo]
        rw [← hlen, hpts, s1, s2, s3, s4]
        simpa [List.append_assoc] using hc

end Seg

theorem present_strip (l : List (Point R)) : present ((l.map Point.strip).map (·.ident)) = [] := by
  induction l with
  | nil => rfl
  | cons p ps ih => simpa [Point.strip] using ih

/-- a finite check suffices for acyclicity -/
theorem acyclic_of_forall [Add R] [Mul R] [OfNat R 0] [OfNat R 1] (l : Layer R) (rank : String → Nat)
    (h : ∀ p ∈ l, ∀ k ∈ p.2.components, rank k.base < rank p.1) : Acyclic l rank := by
  intro n g hg k hk
  exact h (n, g) (AL.mem_of_get? hg) k hk

/-! ### the driver's `…Keep` functions agree with `run` / `build` on accepted streams -/

theorem runCoreKeep_spec (skip : Bool) (evs : List (Ev R)) (s : PenSt R) :
    runCore skip evs s =
      match runCoreKeep skip evs s with
      | (s', none) => .ok s'
      | (_, some e) => .error e := by
  induction evs generalizing s with
  | nil => rfl
  | cons e es ih =>
    simp only [runCore, runCoreKeep]
    cases h : stepCore skip s e with
    | error x => rfl
    | ok s' => simpa [bind, Except.bind] using ih s'

theorem deepenKeep_spec (g : Glyph R) :
    deepen g =
      match deepenKeep g with
      | (g', none) => .ok g'
      | (_, some e) => .error e := by
  unfold deepen deepenKeep
  cases hs : g.shallow with
  | none => rfl
  | some raws =>
    simp only [runCoreKeep_spec false (drawRaw raws)]
    rcases h : runCoreKeep false (drawRaw raws)
        ⟨{ g with shallow := none, ids := releaseAll g.ids (rawIdents raws) }, none⟩ with ⟨s', _ | e⟩ <;>
      simp [bind, Except.bind]

theorem stepKeep_spec (skip : Bool) (s : PenSt R) (e : Ev R) :
    step skip s e =
      match stepKeep skip s e with
      | (s', none) => .ok s'
      | (_, some x) => .error x := by
  cases e with
  | endPath =>
    simp only [step, stepKeep]
    cases hc : s.cur with
    | none => rfl
    | some c =>
      simp only [deepenKeep_spec s.g]
      rcases h : deepenKeep s.g with ⟨g', _ | x⟩ <;> simp [bind, Except.bind]
  | beginPath i =>
    simp only [step, stepKeep]
    cases h : stepCore skip s (.beginPath i) <;> rfl
  | addPoint p =>
    simp only [step, stepKeep]
    cases h : stepCore skip s (.addPoint p) <;> rfl
  | addComponent k =>
    simp only [step, stepKeep]
    cases h : stepCore skip s (.addComponent k) <;> rfl

theorem runKeep_spec (skip : Bool) (evs : List (Ev R)) (s : PenSt R) :
    run skip evs s =
      match runKeep skip evs s with
      | (s', none) => .ok s'
      | (_, some e) => .error e := by
  induction evs generalizing s with
  | nil => rfl
  | cons e es ih =>
    simp only [run, runKeep, stepKeep_spec skip s e]
    rcases h : stepKeep skip s e with ⟨s', _ | x⟩
    · simpa [bind, Except.bind] using ih s'
    · rfl

/-! ### reachable states never hold shallow contours and contour objects at once -/

theorem stepCore_contours {skip : Bool} {s s' : PenSt R} {e : Ev R} (h : stepCore skip s e = .ok s')
    (he : e ≠ .endPath) : s'.g.contours = s.g.contours := by
  cases e with
  | endPath => exact absurd rfl he
  | beginPath i =>
    simp only [stepCore, penBeginPath, bind, Except.bind] at h
    cases hc : claim s.g.ids (effIdent skip s.g.ids i) with
    | error x => simp [hc] at h
    | ok ids => simp [hc] at h; rw [← h]
  | addPoint p =>
    simp only [stepCore, penAddPoint] at h
    cases hcur : s.cur with
    | none => simp [hcur] at h
    | some c =>
      simp only [hcur, bind, Except.bind] at h
      cases hc : claim s.g.ids (effIdent skip s.g.ids p.ident) with
      | error x => simp [hc] at h
      | ok ids => simp [hc] at h; rw [← h]
  | addComponent k =>
    simp only [stepCore, penAddComponent, bind, Except.bind] at h
    cases hc : claim s.g.ids (effIdent skip s.g.ids k.ident) with
    | error x => simp [hc] at h
    | ok ids => simp [hc] at h; rw [← h]

theorem runCore_shallow {skip : Bool} {evs : List (Ev R)} {s s' : PenSt R} (h : runCore skip evs s = .ok s') :
    s'.g.shallow = s.g.shallow := by
  induction evs generalizing s with
  | nil => simp [runCore] at h; rw [← h]
  | cons e es ih =>
    simp only [runCore, bind, Except.bind] at h
    cases hs : stepCore skip s e with
    | error x => simp [hs] at h
    | ok s1 => simp only [hs] at h; rw [ih h, stepCore_shallow hs]

theorem deepen_shallow_none {g g' : Glyph R} (h : deepen g = .ok g') : g'.shallow = none := by
  unfold deepen at h
  cases hs : g.shallow with
  | none => simp [hs] at h; rw [← h]; exact hs
  | some raws =>
    simp only [hs, bind, Except.bind] at h
    cases hr : runCore false (drawRaw raws)
        ⟨{ g with shallow := none, ids := releaseAll g.ids (rawIdents raws) }, none⟩ with
    | error x => simp [hr] at h
    | ok s' =>
      simp [hr] at h
      rw [← h, runCore_shallow hr]

theorem step_shallowInv {skip : Bool} {s s' : PenSt R} {e : Ev R} (h : step skip s e = .ok s')
    (hinv : s.g.ShallowInv) : s'.g.ShallowInv := by
  by_cases he : e = .endPath
  · subst he
    simp only [step] at h
    cases hc : s.cur with
    | none => simp [hc] at h
    | some c =>
      simp only [hc, bind, Except.bind] at h
      cases hd : deepen s.g with
      | error x => simp [hd] at h
      | ok g =>
        simp [hd] at h
        intro hne
        rw [← h] at hne
        exact absurd (deepen_shallow_none hd) hne
  · have hsc : step skip s e = stepCore skip s e := by cases e <;> first | rfl | exact absurd rfl he
    rw [hsc] at h
    intro hne
    rw [stepCore_contours h he]
    exact hinv (by rw [← stepCore_shallow h]; exact hne)

theorem run_shallowInv {skip : Bool} {evs : List (Ev R)} {s s' : PenSt R} (h : run skip evs s = .ok s')
    (hinv : s.g.ShallowInv) : s'.g.ShallowInv := by
  induction evs generalizing s with
  | nil => simp [run] at h; rw [← h]; exact hinv
  | cons e es ih =>
    simp only [run, bind, Except.bind] at h
    cases hs : step skip s e with
    | error x => simp [hs] at h
    | ok s1 => simp only [hs] at h; exact ih h (step_shallowInv hs hinv)

/-! ### segment round trip of a whole glyph -/

section Seg
variable [DecidableEq R]

/-- the call list ends with `closePath` or `endPath` -/
def endsClosed (evs : List (SegEv R)) : Prop :=
  ∃ a e, evs = a ++ [e] ∧ (e = SegEv.closePath ∨ e = SegEv.endPath)

theorem stpStep_close_state {st st' : StpSt R} {e : SegEv R} {o : List (Ev R)}
    (he : e = SegEv.closePath ∨ e = SegEv.endPath) (h : stpStep st e = some (st', o)) : st' = none := by
  rcases he with rfl | rfl
  · simp only [stpStep] at h
    split at h
    · simp at h
    · simp at h
    · split at h
      · split at h <;> (simp at h; exact h.1.symm)
      · simp at h; exact h.1.symm
  · simp only [stpStep] at h
    split at h
    · simp at h
    · simp at h; exact h.1.symm

theorem stpRun_append_closed (a b : List (SegEv R)) (st : StpSt R) (out : List (Ev R))
    (hc : endsClosed a) (h : stpRun st a = some out) :
    stpRun st (a ++ b) = (stpRun none b).map (out ++ ·) := by
  obtain ⟨a', e, rfl, he⟩ := hc
  induction a' generalizing st out with
  | nil =>
    simp only [List.nil_append, stpRun] at h ⊢
    cases hs : stpStep st e with
    | none => simp [hs] at h
    | some r =>
      obtain ⟨st', o⟩ := r
      have := stpStep_close_state he hs
      subst this
      simp only [hs, Option.map_some, List.append_nil, Option.some.injEq] at h
      subst h
      simp [List.singleton_append, stpRun, hs]
  | cons x xs ih =>
    simp only [List.cons_append, stpRun] at h ⊢
    cases hs : stpStep st x with
    | none => simp [hs] at h
    | some r =>
      obtain ⟨st', o⟩ := r
      simp only [hs] at h ⊢
      cases hr : stpRun st' (xs ++ [e]) with
      | none => simp [hr] at h
      | some out' =>
        simp only [hr, Option.map_some, Option.some.injEq] at h
        subst h
        rw [ih st' out' hr]
        cases stpRun none b <;> simp [List.append_assoc]

theorem flushContour_endsClosed {segs : List (Seg × List (Point R))} {evs : List (SegEv R)}
    (h : flushContour segs = some evs) : endsClosed evs := by
  unfold flushContour at h
  split at h
  · simp at h
  · split at h
    · simp only [Option.map_eq_some_iff] at h
      obtain ⟨x, _, rfl⟩ := h
      exact ⟨.moveTo _ :: x, .endPath, rfl, Or.inr rfl⟩
    · simp at h
  · split at h
    · simp at h
    · simp only [Option.map_eq_some_iff] at h
      obtain ⟨x, _, rfl⟩ := h
      exact ⟨.moveTo _ :: x, .closePath, rfl, Or.inl rfl⟩

theorem segContour_endsClosed {pts : List (Point R)} {evs : List (SegEv R)} (h : segContour pts = some evs) :
    evs = [] ∨ endsClosed evs := by
  unfold segContour at h
  split at h
  · simp at h; exact Or.inl h
  · exact Or.inr (flushContour_endsClosed h)
  · split at h
    · exact Or.inr (flushContour_endsClosed h)
    · split at h
      · simp at h
        subst h
        exact Or.inr ⟨[.qCurveTo _ none], .closePath, rfl, Or.inl rfl⟩
      · exact Or.inr (flushContour_endsClosed h)

/-- the contours of a list, each through both adaptor pens, concatenated -/
theorem segAll_roundtrip (cs : List (List (Point R))) (tl : List (SegEv R)) (hf : ∀ c ∈ cs, SegFaithful c) :
    ∃ evs, segAll cs = some evs ∧
      stpRun none (evs ++ tl) =
        (stpRun none tl).map
          ((cs.map (fun c => (⟨none, (rotateToFirstOn c).map Point.strip⟩ : Contour R))).flatMap drawContour ++ ·) := by
  induction cs with
  | nil => exact ⟨[], rfl, by simp⟩
  | cons c cs ih =>
    obtain ⟨evs, h1, h2⟩ := ih (fun c' hc' => hf c' (List.mem_cons_of_mem _ hc'))
    have hrt := segRoundTrip_faithful c (hf c (by simp))
    unfold segRoundTrip at hrt
    cases hc : segContour c with
    | none => simp [hc] at hrt
    | some a =>
      simp only [hc, Option.bind_some] at hrt
      refine ⟨a ++ evs, by simp [segAll, hc, h1], ?_⟩
      rcases segContour_endsClosed hc with rfl | hcl
      · simp [stpRun] at hrt
        exact absurd hrt (by simp [drawContour])
      · rw [List.append_assoc, stpRun_append_closed a (evs ++ tl) none _ hcl hrt, h2]
        cases stpRun none tl <;> simp

theorem stpRun_components (ks : List (Component R)) :
    stpRun none (ks.map (fun c => SegEv.addComponent c.base c.t)) =
      some (ks.flatMap (fun k => drawComponent { k with ident := none })) := by
  induction ks with
  | nil => rfl
  | cons k ks ih => simp [stpRun, stpStep, ih, drawComponent]

theorem contourPointLists_points (pts : List (Point R)) (acc : List (Point R)) (rest : List (Ev R)) :
    contourPointLists (pts.map Ev.addPoint ++ rest) acc = contourPointLists rest (acc ++ pts) := by
  induction pts generalizing acc with
  | nil => simp
  | cons p ps ih => simp [contourPointLists, ih, List.append_assoc]

theorem contourPointLists_comps (ks : List (Component R)) (acc : List (Point R)) :
    contourPointLists (ks.flatMap drawComponent) acc = [] := by
  induction ks with
  | nil => rfl
  | cons k ks ih => simpa [drawComponent, contourPointLists] using ih

theorem contourPointLists_outline (cs : List (Contour R)) (ks : List (Component R)) (acc : List (Point R)) :
    contourPointLists (cs.flatMap drawContour ++ ks.flatMap drawComponent) acc = cs.map (·.points) := by
  induction cs generalizing acc with
  | nil => simpa using contourPointLists_comps ks acc
  | cons c cs ih =>
    simp only [List.flatMap_cons, drawContour, List.cons_append, List.append_assoc, contourPointLists,
      List.map_cons]
    rw [contourPointLists_points]
    simp [contourPointLists, ih]

/-- **Segment round trip of a whole glyph**, whatever state it is in. -/
theorem glyph_segRoundTrip (g : Glyph R) (hf : ∀ c ∈ g.outline, SegFaithful c.points) :
    g.drawSeg.bind (stpRun none) =
      some ((g.outline.map (fun c => (⟨none, (rotateToFirstOn c.points).map Point.strip⟩ : Contour R))).flatMap drawContour ++
            g.components.flatMap (fun k => drawComponent { k with ident := none })) := by
  unfold Glyph.drawSeg
  rw [draw_eq_outline, contourPointLists_outline]
  obtain ⟨evs, h1, h2⟩ := segAll_roundtrip (g.outline.map (·.points))
    (g.components.map (fun c => SegEv.addComponent c.base c.t))
    (by intro c hc; simp only [List.mem_map] at hc; obtain ⟨c', hc', rfl⟩ := hc; exact hf c' hc')
  simp only [h1, Option.map_some, Option.bind_some]
  rw [h2, stpRun_components]
  simp [List.map_map, Function.comp_def]

end Seg

theorem mem_releaseAll {ids xs : List Ident} {a : Ident} (hn : ids.Nodup) (h : a ∈ releaseAll ids xs) :
    a ∈ ids ∧ a ∉ xs := by
  induction xs generalizing ids with
  | nil => exact ⟨h, by simp⟩
  | cons x xs ih =>
    rw [releaseAll_cons] at h
    obtain ⟨h1, h2⟩ := ih (hn.erase x) h
    have := (List.Nodup.mem_erase_iff hn).mp h1
    exact ⟨this.2, by simp [this.1, h2]⟩

/-- the hand-over never collides: a duplicate-free registry and distinct stored identifiers suffice -/
theorem nodup_handover (ids xs : List Ident) (hn : ids.Nodup) (hx : xs.Nodup) :
    (releaseAll ids xs ++ xs).Nodup := by
  rw [List.nodup_append]
  refine ⟨nodup_releaseAll _ _ hn, hx, ?_⟩
  intro a ha b hb hab
  subst hab
  exact (mem_releaseAll hn ha).2 hb

/-! ### pens that predate identifiers -/

theorem drawContourTo_eq (caps : PenCaps) (c : Contour R) : drawContourTo caps c = drawContour (c.cap caps) := by
  simp [drawContourTo, drawContour, Contour.cap, List.map_map, Function.comp_def]

theorem drawComponentTo_eq (caps : PenCaps) (k : Component R) :
    drawComponentTo caps k = drawComponent (k.cap caps) := by
  simp only [drawComponentTo, drawComponent, Component.cap]

theorem drawRawContourTo_eq (caps : PenCaps) (c : RawContour R) :
    drawRawContourTo caps c = drawContour (c.toContour.cap caps) := by
  simp [drawRawContourTo, drawContour, Contour.cap, RawContour.toContour, List.map_map, Function.comp_def]

theorem flatMap_drawContourTo (caps : PenCaps) (cs : List (Contour R)) :
    cs.flatMap (drawContourTo caps) = (cs.map (Contour.cap caps)).flatMap drawContour := by
  induction cs with
  | nil => rfl
  | cons c cs ih => simp only [List.flatMap_cons, List.map_cons, ih, drawContourTo_eq]

theorem flatMap_drawRawContourTo (caps : PenCaps) (cs : List (RawContour R)) :
    cs.flatMap (drawRawContourTo caps) = ((cs.map RawContour.toContour).map (Contour.cap caps)).flatMap drawContour := by
  induction cs with
  | nil => rfl
  | cons c cs ih => simp only [List.flatMap_cons, List.map_cons, ih, drawRawContourTo_eq]

theorem flatMap_drawComponentTo (caps : PenCaps) (ks : List (Component R)) :
    ks.flatMap (drawComponentTo caps) = (ks.map (Component.cap caps)).flatMap drawComponent := by
  induction ks with
  | nil => rfl
  | cons k ks ih => simp only [List.flatMap_cons, List.map_cons, ih, drawComponentTo_eq]

/-- whatever form the contours are stored in, a pen with capabilities `caps` receives the glyph's
outline as far as it can be told it -/
theorem drawTo_eq_outline (caps : PenCaps) (g : Glyph R) :
    g.drawTo caps = (g.outline.map (Contour.cap caps)).flatMap drawContour ++
      (g.components.map (Component.cap caps)).flatMap drawComponent := by
  unfold Glyph.drawTo Glyph.outline
  rw [flatMap_drawComponentTo]
  cases hs : g.shallow with
  | none => simp only [flatMap_drawContourTo]
  | some raws =>
    cases raws with
    | nil => simp only [flatMap_drawContourTo]
    | cons c cs => simp only [flatMap_drawRawContourTo]

theorem map_capEv_drawContour (caps : PenCaps) (c : Contour R) :
    (drawContour c).map (capEv caps) = drawContour (c.cap caps) := by
  simp [drawContour, Contour.cap, capEv, List.map_map, Function.comp_def]

theorem map_capEv_contours (caps : PenCaps) (cs : List (Contour R)) :
    (cs.flatMap drawContour).map (capEv caps) = (cs.map (Contour.cap caps)).flatMap drawContour := by
  induction cs with
  | nil => rfl
  | cons c cs ih => simp only [List.flatMap_cons, List.map_append, List.map_cons, ih, map_capEv_drawContour]

theorem map_capEv_components (caps : PenCaps) (ks : List (Component R)) :
    (ks.flatMap drawComponent).map (capEv caps) = (ks.map (Component.cap caps)).flatMap drawComponent := by
  induction ks with
  | nil => rfl
  | cons k ks ih =>
    simp only [List.flatMap_cons, List.map_append, List.map_cons, ih]
    simp [drawComponent, capEv, Component.cap]

theorem drawTo_eq_map (caps : PenCaps) (g : Glyph R) : g.drawTo caps = g.draw.map (capEv caps) := by
  rw [drawTo_eq_outline, draw_eq_outline, List.map_append, map_capEv_contours, map_capEv_components]

theorem Contour.cap_full (c : Contour R) : c.cap PenCaps.full = c := by
  cases c; simp [Contour.cap, PenCaps.full]

theorem Component.cap_full (k : Component R) : k.cap PenCaps.full = k := by
  simp [Component.cap, PenCaps.full]

theorem Contour.cap_old (c : Contour R) : c.cap PenCaps.old = c.eraseIds := by
  simp [Contour.cap, PenCaps.old, Contour.eraseIds]

theorem Component.cap_old (k : Component R) : k.cap PenCaps.old = { k with ident := none } := by
  simp [Component.cap, PenCaps.old]

theorem drawTo_full (g : Glyph R) : g.drawTo PenCaps.full = g.draw := by
  rw [drawTo_eq_outline, draw_eq_outline]
  congr 2
  · exact List.map_id'' (fun c => Contour.cap_full c) _
  · exact List.map_id'' (fun k => Component.cap_full k) _

theorem slots_eraseIds (c : Contour R) : present c.eraseIds.slots = [] := by
  simp only [Contour.slots, Contour.eraseIds, present_none, List.map_map]
  induction c.points with
  | nil => rfl
  | cons p ps ih => simp [present] at ih ⊢

theorem identsOf_old (cs : List (Contour R)) (ks : List (Component R)) :
    identsOf (cs.map (Contour.cap PenCaps.old)) (ks.map (Component.cap PenCaps.old)) = [] := by
  unfold identsOf
  rw [present_append]
  have h1 : present (slotsOf (cs.map (Contour.cap PenCaps.old))) = [] := by
    induction cs with
    | nil => rfl
    | cons c cs ih =>
      rw [List.map_cons, slotsOf_cons, present_append, ih, Contour.cap_old, slots_eraseIds]
      rfl
  have h2 : present (compSlots (ks.map (Component.cap PenCaps.old))) = [] := by
    induction ks with
    | nil => rfl
    | cons k ks ih =>
      simp only [compSlots, List.map_cons, List.map_map] at ih ⊢
      rw [Component.cap_old, present_none]
      exact ih
  rw [h1, h2]
  rfl

end Pen
end DefconModel
