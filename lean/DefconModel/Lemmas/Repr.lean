/-
Helper lemmas for M-Repr (proof side; see Props/C03.lean for the property theorems).
-/
import DefconModel.Repr

namespace DefconModel
namespace Repr

/-! ### the cache of one object -/
namespace Cache
variable {V : Type}

theorem get?_store (c : Cache V) (n : String) (sk : SubKey) (v : V) (n' : String) (sk' : SubKey) :
    (c.store n sk v).get? n' sk' = if n = n' ∧ sk = sk' then some v else c.get? n' sk' := by
  unfold store get?
  by_cases h : n = n'
  · subst h
    simp only [AL.get?_set_self, true_and]
    rw [AL.get?_set]
    cases hc : AL.get? c n <;> simp
  · rw [AL.get?_set_ne _ _ _ _ h]
    simp [h]

theorem get?_destroyName (c : Cache V) (n n' : String) (sk : SubKey) :
    (c.destroyName n).get? n' sk = if n = n' then none else c.get? n' sk := by
  unfold destroyName get?
  rw [get?_eraseAll]
  by_cases h : n = n' <;> simp [h]

theorem get?_destroyOne (c : Cache V) (n : String) (sk : SubKey) (n' : String) (sk' : SubKey) :
    (c.destroyOne n sk).get? n' sk' = if n = n' ∧ sk = sk' then none else c.get? n' sk' := by
  unfold destroyOne
  cases hc : AL.get? c n with
  | none =>
    by_cases h : n = n'
    · subst h; simp [get?, hc]
    · simp [h]
  | some d =>
    unfold get?
    by_cases h : n = n'
    · subst h
      simp only [AL.get?_set_self, hc, true_and]
      rw [get?_eraseAll]
    · rw [AL.get?_set_ne _ _ _ _ h]; simp [h]

/-- an entry that survives an eviction was there before, and no factory registered under its
name has a destructive spec that the notification hits -/
theorem get?_evict_some (facs : List (String × Destr)) (c : Cache V) (n : String) (nm : String)
    (sk : SubKey) (v : V) (h : (evict facs c n).get? nm sk = some v) :
    c.get? nm sk = some v ∧ ∀ d, (nm, d) ∈ facs → d.hit n = false := by
  unfold evict at h
  induction facs generalizing c with
  | nil => exact ⟨h, by simp⟩
  | cons p r ih =>
    simp only [List.foldl_cons] at h
    have := ih _ h
    obtain ⟨h1, h2⟩ := this
    by_cases hp : p.2.hit n = true
    · simp only [hp, if_true] at h1
      rw [get?_destroyName] at h1
      by_cases e : p.1 = nm
      · simp [e] at h1
      · simp only [e, if_false] at h1
        refine ⟨h1, ?_⟩
        intro d hd
        simp only [List.mem_cons] at hd
        rcases hd with hd | hd
        · exact absurd (by rw [← hd]) e
        · exact h2 d hd
    · simp only [hp] at h1
      refine ⟨h1, ?_⟩
      intro d hd
      simp only [List.mem_cons] at hd
      rcases hd with hd | hd
      · subst hd; simpa using hp
      · exact h2 d hd

/-- eviction never adds or changes an entry -/
theorem get?_evict_sub (facs : List (String × Destr)) (c : Cache V) (n nm : String) (sk : SubKey) (v : V)
    (h : (evict facs c n).get? nm sk = some v) : c.get? nm sk = some v :=
  (get?_evict_some facs c n nm sk v h).1

end Cache

end Repr
end DefconModel
