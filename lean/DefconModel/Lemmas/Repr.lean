/-
Helper lemmas for M-Repr (proof side; see Props/C03.lean for the property theorems).
-/
import DefconModel.Repr
import DefconModel.Spec.Repr

namespace DefconModel
namespace Repr

/-! ### the cache of one object -/
namespace Cache
variable {V : Type}

theorem get?_store (c : Cache V) (n : String) (sk : SubKey) (v : V) (n' : String) (sk' : SubKey) :
    (c.store n sk v).get? n' sk' = if n = n' ∧ sk = sk' then some v else c.get? n' sk' := by
  unfold store get?
  by_cases h : n = n'
  · subst h
    simp only [AL.get?_set_self, true_and]
    rw [AL.get?_set]
    cases hc : AL.get? c n <;> simp
  · rw [AL.get?_set_ne _ _ _ _ h]
    simp [h]

theorem get?_destroyName (c : Cache V) (n n' : String) (sk : SubKey) :
    (c.destroyName n).get? n' sk = if n = n' then none else c.get? n' sk := by
  unfold destroyName get?
  rw [get?_eraseAll]
  by_cases h : n = n' <;> simp [h]

theorem get?_destroyOne (c : Cache V) (n : String) (sk : SubKey) (n' : String) (sk' : SubKey) :
    (c.destroyOne n sk).get? n' sk' = if n = n' ∧ sk = sk' then none else c.get? n' sk' := by
  unfold destroyOne
  cases hc : AL.get? c n with
  | none =>
    by_cases h : n = n'
    · subst h; simp [get?, hc]
    · simp [h]
  | some d =>
    unfold get?
    by_cases h : n = n'
    · subst h
      simp only [AL.get?_set_self, hc, true_and]
      rw [get?_eraseAll]
    · rw [AL.get?_set_ne _ _ _ _ h]; simp [h]

/-- an entry that survives an eviction was there before, and no factory registered under its
name has a destructive spec that the notification hits -/
theorem get?_evict_some (facs : List (String × Destr)) (c : Cache V) (n : String) (nm : String)
    (sk : SubKey) (v : V) (h : (evict facs c n).get? nm sk = some v) :
    c.get? nm sk = some v ∧ ∀ d, (nm, d) ∈ facs → d.hit n = false := by
  unfold evict at h
  induction facs generalizing c with
  | nil => exact ⟨h, by simp⟩
  | cons p r ih =>
    simp only [List.foldl_cons] at h
    have := ih _ h
    obtain ⟨h1, h2⟩ := this
    by_cases hp : p.2.hit n = true
    · simp only [hp, if_true] at h1
      rw [get?_destroyName] at h1
      by_cases e : p.1 = nm
      · simp [e] at h1
      · simp only [e, if_false] at h1
        refine ⟨h1, ?_⟩
        intro d hd
        simp only [List.mem_cons] at hd
        rcases hd with hd | hd
        · exact absurd (by rw [← hd]) e
        · exact h2 d hd
    · simp only [hp] at h1
      refine ⟨h1, ?_⟩
      intro d hd
      simp only [List.mem_cons] at hd
      rcases hd with hd | hd
      · subst hd; simpa using hp
      · exact h2 d hd

/-- eviction never adds or changes an entry -/
theorem get?_evict_sub (facs : List (String × Destr)) (c : Cache V) (n nm : String) (sk : SubKey) (v : V)
    (h : (evict facs c n).get? nm sk = some v) : c.get? nm sk = some v :=
  (get?_evict_some facs c n nm sk v h).1

end Cache

/-! ### evictions touch nothing but the caches -/
section Worlds
variable {V : Type}

/-- the part of a world that views, routes and attachment read -/
structure SameStruct (w w' : World V) : Prop where
  glyphs : w'.glyphs = w.glyphs
  looseC : w'.looseC = w.looseC
  looseK : w'.looseK = w.looseK
  fuel : w'.fuel = w.fuel
  groupsVer : w'.groupsVer = w.groupsVer
  regs : w'.regs = w.regs

theorem SameStruct.refl (w : World V) : SameStruct w w := ⟨rfl, rfl, rfl, rfl, rfl, rfl⟩

theorem SameStruct.trans {a b c : World V} (h1 : SameStruct a b) (h2 : SameStruct b c) : SameStruct a c :=
  ⟨h2.glyphs.trans h1.glyphs, h2.looseC.trans h1.looseC, h2.looseK.trans h1.looseK,
   h2.fuel.trans h1.fuel, h2.groupsVer.trans h1.groupsVer, h2.regs.trans h1.regs⟩

theorem sameStruct_setCache (w : World V) (o : Obj) (c : Cache V) : SameStruct w (setCache w o c) :=
  ⟨rfl, rfl, rfl, rfl, rfl, rfl⟩

theorem sameStruct_dropCache (w : World V) (o : Obj) : SameStruct w (dropCache w o) :=
  ⟨rfl, rfl, rfl, rfl, rfl, rfl⟩

theorem sameStruct_evictObj (T : Tables) (w : World V) (o : Obj) (n : String) :
    SameStruct w (evictObj T w o n) := sameStruct_setCache _ _ _

theorem sameStruct_applyDeliv (T : Tables) (w : World V) (ds : List (Obj × String)) :
    SameStruct w (applyDeliv T w ds) := by
  unfold applyDeliv
  induction ds generalizing w with
  | nil => exact SameStruct.refl w
  | cons d r ih => exact (sameStruct_evictObj T w d.1 d.2).trans (ih _)

theorem viewOf_congr (T : Tables) {w w' : World V} (h : SameStruct w w') (o : Obj) (nm : String) :
    viewOf T w' o nm = viewOf T w o nm := by
  cases o <;> simp [viewOf, findContour, findComp, h.glyphs, h.looseC, h.looseK, h.fuel, h.groupsVer]

theorem attached_congr {w w' : World V} (h : SameStruct w w') (o : Obj) : attached w' o = attached w o := by
  cases o <;> simp [attached, h.glyphs]

theorem cacheOf_setCache (w : World V) (o o' : Obj) (c : Cache V) :
    cacheOf (setCache w o c) o' = if o = o' then c else cacheOf w o' := by
  unfold cacheOf setCache
  simp only
  rw [AL.get?_set]
  by_cases h : o = o' <;> simp [h]

theorem cacheOf_dropCache (w : World V) (o o' : Obj) :
    cacheOf (dropCache w o) o' = if o = o' then [] else cacheOf w o' := by
  unfold cacheOf dropCache
  simp only
  rw [get?_eraseAll]
  by_cases h : o = o' <;> simp [h]

/-- what survives a delivery of `n` to `o` was there before; on `o` itself only entries whose
registered destructive specs `n` does not hit -/
theorem get?_evictObj (T : Tables) (w : World V) (o : Obj) (n : String) (o' : Obj) (nm : String)
    (sk : SubKey) (v : V) (h : (cacheOf (evictObj T w o n) o').get? nm sk = some v) :
    (cacheOf w o').get? nm sk = some v ∧
      (o = o' → ∀ d, (nm, d) ∈ facsOf T w.regs o.cls → d.hit n = false) := by
  unfold evictObj at h
  rw [cacheOf_setCache] at h
  by_cases e : o = o'
  · subst e
    simp only [if_true] at h
    have := Cache.get?_evict_some _ _ _ _ _ _ h
    exact ⟨this.1, fun _ => this.2⟩
  · simp only [e, if_false] at h
    exact ⟨h, fun e' => absurd e' e⟩

theorem get?_applyDeliv (T : Tables) (w : World V) (ds : List (Obj × String)) (o : Obj) (nm : String)
    (sk : SubKey) (v : V) (h : (cacheOf (applyDeliv T w ds) o).get? nm sk = some v) :
    (cacheOf w o).get? nm sk = some v ∧
      ∀ n, (o, n) ∈ ds → ∀ d, (nm, d) ∈ facsOf T w.regs o.cls → d.hit n = false := by
  unfold applyDeliv at h
  induction ds generalizing w with
  | nil => exact ⟨h, by simp⟩
  | cons d r ih =>
    simp only [List.foldl_cons] at h
    obtain ⟨h1, h2⟩ := ih _ h
    obtain ⟨h3, h4⟩ := get?_evictObj T w d.1 d.2 o nm sk v h1
    refine ⟨h3, ?_⟩
    intro n hn d' hd'
    simp only [List.mem_cons] at hn
    rcases hn with hn | hn
    · have e1 : d.1 = o := by rw [← hn]
      have e2 : d.2 = n := by rw [← hn]
      have := h4 e1 d' (by rw [e1]; exact hd')
      rw [e2] at this; exact this
    · have hr : (evictObj T w d.1 d.2).regs = w.regs := (sameStruct_evictObj T w d.1 d.2).regs
      exact h2 n hn d' (by rw [hr]; exact hd')

end Worlds

/-! ### the component graph -/

theorem flatMap_congr' {α β : Type} (l : List α) (f g : α → List β) (h : ∀ x, x ∈ l → f x = g x) :
    l.flatMap f = l.flatMap g := by
  induction l with
  | nil => rfl
  | cons a r ih =>
    simp only [List.flatMap_cons]
    rw [h a (by simp), ih (fun x hx => h x (by simp [hx]))]

theorem ReadsN.trans {gs : Layer} {n m : Nat} {a b c : String} (h1 : ReadsN gs n a b) (h2 : ReadsN gs m b c) :
    ReadsN gs (n + m) a c := by
  induction h1 with
  | refl a => simpa using h2
  | step g k hg hk hb _ ih =>
    rename_i n0 _ _ _ _
    have := ReadsN.step g k hg hk hb (ih h2)
    have e : n0 + m + 1 = n0 + 1 + m := by omega
    rw [← e]; exact this

/-- a chain of ≥ 1 hops ends with a component whose base is the target -/
theorem ReadsN.tail {gs : Layer} {n : Nat} {x a : String} (h : ReadsN gs (n + 1) x a) :
    ∃ z g k, ReadsN gs n x z ∧ AL.get? gs z = some g ∧ k ∈ g.comps ∧ k.base = some a := by
  induction n generalizing x with
  | zero =>
    cases h with
    | step g k hg hk hb hr =>
      cases hr
      exact ⟨x, g, k, ReadsN.refl x, hg, hk, hb⟩
  | succ n ih =>
    cases h with
    | step g k hg hk hb hr =>
      obtain ⟨z, g', k', h1, h2, h3, h4⟩ := ih hr
      exact ⟨z, g', k', ReadsN.step g k hg hk hb h1, h2, h3, h4⟩

theorem ReadsN.pow {gs : Layer} {n : Nat} {a : String} (h : ReadsN gs n a a) (j : Nat) :
    ReadsN gs (n * j) a a := by
  induction j with
  | zero => simpa using ReadsN.refl a
  | succ j ih =>
    have := ih.trans h
    rw [Nat.mul_succ]; exact this

/-- bounded chains: no glyph reads itself through components -/
theorem no_cycle {gs : Layer} {fuel n : Nat} {a : String} (hb : Bounded gs fuel) (h : ReadsN gs n a a) : n = 0 := by
  by_cases e : n = 0
  · exact e
  · have h1 := hb _ _ _ (h.pow fuel)
    have : fuel ≤ n * fuel := Nat.le_mul_of_pos_left fuel (Nat.pos_of_ne_zero e)
    omega

/-- Lemma A: an outline is unchanged when every glyph it reads keeps its contours and components -/
theorem outline_agree (n : Nat) (gs gs' : Layer) (x : String)
    (h : ∀ m b, ReadsN gs m x b →
      (AL.get? gs' b).map (fun g => (g.contours, g.comps)) = (AL.get? gs b).map (fun g => (g.contours, g.comps))) :
    outline n gs' x = outline n gs x := by
  induction n generalizing x with
  | zero => rfl
  | succ n ih =>
    unfold outline
    have h0 := h 0 x (ReadsN.refl x)
    cases hg : AL.get? gs x with
    | none =>
      rw [hg] at h0
      cases hg' : AL.get? gs' x with
      | none => rfl
      | some g' => rw [hg'] at h0; simp at h0
    | some g =>
      rw [hg] at h0
      cases hg' : AL.get? gs' x with
      | none => rw [hg'] at h0; simp at h0
      | some g' =>
        rw [hg'] at h0
        simp only [Option.map_some, Option.some.injEq, Prod.mk.injEq] at h0
        simp only [bodyWith]
        rw [h0.1, h0.2]
        congr 3
        apply flatMap_congr'
        intro k hk
        unfold compHead
        cases hb : k.base with
        | none => rfl
        | some c =>
          simp only
          rw [ih c (fun m b hr => h (m + 1) b (ReadsN.step g k hg hk hb hr))]

/-! ### routes -/

abbrev cbPosts (T : Tables) : List String := T.postsOf "Component" "baseGlyphDataChangedNotificationCallback"
abbrev bgPosts (T : Tables) : List String := T.postsOf "Glyph" "_componentBaseGlyphDataChanged"

theorem mem_watchers {gs : Layer} {a x' : String} {g : GlyphS} {k : CompS}
    (hg : AL.get? gs x' = some g) (hk : k ∈ g.comps) (hw : watchesBase a k = true) :
    (x', k.id) ∈ watchers gs a := by
  unfold watchers
  rw [List.mem_flatMap]
  refine ⟨(x', g), AL.mem_of_get? hg, ?_⟩
  rw [List.mem_map]
  exact ⟨k, by simp [List.mem_filter, hk, hw], rfl⟩

theorem glyphDeliv_self {n : Nat} {T : Tables} {gs : Layer} {a : String} {ns : List String} {y : String}
    (hy : y ∈ ns) : (Obj.glyph a, y) ∈ glyphDeliv (n + 1) T gs a ns := by
  unfold glyphDeliv
  apply List.mem_append_left
  rw [List.mem_map]
  exact ⟨y, hy, rfl⟩

theorem glyphDeliv_watcher {n : Nat} {T : Tables} {gs : Layer} {a : String} {ns : List String}
    {x' : String} {kid : Nat} (hr : relays ns = true) (hw : (x', kid) ∈ watchers gs a)
    {y : Obj × String} (hy : y ∈ compRelay (glyphDeliv n T gs) T x' kid (cbPosts T)) :
    y ∈ glyphDeliv (n + 1) T gs a ns := by
  unfold glyphDeliv
  apply List.mem_append_right
  simp only [hr, if_true]
  rw [List.mem_flatMap]
  exact ⟨(x', kid), hw, hy⟩

theorem compRelay_self {rec : String → List String → List (Obj × String)} {T : Tables} {h : String}
    {kid : Nat} {cn : List String} {y : String} (hy : y ∈ cn) : (Obj.comp kid, y) ∈ compRelay rec T h kid cn := by
  unfold compRelay
  apply List.mem_append_left
  apply List.mem_append_left
  rw [List.mem_map]
  exact ⟨y, hy, rfl⟩

theorem compRelay_bg {rec : String → List String → List (Obj × String)} {T : Tables} {h : String}
    {kid : Nat} {cn : List String} (hc : cn.contains "Component.BaseGlyphDataChanged" = true)
    {y : Obj × String} (hy : y ∈ rec h (bgPosts T)) : y ∈ compRelay rec T h kid cn := by
  unfold compRelay
  apply List.mem_append_right
  simp only [hc, if_true]
  exact hy

theorem compRelay_changed {rec : String → List String → List (Obj × String)} {T : Tables} {h : String}
    {kid : Nat} {cn : List String} (hc : cn.contains "Component.Changed" = true)
    {y : Obj × String} (hy : y ∈ rec h (T.postsOf "Glyph" "_componentChanged")) : y ∈ compRelay rec T h kid cn := by
  unfold compRelay
  apply List.mem_append_left
  apply List.mem_append_right
  simp only [hc, if_true]
  exact hy

/-- Cascade completeness.  The glyph named `a` posts `ns` (which contains ContoursChanged or
ComponentsChanged).  Then every component whose base reads `a` through any number of hops receives
what the base-glyph data callback posts, and its glyph posts what `_componentBaseGlyphDataChanged`
posts, with fuel left to carry on. -/
theorem cascade_complete (T : Tables) (gs : Layer) (fuel : Nat) (a : String) (ns : List String)
    (hBG : relays (bgPosts T) = true)
    (hcb : (cbPosts T).contains "Component.BaseGlyphDataChanged" = true)
    (hb : Bounded gs fuel)
    (hW : ∀ m x, ReadsN gs m x a → ∀ x' g k, AL.get? gs x' = some g → k ∈ g.comps → k.base = some x →
      k.watch = Watch.base)
    (hr : relays ns = true) :
    ∀ m x, ReadsN gs m x a → ∀ x' g k, AL.get? gs x' = some g → k ∈ g.comps → k.base = some x →
      (∀ y, y ∈ cbPosts T → (Obj.comp k.id, y) ∈ glyphDeliv fuel T gs a ns) ∧
      (∀ y, y ∈ glyphDeliv (fuel - m - 1) T gs x' (bgPosts T) → y ∈ glyphDeliv fuel T gs a ns) := by
  intro m
  induction m with
  | zero =>
    intro x hx x' g k hg hk hbase
    cases hx
    have hw : watchesBase a k = true := by
      simp [watchesBase, hW 0 a (ReadsN.refl a) x' g k hg hk hbase, hbase]
    have hmem := mem_watchers hg hk hw
    have hlen := hb _ _ _ (ReadsN.step g k hg hk hbase (ReadsN.refl a))
    obtain ⟨j, hj⟩ : ∃ j, fuel = j + 1 := ⟨fuel - 1, by omega⟩
    subst hj
    refine ⟨fun y hy => glyphDeliv_watcher hr hmem (compRelay_self hy), ?_⟩
    intro y hy
    have e : j + 1 - 0 - 1 = j := by omega
    rw [e] at hy
    exact glyphDeliv_watcher hr hmem (compRelay_bg hcb hy)
  | succ n ih =>
    intro x hx x' g k hg hk hbase
    cases hx with
    | step g1 k1 hg1 hk1 hb1 hrest =>
      have hx' : ReadsN gs (n + 1) x a := ReadsN.step g1 k1 hg1 hk1 hb1 hrest
      obtain ⟨_, hsub⟩ := ih _ hrest x g1 k1 hg1 hk1 hb1
      have hw : watchesBase x k = true := by
        simp [watchesBase, hW (n + 1) x hx' x' g k hg hk hbase, hbase]
      have hmem := mem_watchers hg hk hw
      have hlen := hb _ _ _ (ReadsN.step g k hg hk hbase hx')
      obtain ⟨j, hj⟩ : ∃ j, fuel - n - 1 = j + 1 := ⟨fuel - n - 2, by omega⟩
      rw [hj] at hsub
      refine ⟨fun y hy => hsub _ (glyphDeliv_watcher hBG hmem (compRelay_self hy)), ?_⟩
      intro y hy
      have e : fuel - (n + 1) - 1 = j := by omega
      rw [e] at hy
      exact hsub _ (glyphDeliv_watcher hBG hmem (compRelay_bg hcb hy))

/-- … in particular the glyph that holds such a component receives every notification that
`_componentBaseGlyphDataChanged` posts -/
theorem cascade_glyph (T : Tables) (gs : Layer) (fuel : Nat) (a : String) (ns : List String)
    (hBG : relays (bgPosts T) = true)
    (hcb : (cbPosts T).contains "Component.BaseGlyphDataChanged" = true)
    (hb : Bounded gs fuel)
    (hW : ∀ m x, ReadsN gs m x a → ∀ x' g k, AL.get? gs x' = some g → k ∈ g.comps → k.base = some x →
      k.watch = Watch.base)
    (hr : relays ns = true)
    {m : Nat} {x x' : String} {g : GlyphS} {k : CompS} (hx : ReadsN gs m x a)
    (hg : AL.get? gs x' = some g) (hk : k ∈ g.comps) (hbase : k.base = some x)
    {y : String} (hy : y ∈ bgPosts T) : (Obj.glyph x', y) ∈ glyphDeliv fuel T gs a ns := by
  have h := (cascade_complete T gs fuel a ns hBG hcb hb hW hr m x hx x' g k hg hk hbase).2
  have hlen := hb _ _ _ (ReadsN.step g k hg hk hbase hx)
  obtain ⟨j, hj⟩ : ∃ j, fuel - m - 1 = j + 1 := ⟨fuel - m - 2, by omega⟩
  rw [hj] at h
  exact h _ (glyphDeliv_self hy)

end Repr
end DefconModel
