/-
Helper lemmas for M-Repr (proof side; see Props/C03.lean for the property theorems).
-/
import DefconModel.Repr
import DefconModel.Spec.Repr

namespace DefconModel
namespace Repr

/-! ### the cache of one object -/
namespace Cache
variable {V : Type}

theorem get?_store (c : Cache V) (n : String) (sk : SubKey) (v : V) (n' : String) (sk' : SubKey) :
    (c.store n sk v).get? n' sk' = if n = n' ∧ sk = sk' then some v else c.get? n' sk' := by
  unfold store get?
  by_cases h : n = n'
  · subst h
    simp only [AL.get?_set_self, true_and]
    rw [AL.get?_set]
    cases hc : AL.get? c n <;> simp
  · rw [AL.get?_set_ne _ _ _ _ h]
    simp [h]

theorem get?_destroyName (c : Cache V) (n n' : String) (sk : SubKey) :
    (c.destroyName n).get? n' sk = if n = n' then none else c.get? n' sk := by
  unfold destroyName get?
  rw [get?_eraseAll]
  by_cases h : n = n' <;> simp [h]

theorem get?_destroyOne (c : Cache V) (n : String) (sk : SubKey) (n' : String) (sk' : SubKey) :
    (c.destroyOne n sk).get? n' sk' = if n = n' ∧ sk = sk' then none else c.get? n' sk' := by
  unfold destroyOne
  cases hc : AL.get? c n with
  | none =>
    by_cases h : n = n'
    · subst h; simp [get?, hc]
    · simp [h]
  | some d =>
    unfold get?
    by_cases h : n = n'
    · subst h
      simp only [AL.get?_set_self, hc, true_and]
      rw [get?_eraseAll]
    · rw [AL.get?_set_ne _ _ _ _ h]; simp [h]

/-- an entry that survives an eviction was there before, and no factory registered under its
name has a destructive spec that the notification hits -/
theorem get?_evict_some (facs : List (String × Destr)) (c : Cache V) (n : String) (nm : String)
    (sk : SubKey) (v : V) (h : (evict facs c n).get? nm sk = some v) :
    c.get? nm sk = some v ∧ ∀ d, (nm, d) ∈ facs → d.hit n = false := by
  unfold evict at h
  induction facs generalizing c with
  | nil => exact ⟨h, by simp⟩
  | cons p r ih =>
    simp only [List.foldl_cons] at h
    have := ih _ h
    obtain ⟨h1, h2⟩ := this
    by_cases hp : p.2.hit n = true
    · simp only [hp, if_true] at h1
      rw [get?_destroyName] at h1
      by_cases e : p.1 = nm
      · simp [e] at h1
      · simp only [e, if_false] at h1
        refine ⟨h1, ?_⟩
        intro d hd
        simp only [List.mem_cons] at hd
        rcases hd with hd | hd
        · exact absurd (by rw [← hd]) e
        · exact h2 d hd
    · simp only [hp] at h1
      refine ⟨h1, ?_⟩
      intro d hd
      simp only [List.mem_cons] at hd
      rcases hd with hd | hd
      · subst hd; simpa using hp
      · exact h2 d hd

/-- eviction never adds or changes an entry -/
theorem get?_evict_sub (facs : List (String × Destr)) (c : Cache V) (n nm : String) (sk : SubKey) (v : V)
    (h : (evict facs c n).get? nm sk = some v) : c.get? nm sk = some v :=
  (get?_evict_some facs c n nm sk v h).1

theorem get?_patchOne (P : Params V) (dx dy : Int) (c : Cache V) (b nm : String) (sk : SubKey) :
    (patchOne P dx dy c b).get? nm sk =
      if b = nm ∧ sk = none then (c.get? nm none).map (fun v => P.patch nm v dx dy) else c.get? nm sk := by
  unfold patchOne
  cases hb : c.get? b none with
  | none =>
    by_cases e : b = nm ∧ sk = none
    · obtain ⟨e1, e2⟩ := e; subst e1; subst e2; simp [hb]
    · simp [e]
  | some v0 =>
    simp only
    rw [get?_store]
    by_cases e : b = nm ∧ none = sk
    · obtain ⟨e1, e2⟩ := e; subst e1; subst e2; simp [hb]
    · have e' : ¬ (b = nm ∧ sk = none) := fun h => e ⟨h.1, h.2.symm⟩
      simp [e, e']

/-- what `Contour.move` leaves in the cache: the two bounds entries under `None`, patched; of the
rest only what no registered factory has `Contour.PointsChanged` destroy -/
theorem get?_moveCache (P : Params V) (facs : List (String × Destr)) (c : Cache V) (dx dy : Int) (nm : String)
    (sk : SubKey) (v : V) (h : (moveCache P facs c dx dy).get? nm sk = some v) :
    (nm ∈ boundsNames ∧ sk = none ∧ ∃ v0, c.get? nm none = some v0 ∧ v = P.patch nm v0 dx dy) ∨
    (c.get? nm sk = some v ∧ (nm ∈ boundsNames → sk ≠ none) ∧
      (nm ∉ boundsNames → ∀ d, (nm, d) ∈ facs → d.hit "Contour.PointsChanged" = false)) := by
  unfold moveCache at h
  -- the eviction loop only removes
  have hev : ∀ (fs : List (String × Destr)) (c1 : Cache V),
      (fs.foldl (evictUnless boundsNames "Contour.PointsChanged") c1).get? nm sk = some v →
      c1.get? nm sk = some v ∧ (nm ∉ boundsNames → ∀ d, (nm, d) ∈ fs → d.hit "Contour.PointsChanged" = false) := by
    intro fs
    induction fs with
    | nil => intro c1 h1; exact ⟨h1, by simp⟩
    | cons p r ih =>
      intro c1 h1
      simp only [List.foldl_cons] at h1
      obtain ⟨h2, h3⟩ := ih _ h1
      unfold evictUnless at h2
      by_cases hp : (!boundsNames.contains p.1 && p.2.hit "Contour.PointsChanged") = true
      · simp only [hp, if_true] at h2
        rw [get?_destroyName] at h2
        by_cases e : p.1 = nm
        · simp [e] at h2
        · simp only [e, if_false] at h2
          refine ⟨h2, fun hnb d hd => ?_⟩
          simp only [List.mem_cons] at hd
          rcases hd with hd | hd
          · exact absurd (by rw [← hd]) e
          · exact h3 hnb d hd
      · simp only [hp] at h2
        refine ⟨h2, fun hnb d hd => ?_⟩
        simp only [List.mem_cons] at hd
        rcases hd with hd | hd
        · subst hd
          simp only [Bool.and_eq_true, Bool.not_eq_true', not_and, Bool.not_eq_true] at hp
          apply hp
          simpa using hnb
        · exact h3 hnb d hd
  obtain ⟨h1, h2⟩ := hev _ _ h
  simp only [boundsNames, List.foldl_cons, List.foldl_nil] at h1
  have hne : ¬ ("defcon.contour.bounds" = "defcon.contour.controlPointBounds") := by decide
  by_cases e2 : "defcon.contour.controlPointBounds" = nm ∧ sk = none
  · obtain ⟨e2a, e2b⟩ := e2
    subst e2a; subst e2b
    rw [get?_patchOne, if_pos ⟨rfl, rfl⟩, get?_patchOne, if_neg (fun hh => hne hh.1)] at h1
    cases hc : c.get? "defcon.contour.controlPointBounds" none with
    | none => rw [hc] at h1; cases h1
    | some v0 =>
      rw [hc] at h1
      simp only [Option.map_some, Option.some.injEq] at h1
      exact Or.inl ⟨by simp [boundsNames], rfl, v0, rfl, h1.symm⟩
  · rw [get?_patchOne, if_neg e2] at h1
    by_cases e1 : "defcon.contour.bounds" = nm ∧ sk = none
    · obtain ⟨e1a, e1b⟩ := e1
      subst e1a; subst e1b
      rw [get?_patchOne, if_pos ⟨rfl, rfl⟩] at h1
      cases hc : c.get? "defcon.contour.bounds" none with
      | none => rw [hc] at h1; cases h1
      | some v0 =>
        rw [hc] at h1
        simp only [Option.map_some, Option.some.injEq] at h1
        exact Or.inl ⟨by simp [boundsNames], rfl, v0, rfl, h1.symm⟩
    · rw [get?_patchOne, if_neg e1] at h1
      refine Or.inr ⟨h1, ?_, h2⟩
      intro hb hsk
      simp only [boundsNames, List.mem_cons, List.mem_nil_iff, or_false] at hb
      rcases hb with hb | hb
      · exact e1 ⟨hb.symm, hsk⟩
      · exact e2 ⟨hb.symm, hsk⟩

end Cache

/-! ### evictions touch nothing but the caches -/
section Worlds
variable {V : Type}

/-- the part of a world that views, routes and attachment read -/
structure SameStruct (w w' : World V) : Prop where
  glyphs : w'.glyphs = w.glyphs
  looseC : w'.looseC = w.looseC
  looseK : w'.looseK = w.looseK
  fuel : w'.fuel = w.fuel
  groupsVer : w'.groupsVer = w.groupsVer
  regs : w'.regs = w.regs

theorem SameStruct.refl (w : World V) : SameStruct w w := ⟨rfl, rfl, rfl, rfl, rfl, rfl⟩

theorem SameStruct.trans {a b c : World V} (h1 : SameStruct a b) (h2 : SameStruct b c) : SameStruct a c :=
  ⟨h2.glyphs.trans h1.glyphs, h2.looseC.trans h1.looseC, h2.looseK.trans h1.looseK,
   h2.fuel.trans h1.fuel, h2.groupsVer.trans h1.groupsVer, h2.regs.trans h1.regs⟩

theorem sameStruct_setCache (w : World V) (o : Obj) (c : Cache V) : SameStruct w (setCache w o c) :=
  ⟨rfl, rfl, rfl, rfl, rfl, rfl⟩

theorem sameStruct_dropCache (w : World V) (o : Obj) : SameStruct w (dropCache w o) :=
  ⟨rfl, rfl, rfl, rfl, rfl, rfl⟩

theorem sameStruct_evictObj (T : Tables) (w : World V) (o : Obj) (n : String) :
    SameStruct w (evictObj T w o n) := sameStruct_setCache _ _ _

theorem sameStruct_applyDeliv (T : Tables) (w : World V) (ds : List (Obj × String)) :
    SameStruct w (applyDeliv T w ds) := by
  unfold applyDeliv
  induction ds generalizing w with
  | nil => exact SameStruct.refl w
  | cons d r ih => exact (sameStruct_evictObj T w d.1 d.2).trans (ih _)

theorem viewOf_congr (T : Tables) {w w' : World V} (h : SameStruct w w') (o : Obj) (nm : String) :
    viewOf T w' o nm = viewOf T w o nm := by
  cases o <;> simp [viewOf, findContour, findComp, h.glyphs, h.looseC, h.looseK, h.fuel, h.groupsVer]

theorem attached_congr {w w' : World V} (h : SameStruct w w') (o : Obj) : attached w' o = attached w o := by
  cases o <;> simp [attached, h.glyphs]

theorem cacheOf_setCache (w : World V) (o o' : Obj) (c : Cache V) :
    cacheOf (setCache w o c) o' = if o = o' then c else cacheOf w o' := by
  unfold cacheOf setCache
  simp only
  rw [AL.get?_set]
  by_cases h : o = o' <;> simp [h]

theorem cacheOf_dropCache (w : World V) (o o' : Obj) :
    cacheOf (dropCache w o) o' = if o = o' then [] else cacheOf w o' := by
  unfold cacheOf dropCache
  simp only
  rw [get?_eraseAll]
  by_cases h : o = o' <;> simp [h]

/-- what survives a delivery of `n` to `o` was there before; on `o` itself only entries whose
registered destructive specs `n` does not hit -/
theorem get?_evictObj (T : Tables) (w : World V) (o : Obj) (n : String) (o' : Obj) (nm : String)
    (sk : SubKey) (v : V) (h : (cacheOf (evictObj T w o n) o').get? nm sk = some v) :
    (cacheOf w o').get? nm sk = some v ∧
      (o = o' → ∀ d, (nm, d) ∈ facsOf T w.regs o.cls → d.hit n = false) := by
  unfold evictObj at h
  rw [cacheOf_setCache] at h
  by_cases e : o = o'
  · subst e
    simp only [if_true] at h
    have := Cache.get?_evict_some _ _ _ _ _ _ h
    exact ⟨this.1, fun _ => this.2⟩
  · simp only [e, if_false] at h
    exact ⟨h, fun e' => absurd e' e⟩

theorem get?_applyDeliv (T : Tables) (w : World V) (ds : List (Obj × String)) (o : Obj) (nm : String)
    (sk : SubKey) (v : V) (h : (cacheOf (applyDeliv T w ds) o).get? nm sk = some v) :
    (cacheOf w o).get? nm sk = some v ∧
      ∀ n, (o, n) ∈ ds → ∀ d, (nm, d) ∈ facsOf T w.regs o.cls → d.hit n = false := by
  unfold applyDeliv at h
  induction ds generalizing w with
  | nil => exact ⟨h, by simp⟩
  | cons d r ih =>
    simp only [List.foldl_cons] at h
    obtain ⟨h1, h2⟩ := ih _ h
    obtain ⟨h3, h4⟩ := get?_evictObj T w d.1 d.2 o nm sk v h1
    refine ⟨h3, ?_⟩
    intro n hn d' hd'
    simp only [List.mem_cons] at hn
    rcases hn with hn | hn
    · have e1 : d.1 = o := by rw [← hn]
      have e2 : d.2 = n := by rw [← hn]
      have := h4 e1 d' (by rw [e1]; exact hd')
      rw [e2] at this; exact this
    · have hr : (evictObj T w d.1 d.2).regs = w.regs := (sameStruct_evictObj T w d.1 d.2).regs
      exact h2 n hn d' (by rw [hr]; exact hd')

end Worlds

/-! ### the component graph -/

theorem flatMap_congr' {α β : Type} (l : List α) (f g : α → List β) (h : ∀ x, x ∈ l → f x = g x) :
    l.flatMap f = l.flatMap g := by
  induction l with
  | nil => rfl
  | cons a r ih =>
    simp only [List.flatMap_cons]
    rw [h a (by simp), ih (fun x hx => h x (by simp [hx]))]

theorem ReadsN.trans {gs : Layer} {n m : Nat} {a b c : String} (h1 : ReadsN gs n a b) (h2 : ReadsN gs m b c) :
    ReadsN gs (n + m) a c := by
  induction h1 with
  | refl a => simpa using h2
  | step g k hg hk hb _ ih =>
    rename_i n0 _ _ _ _
    have := ReadsN.step g k hg hk hb (ih h2)
    have e : n0 + m + 1 = n0 + 1 + m := by omega
    rw [← e]; exact this

/-- a chain of ≥ 1 hops ends with a component whose base is the target -/
theorem ReadsN.tail {gs : Layer} {n : Nat} {x a : String} (h : ReadsN gs (n + 1) x a) :
    ∃ z g k, ReadsN gs n x z ∧ AL.get? gs z = some g ∧ k ∈ g.comps ∧ k.base = some a := by
  induction n generalizing x with
  | zero =>
    cases h with
    | step g k hg hk hb hr =>
      cases hr
      exact ⟨x, g, k, ReadsN.refl x, hg, hk, hb⟩
  | succ n ih =>
    cases h with
    | step g k hg hk hb hr =>
      obtain ⟨z, g', k', h1, h2, h3, h4⟩ := ih hr
      exact ⟨z, g', k', ReadsN.step g k hg hk hb h1, h2, h3, h4⟩

theorem ReadsN.pow {gs : Layer} {n : Nat} {a : String} (h : ReadsN gs n a a) (j : Nat) :
    ReadsN gs (n * j) a a := by
  induction j with
  | zero => simpa using ReadsN.refl a
  | succ j ih =>
    have := ih.trans h
    rw [Nat.mul_succ]; exact this

/-- bounded chains: no glyph reads itself through components -/
theorem no_cycle {gs : Layer} {fuel n : Nat} {a : String} (hb : Bounded gs fuel) (h : ReadsN gs n a a) : n = 0 := by
  by_cases e : n = 0
  · exact e
  · have h1 := hb _ _ _ (h.pow fuel)
    have : fuel ≤ n * fuel := Nat.le_mul_of_pos_left fuel (Nat.pos_of_ne_zero e)
    omega

/-- Lemma A: an outline is unchanged when every glyph it reads keeps its contours and components -/
theorem outline_agree (n : Nat) (gs gs' : Layer) (x : String)
    (h : ∀ m b, ReadsN gs m x b →
      (AL.get? gs' b).map (fun g => (g.contours, g.comps)) = (AL.get? gs b).map (fun g => (g.contours, g.comps))) :
    outline n gs' x = outline n gs x := by
  induction n generalizing x with
  | zero => rfl
  | succ n ih =>
    unfold outline
    have h0 := h 0 x (ReadsN.refl x)
    cases hg : AL.get? gs x with
    | none =>
      rw [hg] at h0
      cases hg' : AL.get? gs' x with
      | none => rfl
      | some g' => rw [hg'] at h0; simp at h0
    | some g =>
      rw [hg] at h0
      cases hg' : AL.get? gs' x with
      | none => rw [hg'] at h0; simp at h0
      | some g' =>
        rw [hg'] at h0
        simp only [Option.map_some, Option.some.injEq, Prod.mk.injEq] at h0
        simp only [bodyWith]
        rw [h0.1, h0.2]
        congr 3
        apply flatMap_congr'
        intro k hk
        unfold compHead
        cases hb : k.base with
        | none => rfl
        | some c =>
          simp only
          rw [ih c (fun m b hr => h (m + 1) b (ReadsN.step g k hg hk hb hr))]

/-! ### routes -/

abbrev cbPosts (T : Tables) : List String := T.postsOf "Component" "baseGlyphDataChangedNotificationCallback"
abbrev bgPosts (T : Tables) : List String := T.postsOf "Glyph" "_componentBaseGlyphDataChanged"

theorem mem_watchers {gs : Layer} {a x' : String} {g : GlyphS} {k : CompS}
    (hg : AL.get? gs x' = some g) (hk : k ∈ g.comps) (hw : watchesBase a k = true) :
    (x', k.id) ∈ watchers gs a := by
  unfold watchers
  rw [List.mem_flatMap]
  refine ⟨(x', g), AL.mem_of_get? hg, ?_⟩
  rw [List.mem_map]
  exact ⟨k, by simp [List.mem_filter, hk, hw], rfl⟩

theorem glyphDeliv_self {n : Nat} {T : Tables} {gs : Layer} {a : String} {ns : List String} {y : String}
    (hy : y ∈ ns) : (Obj.glyph a, y) ∈ glyphDeliv (n + 1) T gs a ns := by
  unfold glyphDeliv
  apply List.mem_append_left
  rw [List.mem_map]
  exact ⟨y, hy, rfl⟩

theorem glyphDeliv_watcher {n : Nat} {T : Tables} {gs : Layer} {a : String} {ns : List String}
    {x' : String} {kid : Nat} (hr : relays ns = true) (hw : (x', kid) ∈ watchers gs a)
    {y : Obj × String} (hy : y ∈ compRelay (glyphDeliv n T gs) T x' kid (cbPosts T)) :
    y ∈ glyphDeliv (n + 1) T gs a ns := by
  unfold glyphDeliv
  apply List.mem_append_right
  simp only [hr, if_true]
  rw [List.mem_flatMap]
  exact ⟨(x', kid), hw, hy⟩

theorem compRelay_self {rec : String → List String → List (Obj × String)} {T : Tables} {h : String}
    {kid : Nat} {cn : List String} {y : String} (hy : y ∈ cn) : (Obj.comp kid, y) ∈ compRelay rec T h kid cn := by
  unfold compRelay
  apply List.mem_append_left
  apply List.mem_append_left
  rw [List.mem_map]
  exact ⟨y, hy, rfl⟩

theorem compRelay_bg {rec : String → List String → List (Obj × String)} {T : Tables} {h : String}
    {kid : Nat} {cn : List String} (hc : cn.contains "Component.BaseGlyphDataChanged" = true)
    {y : Obj × String} (hy : y ∈ rec h (bgPosts T)) : y ∈ compRelay rec T h kid cn := by
  unfold compRelay
  apply List.mem_append_right
  simp only [hc, if_true]
  exact hy

theorem compRelay_changed {rec : String → List String → List (Obj × String)} {T : Tables} {h : String}
    {kid : Nat} {cn : List String} (hc : cn.contains "Component.Changed" = true)
    {y : Obj × String} (hy : y ∈ rec h (T.postsOf "Glyph" "_componentChanged")) : y ∈ compRelay rec T h kid cn := by
  unfold compRelay
  apply List.mem_append_left
  apply List.mem_append_right
  simp only [hc, if_true]
  exact hy

/-- Cascade completeness.  The glyph named `a` posts `ns` (which contains ContoursChanged or
ComponentsChanged).  Then every component whose base reads `a` through any number of hops receives
what the base-glyph data callback posts, and its glyph posts what `_componentBaseGlyphDataChanged`
posts, with fuel left to carry on. -/
theorem cascade_complete (T : Tables) (gs : Layer) (fuel : Nat) (a : String) (ns : List String)
    (hBG : relays (bgPosts T) = true)
    (hcb : (cbPosts T).contains "Component.BaseGlyphDataChanged" = true)
    (hb : Bounded gs fuel)
    (hW : ∀ m x, ReadsN gs m x a → ∀ x' g k, AL.get? gs x' = some g → k ∈ g.comps → k.base = some x →
      k.watch = Watch.base)
    (hr : relays ns = true) :
    ∀ m x, ReadsN gs m x a → ∀ x' g k, AL.get? gs x' = some g → k ∈ g.comps → k.base = some x →
      (∀ y, y ∈ cbPosts T → (Obj.comp k.id, y) ∈ glyphDeliv fuel T gs a ns) ∧
      (∀ y, y ∈ glyphDeliv (fuel - m - 1) T gs x' (bgPosts T) → y ∈ glyphDeliv fuel T gs a ns) := by
  intro m
  induction m with
  | zero =>
    intro x hx x' g k hg hk hbase
    cases hx
    have hw : watchesBase a k = true := by
      simp [watchesBase, hW 0 a (ReadsN.refl a) x' g k hg hk hbase, hbase]
    have hmem := mem_watchers hg hk hw
    have hlen := hb _ _ _ (ReadsN.step g k hg hk hbase (ReadsN.refl a))
    obtain ⟨j, hj⟩ : ∃ j, fuel = j + 1 := ⟨fuel - 1, by omega⟩
    subst hj
    refine ⟨fun y hy => glyphDeliv_watcher hr hmem (compRelay_self hy), ?_⟩
    intro y hy
    have e : j + 1 - 0 - 1 = j := by omega
    rw [e] at hy
    exact glyphDeliv_watcher hr hmem (compRelay_bg hcb hy)
  | succ n ih =>
    intro x hx x' g k hg hk hbase
    cases hx with
    | step g1 k1 hg1 hk1 hb1 hrest =>
      have hx' : ReadsN gs (n + 1) x a := ReadsN.step g1 k1 hg1 hk1 hb1 hrest
      obtain ⟨_, hsub⟩ := ih _ hrest x g1 k1 hg1 hk1 hb1
      have hw : watchesBase x k = true := by
        simp [watchesBase, hW (n + 1) x hx' x' g k hg hk hbase, hbase]
      have hmem := mem_watchers hg hk hw
      have hlen := hb _ _ _ (ReadsN.step g k hg hk hbase hx')
      obtain ⟨j, hj⟩ : ∃ j, fuel - n - 1 = j + 1 := ⟨fuel - n - 2, by omega⟩
      rw [hj] at hsub
      refine ⟨fun y hy => hsub _ (glyphDeliv_watcher hBG hmem (compRelay_self hy)), ?_⟩
      intro y hy
      have e : fuel - (n + 1) - 1 = j := by omega
      rw [e] at hy
      exact hsub _ (glyphDeliv_watcher hBG hmem (compRelay_bg hcb hy))

/-- … in particular the glyph that holds such a component receives every notification that
`_componentBaseGlyphDataChanged` posts -/
theorem cascade_glyph (T : Tables) (gs : Layer) (fuel : Nat) (a : String) (ns : List String)
    (hBG : relays (bgPosts T) = true)
    (hcb : (cbPosts T).contains "Component.BaseGlyphDataChanged" = true)
    (hb : Bounded gs fuel)
    (hW : ∀ m x, ReadsN gs m x a → ∀ x' g k, AL.get? gs x' = some g → k ∈ g.comps → k.base = some x →
      k.watch = Watch.base)
    (hr : relays ns = true)
    {m : Nat} {x x' : String} {g : GlyphS} {k : CompS} (hx : ReadsN gs m x a)
    (hg : AL.get? gs x' = some g) (hk : k ∈ g.comps) (hbase : k.base = some x)
    {y : String} (hy : y ∈ bgPosts T) : (Obj.glyph x', y) ∈ glyphDeliv fuel T gs a ns := by
  have h := (cascade_complete T gs fuel a ns hBG hcb hb hW hr m x hx x' g k hg hk hbase).2
  have hlen := hb _ _ _ (ReadsN.step g k hg hk hbase hx)
  obtain ⟨j, hj⟩ : ∃ j, fuel - m - 1 = j + 1 := ⟨fuel - m - 2, by omega⟩
  rw [hj] at h
  exact h _ (glyphDeliv_self hy)

/-! ### small list facts -/

theorem find?_insertAt {α : Type} (l : List α) (i : Nat) (a : α) (q : α → Bool) (ha : q a = false) :
    (insertAt l i a).find? q = l.find? q := by
  unfold insertAt
  conv => rhs; rw [← List.take_append_drop i l]
  simp only [List.find?_append, List.find?_cons, ha]

theorem any_insertAt {α : Type} (l : List α) (i : Nat) (a : α) (q : α → Bool) (ha : q a = false) :
    (insertAt l i a).any q = l.any q := by
  unfold insertAt
  conv => rhs; rw [← List.take_append_drop i l]
  simp only [List.any_append, List.any_cons, ha, Bool.false_or]

theorem find?_filter_of_imp {α : Type} (l : List α) (p q : α → Bool) (h : ∀ x, q x = true → p x = true) :
    (l.filter p).find? q = l.find? q := by
  induction l with
  | nil => rfl
  | cons a r ih =>
    by_cases hp : p a = true
    · simp only [List.filter_cons, hp, if_true, List.find?_cons, ih]
    · have hq : q a = false := by
        cases hq : q a with
        | false => rfl
        | true => exact absurd (h a hq) hp
      rw [List.filter_cons_of_neg (by simpa using hp), List.find?_cons_of_neg (by simp [hq])]
      exact ih

theorem any_filter_of_imp {α : Type} (l : List α) (p q : α → Bool) (h : ∀ x, q x = true → p x = true) :
    (l.filter p).any q = l.any q := by
  induction l with
  | nil => rfl
  | cons a r ih =>
    by_cases hp : p a = true
    · simp only [List.filter_cons, hp, if_true, List.any_cons, ih]
    · have hq : q a = false := by
        cases hq : q a with
        | false => rfl
        | true => exact absurd (h a hq) hp
      rw [List.filter_cons_of_neg (by simpa using hp), List.any_cons, hq, Bool.false_or]
      exact ih

theorem find?_append_single {α : Type} (l : List α) (a : α) (q : α → Bool) (ha : q a = false) :
    (l ++ [a]).find? q = l.find? q := by
  simp [List.find?_append, List.find?_cons, ha]

theorem find?_map_id_pres {α : Type} (l : List α) (fn : α → α) (q : α → Bool)
    (h : ∀ x, q (fn x) = q x) (h2 : ∀ x, q x = true → fn x = x) :
    (l.map fn).find? q = l.find? q := by
  induction l with
  | nil => rfl
  | cons a r ih =>
    simp only [List.map_cons, List.find?_cons, h a, ih]
    cases hq : q a with
    | false => rfl
    | true => simp [h2 a hq]

theorem any_map_pres {α : Type} (l : List α) (fn : α → α) (q : α → Bool) (h : ∀ x, q (fn x) = q x) :
    (l.map fn).any q = l.any q := by
  induction l with
  | nil => rfl
  | cons a r ih => simp only [List.map_cons, List.any_cons, h a, ih]

/-! ### looking hosts up after one glyph record was replaced -/

theorem find?_set_congr (gs : Layer) (h : String) (g g' : GlyphS) (pred : GlyphS → Bool)
    (hn : (AL.keys gs).Nodup) (hg : AL.get? gs h = some g) (hp : pred g' = pred g) :
    (AL.set gs h g').find? (fun p => pred p.2) =
      (gs.find? (fun p => pred p.2)).map (fun p => if p.1 = h then (h, g') else p) := by
  induction gs with
  | nil => simp at hg
  | cons q r ih =>
    obtain ⟨k', v'⟩ := q
    simp only [AL.keys, List.map_cons, List.nodup_cons] at hn
    by_cases h1 : k' = h
    · subst h1
      simp only [AL.get?_cons, if_true, Option.some.injEq] at hg
      subst hg
      simp only [AL.set, if_true, List.find?_cons, hp]
      cases hpv : pred v' with
      | true => simp
      | false =>
        simp only
        -- no later entry has key k'
        have : ∀ p, p ∈ r → p.1 ≠ k' := by
          intro p hp' e
          exact hn.1 (by rw [← e]; exact List.mem_map_of_mem (f := Prod.fst) hp')
        cases hf : r.find? (fun p => pred p.2) with
        | none => simp
        | some p =>
          have := this p (List.mem_of_find?_eq_some hf)
          simp [this]
    · simp only [AL.get?_cons, h1, if_false] at hg
      simp only [AL.set, h1, if_false, List.find?_cons]
      cases hpv : pred v' with
      | true => simp [h1]
      | false =>
        simp only
        exact ih hn.2 hg

theorem get?_updGlyph (gs : Layer) (h : String) (fn : GlyphS → GlyphS) (x : String) :
    AL.get? (updGlyph gs h fn) x = if h = x then (AL.get? gs h).map fn else AL.get? gs x := by
  unfold updGlyph
  cases hg : AL.get? gs h with
  | none =>
    by_cases e : h = x
    · subst e; simp [hg]
    · simp [e]
  | some g =>
    simp only [Option.map_some]
    rw [AL.get?_set]

theorem updGlyph_eq_set {gs : Layer} {h : String} {g : GlyphS} (fn : GlyphS → GlyphS)
    (hg : AL.get? gs h = some g) : updGlyph gs h fn = AL.set gs h (fn g) := by
  unfold updGlyph; rw [hg]

/-! ### views after one glyph record was replaced -/

theorem outline_set (n : Nat) (gs : Layer) (h : String) (g g' : GlyphS) (hg : AL.get? gs h = some g) (c : String)
    (hc : (g'.contours = g.contours ∧ g'.comps = g.comps) ∨ ∀ m, ¬ ReadsN (AL.set gs h g') m c h) :
    outline n gs c = outline n (AL.set gs h g') c := by
  apply outline_agree
  intro m b hr
  by_cases e : h = b
  · subst e
    rcases hc with hc | hc
    · simp [hg, hc.1, hc.2]
    · exact absurd hr (hc m)
  · rw [AL.get?_set_ne _ _ _ _ e]

theorem compHead_set (n : Nat) (gs : Layer) (h : String) (g g' : GlyphS) (hg : AL.get? gs h = some g) (k : CompS)
    (hc : (g'.contours = g.contours ∧ g'.comps = g.comps) ∨
      ∀ c m, k.base = some c → ¬ ReadsN (AL.set gs h g') m c h) :
    compHead (outline n gs) k = compHead (outline n (AL.set gs h g')) k := by
  unfold compHead
  cases hb : k.base with
  | none => rfl
  | some c =>
    simp only
    rw [outline_set n gs h g g' hg c]
    rcases hc with hc | hc
    · exact Or.inl hc
    · exact Or.inr (fun m => hc c m hb)

section ViewFrame
variable {V : Type}

theorem view_glyph_other (T : Tables) (w w1 : World V) (h : String) (g g' : GlyphS)
    (hg : AL.get? w.glyphs h = some g) (hgs : w1.glyphs = AL.set w.glyphs h g') (hf : w1.fuel = w.fuel)
    (x : String) (hx : h ≠ x) (nm : String)
    (hno : (g'.contours = g.contours ∧ g'.comps = g.comps) ∨
      ∀ gx k c m, AL.get? w1.glyphs x = some gx → k ∈ gx.comps → k.base = some c → ¬ ReadsN w1.glyphs m c h) :
    viewOf T w1 (.glyph x) nm = viewOf T w (.glyph x) nm := by
  unfold viewOf
  simp only [hgs, hf]
  rw [AL.get?_set_ne _ _ _ _ hx]
  cases hgx : AL.get? w.glyphs x with
  | none => rfl
  | some gx =>
    simp only [Option.map_some, Option.getD_some]
    have key : glyphOutline w.fuel (AL.set w.glyphs h g') gx = glyphOutline w.fuel w.glyphs gx := by
      unfold glyphOutline bodyWith
      congr 3
      apply flatMap_congr'
      intro k hk
      symm
      apply compHead_set _ _ _ _ _ hg
      rcases hno with hno | hno
      · exact Or.inl hno
      · refine Or.inr (fun c m hb => ?_)
        have := hno gx k c m (by rw [hgs, AL.get?_set_ne _ _ _ _ hx]; exact hgx) hk hb
        rw [hgs] at this; exact this
    unfold glyphView
    rw [key]

theorem view_comp_same (T : Tables) (w w1 : World V) (h : String) (g g' : GlyphS)
    (hg : AL.get? w.glyphs h = some g) (hgs : w1.glyphs = AL.set w.glyphs h g') (hf : w1.fuel = w.fuel)
    (kid : Nat) (k : CompS) (hk1 : findComp w1 kid = some k) (hk : findComp w kid = some k) (nm : String)
    (hno : (g'.contours = g.contours ∧ g'.comps = g.comps) ∨
      ∀ c m, k.base = some c → ¬ ReadsN w1.glyphs m c h) :
    viewOf T w1 (.comp kid) nm = viewOf T w (.comp kid) nm := by
  unfold viewOf
  simp only [hk1, hk, Option.map_some, Option.getD_some, hf]
  unfold compView compToks
  rw [hgs]
  rw [← compHead_set _ _ _ _ _ hg]
  rw [hgs] at hno; exact hno

/-- an attached component's record sits in the component list of a glyph of the layer -/
theorem findComp_attached (w : World V) (hn : (AL.keys w.glyphs).Nodup) (kid : Nat) (k : CompS)
    (ha : attached w (.comp kid) = true) (hk : findComp w kid = some k) :
    ∃ x gx, AL.get? w.glyphs x = some gx ∧ k ∈ gx.comps := by
  unfold attached at ha
  unfold findComp at hk
  cases hh : hostOfComp w.glyphs kid with
  | none => simp [hh] at ha
  | some p =>
    rw [hh] at hk
    simp only at hk
    unfold hostOfComp at hh
    have hm := List.mem_of_find?_eq_some hh
    refine ⟨p.1, p.2, AL.get?_of_mem_nodup hn hm, ?_⟩
    exact List.mem_of_find?_eq_some hk

theorem host_set (w w1 : World V) (h : String) (g g' : GlyphS) (pred : GlyphS → Bool)
    (hn : (AL.keys w.glyphs).Nodup) (hg : AL.get? w.glyphs h = some g)
    (hgs : w1.glyphs = AL.set w.glyphs h g') (hp : pred g' = pred g) :
    (w1.glyphs.find? fun p => pred p.2) = none ∧ (w.glyphs.find? fun p => pred p.2) = none ∨
    ∃ p, (w.glyphs.find? fun p => pred p.2) = some p ∧
      ((p.1 = h ∧ p.2 = g ∧ (w1.glyphs.find? fun p => pred p.2) = some (h, g')) ∨
       (p.1 ≠ h ∧ (w1.glyphs.find? fun p => pred p.2) = some p)) := by
  rw [hgs, find?_set_congr w.glyphs h g g' pred hn hg hp]
  cases hf : w.glyphs.find? (fun p => pred p.2) with
  | none => exact Or.inl ⟨rfl, rfl⟩
  | some p =>
    refine Or.inr ⟨p, rfl, ?_⟩
    by_cases e : p.1 = h
    · refine Or.inl ⟨e, ?_, by simp [e]⟩
      have hm := List.mem_of_find?_eq_some hf
      have := AL.get?_of_mem_nodup hn hm
      rw [e, hg] at this
      exact (Option.some.inj this).symm
    · exact Or.inr ⟨e, by simp [e]⟩

theorem findContour_set (w w1 : World V) (h : String) (g g' : GlyphS)
    (hn : (AL.keys w.glyphs).Nodup) (hg : AL.get? w.glyphs h = some g)
    (hgs : w1.glyphs = AL.set w.glyphs h g') (cid : Nat)
    (hl : (w1.looseC.find? fun c => c.id = cid) = (w.looseC.find? fun c => c.id = cid))
    (hhas : hasContour cid g' = hasContour cid g) (hin : contourIn g' cid = contourIn g cid) :
    findContour w1 cid = findContour w cid := by
  unfold findContour hostOfContour
  rcases host_set w w1 h g g' (hasContour cid) hn hg hgs hhas with ⟨h1, h2⟩ | ⟨p, h2, ⟨e1, e2, h1⟩ | ⟨_, h1⟩⟩
  · rw [h1, h2, hl]
  · rw [h1, h2]; simp only; rw [hin, e2]
  · rw [h1, h2]

theorem findComp_set (w w1 : World V) (h : String) (g g' : GlyphS)
    (hn : (AL.keys w.glyphs).Nodup) (hg : AL.get? w.glyphs h = some g)
    (hgs : w1.glyphs = AL.set w.glyphs h g') (kid : Nat)
    (hl : (w1.looseK.find? fun k => k.id = kid) = (w.looseK.find? fun k => k.id = kid))
    (hhas : hasComp kid g' = hasComp kid g) (hin : compIn g' kid = compIn g kid) :
    findComp w1 kid = findComp w kid := by
  unfold findComp hostOfComp
  rcases host_set w w1 h g g' (hasComp kid) hn hg hgs hhas with ⟨h1, h2⟩ | ⟨p, h2, ⟨e1, e2, h1⟩ | ⟨_, h1⟩⟩
  · rw [h1, h2, hl]
  · rw [h1, h2]; simp only; rw [hin, e2]
  · rw [h1, h2]

theorem attached_contour_set (w w1 : World V) (h : String) (g g' : GlyphS)
    (hn : (AL.keys w.glyphs).Nodup) (hg : AL.get? w.glyphs h = some g)
    (hgs : w1.glyphs = AL.set w.glyphs h g') (cid : Nat)
    (hhas : hasContour cid g' = hasContour cid g) :
    attached w1 (.contour cid) = attached w (.contour cid) := by
  simp only [attached, hostOfContour]
  rcases host_set w w1 h g g' (hasContour cid) hn hg hgs hhas with ⟨h1, h2⟩ | ⟨p, h2, ⟨e1, e2, h1⟩ | ⟨_, h1⟩⟩
  · rw [h1, h2]
  · rw [h1, h2]; rfl
  · rw [h1, h2]

theorem attached_comp_set (w w1 : World V) (h : String) (g g' : GlyphS)
    (hn : (AL.keys w.glyphs).Nodup) (hg : AL.get? w.glyphs h = some g)
    (hgs : w1.glyphs = AL.set w.glyphs h g') (kid : Nat)
    (hhas : hasComp kid g' = hasComp kid g) :
    attached w1 (.comp kid) = attached w (.comp kid) := by
  simp only [attached, hostOfComp]
  rcases host_set w w1 h g g' (hasComp kid) hn hg hgs hhas with ⟨h1, h2⟩ | ⟨p, h2, ⟨e1, e2, h1⟩ | ⟨_, h1⟩⟩
  · rw [h1, h2]
  · rw [h1, h2]; rfl
  · rw [h1, h2]

theorem attached_glyph_set (w w1 : World V) (h : String) (g g' : GlyphS)
    (hg : AL.get? w.glyphs h = some g) (hgs : w1.glyphs = AL.set w.glyphs h g') (x : String) :
    attached w1 (.glyph x) = attached w (.glyph x) := by
  simp only [attached]
  rw [hgs, AL.contains_set]
  by_cases e : h = x
  · subst e; simp [AL.contains, hg]
  · simp [e]

theorem viewOf_contour_of_find (T : Tables) {w w1 : World V} {cid : Nat}
    (h : findContour w1 cid = findContour w cid) (nm : String) :
    viewOf T w1 (.contour cid) nm = viewOf T w (.contour cid) nm := by
  simp only [viewOf, h]

/-- the replaced glyph itself, when its contours and components are kept: a built-in factory sees no change -/
theorem view_glyph_self_builtin (T : Tables) (w w1 : World V) (h : String) (g g' : GlyphS)
    (hg : AL.get? w.glyphs h = some g) (hgs : w1.glyphs = AL.set w.glyphs h g') (hf : w1.fuel = w.fuel)
    (hc : g'.contours = g.contours) (hk : g'.comps = g.comps) (nm : String)
    (hbi : isBuiltin T "Glyph" nm = true) :
    viewOf T w1 (.glyph h) nm = viewOf T w (.glyph h) nm := by
  simp only [viewOf, hgs, hf, AL.get?_set_self, hg, Option.map_some, Option.getD_some]
  unfold glyphView
  simp only [hbi, if_true]
  unfold glyphOutline bodyWith
  rw [hc, hk]
  congr 3
  apply flatMap_congr'
  intro k _
  symm
  exact compHead_set _ _ _ _ _ hg k (Or.inl ⟨hc, hk⟩)

theorem SameStruct.symm {w w' : World V} (h : SameStruct w w') : SameStruct w' w :=
  ⟨h.glyphs.symm, h.looseC.symm, h.looseK.symm, h.fuel.symm, h.groupsVer.symm, h.regs.symm⟩

end ViewFrame

/-! ### coverage facts -/

theorem cov_mem {T : Tables} (h : Coverage T = true) {b : Bool} (hb : b ∈ covList T) : b = true := by
  unfold Coverage at h
  simpa using List.all_eq_true.mp h b hb

theorem cov_glyphOutline {T : Tables} (h : Coverage T = true) {m : String} (hm : m ∈ glyphOutlineMethods) :
    hitsAll T "Glyph" (T.postsOf "Glyph" m) = true ∧ relays (T.postsOf "Glyph" m) = true := by
  have h1 : glyphOutlineMethods.all (covGlyphOutline T) = true := cov_mem h (by simp [covList])
  have := List.all_eq_true.mp h1 m hm
  simpa [covGlyphOutline] using this

theorem cov_compCallback {T : Tables} (h : Coverage T = true) {cb : String} (hm : cb ∈ compCallbacks) :
    (T.factoriesOf "Component").all (fun p => (T.postsOf "Component" cb).any fun n => p.2.hit n) = true ∧
    (T.postsOf "Component" cb).contains "Component.BaseGlyphDataChanged" = true := by
  have h1 : compCallbacks.all (covCompCallback T) = true := cov_mem h (by simp [covList])
  have := List.all_eq_true.mp h1 cb hm
  simpa [covCompCallback] using this

theorem mem_facsOf_builtin {T : Tables} {regs : List (String × String × Destr)} {cls : String} {p : String × Destr}
    (h : p ∈ T.factoriesOf cls) : p ∈ facsOf T regs cls := by
  unfold facsOf; exact List.mem_append_left _ h

/-- a registered name is destroyed by some notification of a list that `hitsAll` -/
theorem hits_of_hitsAll {T : Tables} {regs : List (String × String × Destr)} {cls : String} {ns : List String}
    {nm : String} (hreg : ∀ r, r ∈ regs → r.2.2 = T.defaultDestr r.1) (hall : hitsAll T cls ns = true)
    (hnm : (facsOf T regs cls).any (fun p => p.1 = nm) = true) :
    ∃ d y, (nm, d) ∈ facsOf T regs cls ∧ y ∈ ns ∧ d.hit y = true := by
  rw [List.any_eq_true] at hnm
  obtain ⟨p, hp, hpn⟩ := hnm
  simp only [decide_eq_true_eq] at hpn
  subst hpn
  unfold hitsAll at hall
  rw [Bool.and_eq_true] at hall
  have hp' := hp
  unfold facsOf at hp'
  rw [List.mem_append] at hp'
  rcases hp' with hb | hr
  · have := List.all_eq_true.mp hall.1 p hb
    rw [List.any_eq_true] at this
    obtain ⟨y, hy, hh⟩ := this
    exact ⟨p.2, y, hp, hy, hh⟩
  · rw [List.mem_filterMap] at hr
    obtain ⟨r, hr1, hr2⟩ := hr
    by_cases e : r.1 = cls
    · simp only [e, if_true, Option.some.injEq] at hr2
      have hd : p.2 = T.defaultDestr cls := by rw [← hr2]; simp only; rw [hreg r hr1, e]
      have := hall.2
      unfold hitsReg at this
      rw [List.any_eq_true] at this
      obtain ⟨y, hy, hh⟩ := this
      exact ⟨p.2, y, hp, hy, by rw [hd]; exact hh⟩
    · simp [e] at hr2

/-- a name registered at run time (not a class-level one) is destroyed by a list that `hitsReg` -/
theorem hits_of_hitsReg {T : Tables} {regs : List (String × String × Destr)} {cls : String} {ns : List String}
    {nm : String} (hreg : ∀ r, r ∈ regs → r.2.2 = T.defaultDestr r.1) (hall : hitsReg T cls ns = true)
    (hnm : (facsOf T regs cls).any (fun p => p.1 = nm) = true) (hnb : isBuiltin T cls nm = false) :
    ∃ d y, (nm, d) ∈ facsOf T regs cls ∧ y ∈ ns ∧ d.hit y = true := by
  rw [List.any_eq_true] at hnm
  obtain ⟨p, hp, hpn⟩ := hnm
  simp only [decide_eq_true_eq] at hpn
  subst hpn
  have hp' := hp
  unfold facsOf at hp'
  rw [List.mem_append] at hp'
  rcases hp' with hb | hr
  · exfalso
    unfold isBuiltin at hnb
    have : (T.factoriesOf cls).any (fun q => q.1 = p.1) = true := by
      rw [List.any_eq_true]; exact ⟨p, hb, by simp⟩
    rw [this] at hnb; exact Bool.noConfusion hnb
  · rw [List.mem_filterMap] at hr
    obtain ⟨r, hr1, hr2⟩ := hr
    by_cases e : r.1 = cls
    · simp only [e, if_true, Option.some.injEq] at hr2
      have hd : p.2 = T.defaultDestr cls := by rw [← hr2]; simp only; rw [hreg r hr1, e]
      unfold hitsReg at hall
      rw [List.any_eq_true] at hall
      obtain ⟨y, hy, hh⟩ := hall
      exact ⟨p.2, y, hp, hy, by rw [hd]; exact hh⟩
    · simp [e] at hr2

section Survivors
variable {V : Type}

theorem not_survivor {T : Tables} {w : World V} {ds : List (Obj × String)} {o : Obj} {nm : String} {sk : SubKey}
    {v : V} (hs : (cacheOf (applyDeliv T w ds) o).get? nm sk = some v) {d : Destr} {y : String}
    (hd : (nm, d) ∈ facsOf T w.regs o.cls) (hy : (o, y) ∈ ds) (hh : d.hit y = true) : False := by
  have := (get?_applyDeliv T w ds o nm sk v hs).2 y hy d hd
  rw [hh] at this; exact Bool.noConfusion this

end Survivors

end Repr
end DefconModel
