/-
M-Classes: executable model of how defcon decides WHICH CLASS to instantiate for each part of a font
(C15).  Core Lean only.

The code (Lib/defcon/objects/{font,layerSet,layer,glyph,contour}.py) works like this:

* `Font.__init__` takes 17 `*Class` keyword arguments (one per role), replaces some `None`s by a
  default class (`if infoClass is None: infoClass = Info`) and stores each in a private attribute
  (`self._infoClass = infoClass`) — a *slot*.  Nothing ever writes a slot again.
* Every object is created at a *creation site*: a call `self._xClass(...)` (the callee is the value of a
  slot), `self.xClass(...)` (a read-only property returning a slot), `self.__class__(...)`
  (`Contour.reverse`) or a hard-coded class name (`Info()` in `Font.reloadInfo`).
* A site that creates a LayerSet / Layer / Glyph / Contour hands (some of) its own slots on as keyword
  arguments; the new object's `__init__` defaults and stores them again.  So the class registered
  with the font travels  Font → LayerSet → Layer → Glyph → Contour  through five constructors.

`Wiring` is that structure as DATA; the instance for the code that exists is REGENERATED from the
source AST on every run (`Gen/ClassWiring.lean`, by harness/extract_classwiring.py).  This file gives
the data its meaning: `runInit` executes a constructor's class-related statements, `step` creates an
object at a site, `reach` follows a chain of creations from `Font(**kwargs)`, `classAt` is the class a
site instantiates inside a given object.

Modelled assumption (the one C15 is stated under): a registered class for role `r` is a subclass of
defcon's default class for `r` that inherits its `__init__` and `instantiate*` methods — `Val.user i b`
is "user class number `i`, behaving like defcon class `b`".
-/
import DefconModel.Util.AL

namespace DefconModel
namespace Classes

/-- The 17 roles the property lists. -/
inductive Role where
  | glyph | contour | point | component | anchor | image | guideline | lib | layer | layerSet
  | info | kerning | groups | features | unicodeData | imageSet | dataSet
deriving DecidableEq, Repr

def Role.all : List Role :=
  [.glyph, .contour, .point, .component, .anchor, .image, .guideline, .lib, .layer, .layerSet,
   .info, .kerning, .groups, .features, .unicodeData, .imageSet, .dataSet]

abbrev CName := String    -- a defcon class name as written in the source
abbrev Attr := String     -- a private attribute `_xClass`
abbrev Ident := String    -- a parameter / keyword / property name

/-- defcon's own class for a role (what `Font()` uses when nothing is registered). -/
def dfltName : Role → CName
  | .glyph => "Glyph" | .contour => "Contour" | .point => "Point" | .component => "Component"
  | .anchor => "Anchor" | .image => "Image" | .guideline => "Guideline" | .lib => "Lib"
  | .layer => "Layer" | .layerSet => "LayerSet" | .info => "Info" | .kerning => "Kerning"
  | .groups => "Groups" | .features => "Features" | .unicodeData => "UnicodeData"
  | .imageSet => "ImageSet" | .dataSet => "DataSet"

/-- `Font.__init__`'s public keyword for each role (the registration API). -/
def fontKw : List (Ident × Role) :=
  [("glyphClass", .glyph), ("glyphContourClass", .contour), ("glyphPointClass", .point),
   ("glyphComponentClass", .component), ("glyphAnchorClass", .anchor), ("glyphImageClass", .image),
   ("guidelineClass", .guideline), ("libClass", .lib), ("layerClass", .layer), ("layerSetClass", .layerSet),
   ("infoClass", .info), ("kerningClass", .kerning), ("groupsClass", .groups), ("featuresClass", .features),
   ("unicodeDataClass", .unicodeData), ("imageSetClass", .imageSet), ("dataSetClass", .dataSet)]

/-! ## The wiring as data -/

/-- where a `*Class` keyword argument of a call comes from -/
inductive Src where
  | slot (a : Attr)      -- `self._xClass`
  | prop (p : Ident)     -- `self.xClass` (read-only property)
  | none                 -- literal `None`
  | other                -- anything else (a local variable, …)
deriving DecidableEq, Repr

/-- the expression in callee position of a creation site -/
inductive ClsExpr where
  | slot (a : Attr)      -- `self._xClass(...)`
  | prop (p : Ident)     -- `self.xClass(...)`
  | sameClass            -- `self.__class__(...)`
  | hard (c : CName)     -- `Info()`
deriving DecidableEq, Repr

def ClsExpr.isHard : ClsExpr → Bool
  | .hard _ => true
  | _ => false

/-- class-related statements of an `__init__`, in source order -/
inductive InitStmt where
  | dflt (p : Ident) (c : CName)    -- `if p is None: p = C`
  | force (p : Ident) (c : CName)   -- `p = C`
  | store (a : Attr) (p : Ident)    -- `self._a = p`
deriving DecidableEq, Repr

structure Site where
  id : String                 -- "<Class>.<method>[#n]" (guards: "…?isinstance")
  owner : String              -- class whose method contains the call (or the module function)
  guard : Bool                -- `isinstance(x, <cls>)` rather than a call
  cls : ClsExpr
  nargs : Nat                 -- positional arguments
  star : Bool                 -- `*args` / `**kwargs` present
  kwargs : List (Ident × Src) -- the `*Class=` keyword arguments
deriving DecidableEq, Repr

structure ClassDef where
  name : CName
  params : List Ident
  init : List InitStmt
  props : List (Ident × Attr)
deriving DecidableEq, Repr

/-- How an entry point that accepts an OBJECT (`insertAnchor(index, anchor)`, `appendContour(contour)`,
`Layer.insertGlyph(glyph)`, …) treats what it is handed.  Extracted from the source like the sites. -/
inductive Adoption where
  | adopt                                       -- `self._contours.insert(index, contour)`: stored as it is
  | convertUnless (guard factory : String)      -- `if not isinstance(x, <guard>): x = self.<factory>(x)`, then stored
  | rebuild (factory : String)                  -- never stored: `dest = <factory>(); dest.copyDataFromGlyph(x)`
  | delegate (entry : String)                   -- hands the object on to another entry point
deriving DecidableEq, Repr

structure Entry where
  id : String                 -- "<Class>.<method>"
  owner : String
  how : Adoption
deriving DecidableEq, Repr

structure Wiring where
  classes : List ClassDef
  sites : List Site
  entries : List Entry := []
deriving Repr

def Wiring.entry (w : Wiring) (id : String) : Option Entry := w.entries.find? (fun e => e.id = id)

def Wiring.classDef (w : Wiring) (n : CName) : Option ClassDef := w.classes.find? (fun c => c.name = n)
def Wiring.site (w : Wiring) (id : String) : Option Site := w.sites.find? (fun s => s.id = id)

/-! ## Values -/

/-- A class object at run time. -/
inductive Val where
  | user (i : Nat) (base : CName)   -- the user's class number `i`, a subclass of defcon's `base`
  | builtin (c : CName)             -- defcon's own class `c`
deriving DecidableEq, Repr

/-- the defcon class whose `__init__` / methods run -/
def Val.base : Val → CName
  | .user _ b => b
  | .builtin c => c

/-- A configuration: which roles are customised, and with which class. -/
abbrev Cfg := Role → Option Nat

/-- the keyword value the user passes for role `r` (`None` when not customised) -/
def registered (cfg : Cfg) (r : Role) : Option Val := (cfg r).map (fun i => .user i (dfltName r))

/-- the class every object of role `r` must have -/
def expected (cfg : Cfg) (r : Role) : Val :=
  match cfg r with
  | some i => .user i (dfltName r)
  | none => .builtin (dfltName r)

/-! ## Semantics (`Option Val` = a Python value that is a class or `None`) -/

abbrev Slots := List (Attr × Option Val)

/-- `if v is None: v = C` -/
def orDefault (v : Option Val) (c : CName) : Option Val :=
  match v with
  | some x => some x
  | none => some (.builtin c)

def look (l : List (Ident × Option Val)) (k : Ident) : Option Val := (AL.get? l k).join

/-- run the class-related statements of an `__init__` -/
def execInit : List InitStmt → List (Ident × Option Val) → Slots → Slots
  | [], _, slots => slots
  | .dflt p c :: r, locals, slots => execInit r (AL.set locals p (orDefault (look locals p) c)) slots
  | .force p c :: r, locals, slots => execInit r (AL.set locals p (some (.builtin c))) slots
  | .store a p :: r, locals, slots => execInit r locals (AL.set slots a (look locals p))

/-- `C.__init__(**args)`: parameters not passed are `None` -/
def runInit (cd : ClassDef) (args : List (Ident × Option Val)) : Slots :=
  execInit cd.init (cd.params.map fun p => (p, look args p)) []

/-- A live object of one of the slot-keeping classes. -/
structure Obj where
  cd : CName          -- the defcon class whose code it runs
  self : Val          -- its actual class (`self.__class__`)
  slots : Slots
deriving DecidableEq, Repr

def slotOf (cd : ClassDef) : Src → Option Attr
  | .slot a => some a
  | .prop p => AL.get? cd.props p
  | .none => none
  | .other => none

/-- value of a keyword argument (`other` is unknown to the model: sites that construct a slot-keeping
class with such an argument are rejected by `Spec.check`) -/
def evalSrc (cd : ClassDef) (o : Obj) (s : Src) : Option Val :=
  match slotOf cd s with
  | some a => look o.slots a
  | none => none

def evalCls (cd : ClassDef) (o : Obj) : ClsExpr → Option Val
  | .slot a => look o.slots a
  | .prop p => match AL.get? cd.props p with
    | some a => look o.slots a
    | none => none
  | .sameClass => some o.self
  | .hard c => some (.builtin c)

/-- the class site `s` instantiates (or tests against) when executed by object `o`;
`none` = the call fails (`None(...)`, missing attribute) or the site is not `o`'s -/
def classAt (w : Wiring) (o : Obj) (s : Site) : Option Val :=
  if s.owner = o.cd then
    match w.classDef o.cd with
    | some cd => evalCls cd o s.cls
    | none => none
  else none

/-- object `o` executes creation site `s` and the product is itself a slot-keeping object:
its class is `classAt`, its slots are what its `__init__` makes of the keyword arguments -/
def step (w : Wiring) (o : Obj) (s : Site) : Option Obj :=
  if s.owner = o.cd then
    match w.classDef o.cd with
    | none => none
    | some cd =>
      match evalCls cd o s.cls with
      | none => none
      | some k =>
        match w.classDef k.base with
        | none => none
        | some cd' => some ⟨cd'.name, k, runInit cd' (s.kwargs.map fun kv => (kv.1, evalSrc cd o kv.2))⟩
  else none

/-- `Font(**kwargs)` with the registered classes -/
def root (w : Wiring) (cfg : Cfg) : Option Obj :=
  match w.classDef "Font" with
  | none => none
  | some cd => some ⟨cd.name, .builtin "Font", runInit cd (fontKw.map fun kr => (kr.1, registered cfg kr.2))⟩

/-- `C(**kwargs)` called by the USER, who hands in the registered classes himself (a free-standing
`Contour(pointClass=font's point class)`, `Glyph(contourClass=…, pointClass=…, …)`): keyword `k` gets the
registration of role `r`; the object itself is of class `self` (a class whose code is defcon's `c`). -/
def freeRoot (w : Wiring) (cfg : Cfg) (c : CName) (self : Val) (kws : List (Ident × Role)) : Option Obj :=
  match w.classDef c with
  | none => none
  | some cd => some ⟨cd.name, self, runInit cd (kws.map fun kr => (kr.1, registered cfg kr.2))⟩

/-- follow a chain of creations starting at the font -/
def reachFrom (w : Wiring) : Option Obj → List Site → Option Obj
  | o, [] => o
  | none, _ => none
  | some o, s :: r => reachFrom w (step w o s) r

def reach (w : Wiring) (cfg : Cfg) (chain : List Site) : Option Obj := reachFrom w (root w cfg) chain

/-- the same by site ids (driver, examples) -/
def reachIds (w : Wiring) (cfg : Cfg) (ids : List String) : Option Obj :=
  match ids.mapM w.site with
  | some chain => reach w cfg chain
  | none => none

/-- value of a public class property (`glyph.pointClass`) -/
def propValue (w : Wiring) (o : Obj) (p : Ident) : Option Val :=
  match w.classDef o.cd with
  | some cd => evalCls cd o (.prop p)
  | none => none

/-! ## Objects handed in by the caller -/

/-- `isinstance(x, cls)` for an `x` of class `v`.  User classes are marker subclasses of a defcon class:
a user class is a subclass of its defcon base and of itself, never of another user class. -/
def isInstance (v cls : Val) : Bool :=
  match v, cls with
  | .user i b, .user j c => i == j && b == c
  | .user _ b, .builtin c => b == c
  | .builtin b, .builtin c => b == c
  | .builtin _, .user _ _ => false

/-- what an entry point made of the object it was handed -/
inductive Stored where
  | asIs                 -- the very object is stored (and handed out later)
  | rebuilt (k : Val)    -- a new object of class `k` is stored instead
deriving DecidableEq, Repr

/-- the class of the object that is stored -/
def Stored.cls (given : Val) : Stored → Val
  | .asIs => given
  | .rebuilt k => k

/-- follow delegations (`appendAnchor` → `insertAnchor`, `Font.insertGlyph` → `Layer.insertGlyph`) -/
def resolveEntry (w : Wiring) : Nat → Entry → Option Entry
  | 0, _ => none
  | n + 1, e =>
    match e.how with
    | .delegate t => (w.entry t).bind (resolveEntry w n)
    | _ => some e

/-- entry point `e` (not a delegation) of object `o` is handed an object of class `given` -/
def store (w : Wiring) (o : Obj) (e : Entry) (given : Val) : Option Stored :=
  match e.how with
  | .adopt => some .asIs
  | .convertUnless g f =>
    match (w.site g).bind (classAt w o), (w.site f).bind (classAt w o) with
    | some k, some n => if isInstance given k then some .asIs else some (.rebuilt n)
    | _, _ => none
  | .rebuild f => ((w.site f).bind (classAt w o)).map .rebuilt
  | .delegate _ => none

end Classes
end DefconModel
