/-
M-Geom, second layer: the cached representations of components and glyphs, and the edits of base
glyphs that must evict them.

`DefconModel/Geom.lean` recomputes `component.bounds`, `component.controlPointBounds` and
`glyph.area` on every request: that is the *functional definition* of these values.  The code
caches them (`BaseObject.getRepresentation`):

* `defcon.component.bounds`, `defcon.component.controlPointBounds` — destroyed by
  `Component.TransformationChanged`, `Component.BaseGlyphChanged`, `Component.BaseGlyphDataChanged`
  (objects/component.py:27-36);
* `defcon.glyph.area` — destroyed by `Glyph.ContoursChanged`, `Glyph.ComponentsChanged`
  (objects/glyph.py:95-100).

A component observes its base glyph (looked up by name in its layer) for `Glyph.ContoursChanged`
and `Glyph.ComponentsChanged`, and the layer for glyphs added, deleted and renamed under that name;
each of these makes it post `Component.BaseGlyphDataChanged`, on which its glyph posts
`Glyph.ComponentsChanged` (objects/glyph.py `_componentBaseGlyphDataChanged`) — so the eviction
travels up through every nesting level.  The model states the *result* of that chain: after the
outline of the glyph named `n` changed, exactly the component caches whose base reaches `n`
through component references, and the area caches of the glyphs that reach `n`, are gone
(`usesS`, with the same nesting fuel as `glyphCalls`; cyclic references are outside the domain).

This file adds
* the edits the first layer lacks (`XOp`): point edits, assignments of a component's
  transformation / base glyph, deleting and renaming a glyph (`newGlyph` after a deletion re-adds);
  `xstep` is their functional semantics on a `World`;
* the cache tables (`CWorld`) and `cstep`, the semantics with caches: reads answer from the tables
  and fill them, mutations evict.

That `cstep` answers what `xstep` answers in every reachable state is proved in
`Lemmas/Geom/CacheLayer.lean` (theorems `base_edit_reflected*` of Props/C17.lean).

Core Lean only.
-/
import DefconModel.Geom

namespace DefconModel
namespace Geom

/-! ## More edits (functional semantics) -/

inductive XOp where
  | base (op : Op)
  /-- `p = contour[j]; p.x, p.y = x, y; contour.postNotification("Contour.PointsChanged"); contour.dirty = True` -/
  | cSetPoint (g : String) (i j : Nat) (x y : Rat)
  /-- `contour.insertPoint(j, point)` -/
  | cInsertPoint (g : String) (i j : Nat) (p : Point)
  /-- `contour.removePoint(contour[j])` -/
  | cRemovePoint (g : String) (i j : Nat)
  /-- `component.transformation = t` -/
  | kSetT (g : String) (j : Nat) (t : Transform)
  /-- `component.baseGlyph = b` -/
  | kSetBase (g : String) (j : Nat) (b : String)
  /-- `del layer[g]` -/
  | gDelete (g : String)
  /-- `layer[g].name = new` (to a name not in the layer) -/
  | gRename (g : String) (new : String)
deriving Repr

/-- an edit of the point list of contour `i` of glyph `name`: `Contour.PointsChanged` destroys the
contour's cached representations -/
def editContour (w : World) (name : String) (i : Nat) (f : List Point → Except Err (List Point)) : World × Res :=
  onContour w name i (fun c =>
    match f c.points with
    | .error e => (c, .err e)
    | .ok pts => ({ points := pts }, .ok))

def setPointAt (j : Nat) (x y : Rat) (pts : List Point) : Except Err (List Point) :=
  match pts[j]? with
  | none => .error .index
  | some p => .ok (pts.set j { p with pt := ⟨x, y⟩ })

/-- `list.insert(j, p)` (an index past the end appends) -/
def insertPointAt (j : Nat) (p : Point) (pts : List Point) : Except Err (List Point) :=
  .ok (pts.take j ++ p :: pts.drop j)

def removePointAt (j : Nat) (pts : List Point) : Except Err (List Point) :=
  if j < pts.length then .ok (pts.eraseIdx j) else .error .index

def editComponent (w : World) (name : String) (j : Nat) (f : Component → Component) : World × Res :=
  onGlyph w name (fun gl =>
    match gl.components[j]? with
    | none => (gl, .err .index)
    | some k => ({ gl with components := setAt gl.components j (f k) }, .ok))

def dropGlyph (w : World) (name : String) : World :=
  { w with glyphs := w.glyphs.filter (fun p => decide (p.1 ≠ name)) }

def xstep (o : CurveOracle) (w : World) : XOp → World × Res
  | .base op => step o w op
  | .cSetPoint g i j x y => editContour w g i (setPointAt j x y)
  | .cInsertPoint g i j p => editContour w g i (insertPointAt j p)
  | .cRemovePoint g i j => editContour w g i (removePointAt j)
  | .kSetT g j t => editComponent w g j (fun k => { k with t := t })
  | .kSetBase g j b => editComponent w g j (fun k => { k with base := b })
  | .gDelete g =>
    match AL.get? w.glyphs g with
    | none => (w, .err .key)
    | some _ => (dropGlyph w g, .ok)
  | .gRename g new =>
    match AL.get? w.glyphs g with
    | none => (w, .err .key)
    | some gl =>
      if new = g then (w, .ok)
      else if (AL.get? w.glyphs new).isSome then (w, .err .unsupported)
      else (putGlyph (dropGlyph w g) new gl, .ok)

def xrun (o : CurveOracle) (w : World) : List XOp → World × List Res
  | [] => (w, [])
  | op :: ops =>
    let r := xstep o w op
    let r2 := xrun o r.1 ops
    (r2.1, r.2 :: r2.2)

/-! ## Which glyphs an outline is made of -/

/-- does drawing `g` (with nesting fuel `f`, as `glyphCalls`) look up a glyph whose name is in `S`? -/
def usesS (w : World) (S : String → Bool) : Nat → Glyph → Bool
  | 0, _ => false
  | f + 1, g => g.components.any (fun k =>
      S k.base || match AL.get? w.glyphs k.base with
        | none => false
        | some bg => usesS w S f bg)

/-- … the same for what `component.draw` draws (`componentCalls`) -/
def usesK (w : World) (S : String → Bool) (k : Component) : Bool :=
  S k.base || match AL.get? w.glyphs k.base with
    | none => false
    | some bg => usesS w S fuelDefault bg

/-! ## The cache tables -/

/-- a component object is named by its glyph's name and its index in `glyph.components` -/
abbrev KKey := String × Nat

structure CWorld where
  w : World := {}
  /-- `component._representations["defcon.component.bounds"]` where present -/
  kb : List (KKey × Option Box) := []
  /-- `component._representations["defcon.component.controlPointBounds"]` where present -/
  kc : List (KKey × Option Box) := []
  /-- `glyph._representations["defcon.glyph.area"]` where present -/
  ga : List (String × Rat) := []
deriving Repr

def compAt (w : World) (key : KKey) : Option Component :=
  match AL.get? w.glyphs key.1 with
  | none => none
  | some g => g.components[key.2]?

/-- is the cached value of component `key` destroyed when the glyphs named in `S` change?
`self`: destroyed by a notification of the component itself -/
def kEvicted (w : World) (S : String → Bool) (self : KKey → Bool) (key : KKey) : Bool :=
  self key || match compAt w key with
    | none => true
    | some k => usesK w S k

def aEvicted (w : World) (S : String → Bool) (self : String → Bool) (name : String) : Bool :=
  self name || match AL.get? w.glyphs name with
    | none => true
    | some g => usesS w S fuelDefault g

def evictK (w : World) (S : String → Bool) (self : KKey → Bool) (l : List (KKey × Option Box)) :
    List (KKey × Option Box) :=
  l.filter (fun e => !kEvicted w S self e.1)

def evictA (w : World) (S : String → Bool) (self : String → Bool) (l : List (String × Rat)) :
    List (String × Rat) :=
  l.filter (fun e => !aEvicted w S self e.1)

/-- the state after a mutation that produced the world `w'` and posted outline notifications on the
glyphs named in `S` (reachability is read off the world before the mutation) -/
def CWorld.evict (cw : CWorld) (w' : World) (S : String → Bool) (selfK : KKey → Bool) (selfA : String → Bool) :
    CWorld :=
  { w := w', kb := evictK cw.w S selfK cw.kb, kc := evictK cw.w S selfK cw.kc, ga := evictA cw.w S selfA cw.ga }

/-- `BaseObject.getRepresentation` on a table: the stored value, else the factory's value, stored
when the object has a dispatcher; an exception stores nothing -/
def getK {κ β : Type} [DecidableEq κ] (caching : Bool) (cache : List (κ × β)) (key : κ) (fresh : Except Err β) :
    List (κ × β) × Except Err β :=
  match AL.get? cache key with
  | some v => (cache, .ok v)
  | none =>
    match fresh with
    | .error e => (cache, .error e)
    | .ok v => (if caching then AL.set cache key v else cache, .ok v)

/-- the component part of `Glyph._getContourComponentBounds`, each component asked through its cache -/
def compsFold (caching : Bool) (fresh : Component → Except Err (Option Box)) (name : String) :
    List (KKey × Option Box) → Nat → List Component → Option Box →
    List (KKey × Option Box) × Except Err (Option Box)
  | cache, _, [], acc => (cache, .ok acc)
  | cache, j, k :: ks, acc =>
    match getK caching cache (name, j) (fresh k) with
    | (cache', .error e) => (cache', .error e)
    | (cache', .ok b) => compsFold caching fresh name cache' (j + 1) ks (unionOO acc b)

/-- `Glyph._getContourComponentBounds` with caches: the glyph after the read (contour caches filled),
the component table after the read, the answer -/
def cGlyphBox (caching : Bool) (getC : Contour → Contour × Except Err (Option Box))
    (fresh : Component → Except Err (Option Box)) (table : List (KKey × Option Box)) (name : String) (gl : Glyph) :
    Glyph × List (KKey × Option Box) × Except Err (Option Box) :=
  let r := contoursBoxes getC gl.contours none
  let g1 := { gl with contours := r.1 }
  match r.2 with
  | .error e => (g1, table, .error e)
  | .ok acc =>
    let r2 := compsFold caching fresh name table 0 gl.components acc
    (g1, r2.1, r2.2)

/-- `glyph.bounds` -/
def cGlyphBounds (o : CurveOracle) (cw : CWorld) (name : String) (gl : Glyph) :
    Glyph × List (KKey × Option Box) × Except Err (Option Box) :=
  cGlyphBox cw.w.caching (Contour.getBounds o cw.w.caching) (Component.bounds o cw.w) cw.kb name gl

/-- `glyph.controlPointBounds` -/
def cGlyphCpb (cw : CWorld) (name : String) (gl : Glyph) :
    Glyph × List (KKey × Option Box) × Except Err (Option Box) :=
  cGlyphBox cw.w.caching (Contour.getCpb cw.w.caching) (Component.cpb cw.w) cw.kc name gl

def isOk : Res → Bool
  | .ok => true
  | _ => false

def nameIs (n : String) : String → Bool := fun m => decide (m = n)
def keyOf (n : String) : KKey → Bool := fun key => decide (key.1 = n)
def keyIs (n : String) (j : Nat) : KKey → Bool := fun key => decide (key.1 = n ∧ key.2 = j)
def noKey : KKey → Bool := fun _ => false
def nameIn2 (a b : String) : String → Bool := fun m => decide (m = a ∨ m = b)

/-- the caches of a renamed glyph object are found under its new name -/
def rekeyK {β : Type} (g new : String) (e : KKey × β) : KKey × β := if e.1.1 = g then ((new, e.1.2), e.2) else e
def rekeyA {β : Type} (g new : String) (e : String × β) : String × β := if e.1 = g then (new, e.2) else e

/-- a mutation of glyph `name` done by the first layer: evict when `doEvict` -/
def CWorld.after (cw : CWorld) (r : World × Res) (doEvict : Bool) (name : String) (selfK : KKey → Bool) :
    CWorld × Res :=
  if doEvict then (cw.evict r.1 (nameIs name) selfK (nameIs name), r.2)
  else ({ cw with w := r.1 }, r.2)

/-- a margin setter with caches: read `self.bounds` through the caches, apply `f`; `moves b`:
the setter moved the outline (only `leftMargin` does) -/
def cWithBounds (o : CurveOracle) (cw : CWorld) (name : String) (f : Glyph → Option Box → Glyph)
    (moves : Option Box → Bool) : CWorld × Res :=
  match AL.get? cw.w.glyphs name with
  | none => (cw, .err .key)
  | some gl =>
    match cGlyphBounds o cw name gl with
    | (g1, kb, .error e) => ({ cw with w := putGlyph cw.w name g1, kb := kb }, .err e)
    | (g1, kb, .ok b) =>
      let cw1 : CWorld := { cw with kb := kb }
      if moves b then (cw1.evict (putGlyph cw.w name (f g1 b)) (nameIs name) (keyOf name) (nameIs name), .ok)
      else ({ cw1 with w := putGlyph cw.w name (f g1 b) }, .ok)

/-- does `setStartPoint` on contour `i` of glyph `name` rotate (and so post notifications)? -/
def startRotates (w : World) (name : String) (i : Nat) : Bool :=
  match AL.get? w.glyphs name with
  | none => false
  | some g =>
    match g.contours[i]? with
    | none => false
    | some c => !(decide (onCurveCount c.points < 2) || isOpen c.points)

/-- does `contour.clockwise = value` reverse? -/
def clockwiseReverses (w : World) (name : String) (i : Nat) (value : Bool) : Bool :=
  match AL.get? w.glyphs name with
  | none => false
  | some g =>
    match g.contours[i]? with
    | none => false
    | some c =>
      match (c.getArea w.caching).2 with
      | .error _ => false
      | .ok a => decide (decide (a < 0) ≠ value)

def leftMoves (v : Rat) : Option Box → Bool
  | none => false
  | some b => decide (v ≠ b.xMin)

def glyphHas (w : World) (name : String) (p : Glyph → Bool) : Bool :=
  match AL.get? w.glyphs name with
  | none => false
  | some g => p g

/-- the semantics with caches -/
def cstep (o : CurveOracle) (cw : CWorld) : XOp → CWorld × Res
  | .base (.newGlyph name g) =>
    -- `Layer.GlyphAdded` (and, over an existing name, the replacement of the observed glyph)
    (cw.evict (putGlyph cw.w name g) (nameIs name) (keyOf name) (nameIs name), .ok)
  | .base (.kBounds g j) =>
    match AL.get? cw.w.glyphs g with
    | none => (cw, .err .key)
    | some gl =>
      match gl.components[j]? with
      | none => (cw, .err .index)
      | some k =>
        let r := getK cw.w.caching cw.kb (g, j) (k.bounds o cw.w)
        ({ cw with kb := r.1 }, ofExcept .box r.2)
  | .base (.kCpb g j) =>
    match AL.get? cw.w.glyphs g with
    | none => (cw, .err .key)
    | some gl =>
      match gl.components[j]? with
      | none => (cw, .err .index)
      | some k =>
        let r := getK cw.w.caching cw.kc (g, j) (k.cpb cw.w)
        ({ cw with kc := r.1 }, ofExcept .box r.2)
  | .base (.gBounds g) =>
    match AL.get? cw.w.glyphs g with
    | none => (cw, .err .key)
    | some gl =>
      let r := cGlyphBounds o cw g gl
      ({ cw with w := putGlyph cw.w g r.1, kb := r.2.1 }, ofExcept .box r.2.2)
  | .base (.gCpb g) =>
    match AL.get? cw.w.glyphs g with
    | none => (cw, .err .key)
    | some gl =>
      let r := cGlyphCpb cw g gl
      ({ cw with w := putGlyph cw.w g r.1, kc := r.2.1 }, ofExcept .box r.2.2)
  | .base (.gArea g) =>
    match AL.get? cw.w.glyphs g with
    | none => (cw, .err .key)
    | some gl =>
      let r := getK cw.w.caching cw.ga g (gl.area cw.w)
      ({ cw with ga := r.1 }, ofExcept .rat r.2)
  | .base (.gMargins g) =>
    match AL.get? cw.w.glyphs g with
    | none => (cw, .err .key)
    | some gl =>
      match cGlyphBounds o cw g gl with
      | (g1, kb, .error e) => ({ cw with w := putGlyph cw.w g g1, kb := kb }, .err e)
      | (g1, kb, .ok b) => ({ cw with w := putGlyph cw.w g g1, kb := kb }, marginsRes g1 b)
  | .base (.setLeft g v) => cWithBounds o cw g (fun gl b => setLeftMargin gl b v) (leftMoves v)
  | .base (.setRight g v) => cWithBounds o cw g (fun gl b => setRightMargin gl b v) (fun _ => false)
  | .base (.setBottom g v) => cWithBounds o cw g (fun gl b => setBottomMargin gl b v) (fun _ => false)
  | .base (.setTop g v) => cWithBounds o cw g (fun gl b => setTopMargin gl b v) (fun _ => false)
  -- `Contour.move` always posts `Contour.PointsChanged` + `Contour.Changed`
  | .base (.cMove g i dx dy) =>
    let r := step o cw.w (.cMove g i dx dy)
    cw.after r (isOk r.2) g noKey
  | .base (.cReverse g i) =>
    let r := step o cw.w (.cReverse g i)
    cw.after r (isOk r.2) g noKey
  | .base (.cSetStart g i index) =>
    let r := step o cw.w (.cSetStart g i index)
    cw.after r (isOk r.2 && startRotates cw.w g i) g noKey
  | .base (.cSetClockwise g i value) =>
    let r := step o cw.w (.cSetClockwise g i value)
    cw.after r (isOk r.2 && clockwiseReverses cw.w g i value) g noKey
  -- `Component.move`: the transformation setter returns early on an equal value
  | .base (.kMove g j dx dy) =>
    let r := step o cw.w (.kMove g j dx dy)
    cw.after r (isOk r.2 && !decide (dx = 0 ∧ dy = 0)) g (keyIs g j)
  -- `Glyph.move`: every contour posts; every component whose transformation changes posts
  | .base (.gMove g dx dy) =>
    let r := step o cw.w (.gMove g dx dy)
    let moved := !decide (dx = 0 ∧ dy = 0)
    cw.after r (isOk r.2 && (glyphHas cw.w g (fun gl => !gl.contours.isEmpty) ||
        (moved && glyphHas cw.w g (fun gl => !gl.components.isEmpty)))) g
      (if moved then keyOf g else noKey)
  -- everything else of the first layer leaves outlines alone (reads of contours fill contour caches)
  | .base op => let r := step o cw.w op; ({ cw with w := r.1 }, r.2)
  | .cSetPoint g i j x y =>
    let r := xstep o cw.w (.cSetPoint g i j x y)
    cw.after r (isOk r.2) g noKey
  | .cInsertPoint g i j p =>
    let r := xstep o cw.w (.cInsertPoint g i j p)
    cw.after r (isOk r.2) g noKey
  | .cRemovePoint g i j =>
    let r := xstep o cw.w (.cRemovePoint g i j)
    cw.after r (isOk r.2) g noKey
  | .kSetT g j t =>
    let r := xstep o cw.w (.kSetT g j t)
    cw.after r (isOk r.2 && (compAt cw.w (g, j)).any (fun k => decide (k.t ≠ t))) g (keyIs g j)
  | .kSetBase g j b =>
    let r := xstep o cw.w (.kSetBase g j b)
    cw.after r (isOk r.2 && (compAt cw.w (g, j)).any (fun k => decide (k.base ≠ b))) g (keyIs g j)
  | .gDelete g =>
    let r := xstep o cw.w (.gDelete g)
    if isOk r.2 then (cw.evict r.1 (nameIs g) (keyOf g) (nameIs g), r.2) else (cw, r.2)
  | .gRename g new =>
    let r := xstep o cw.w (.gRename g new)
    if isOk r.2 && decide (new ≠ g) then
      -- the glyph object keeps its caches under its new name, unless they depend on either name
      ({ w := r.1,
         kb := (evictK cw.w (nameIn2 g new) noKey cw.kb).map (rekeyK g new),
         kc := (evictK cw.w (nameIn2 g new) noKey cw.kc).map (rekeyK g new),
         ga := (evictA cw.w (nameIn2 g new) (fun _ => false) cw.ga).map (rekeyA g new) }, r.2)
    else ({ cw with w := r.1 }, r.2)

def crun (o : CurveOracle) (cw : CWorld) : List XOp → CWorld × List Res
  | [] => (cw, [])
  | op :: ops =>
    let r := cstep o cw op
    let r2 := crun o r.1 ops
    (r2.1, r.2 :: r2.2)

/-- is a representation of component `j` of glyph `g` / of glyph `g` cached?  (`hasCachedRepresentation`) -/
def CWorld.kbCached (cw : CWorld) (g : String) (j : Nat) : Bool := (AL.get? cw.kb (g, j)).isSome
def CWorld.kcCached (cw : CWorld) (g : String) (j : Nat) : Bool := (AL.get? cw.kc (g, j)).isSome
def CWorld.gaCached (cw : CWorld) (g : String) : Bool := (AL.get? cw.ga g).isSome

end Geom
end DefconModel
