/-
Driver glue for M-Setters: one line = one operation on one object, started from the abstraction of
that object's state.  Not part of the proved core.

  (run "<entry id>" "<key>" (<arg> ...) ((<field> <val>) ...) ("<name>" ...))
    → (<status> ((<name> <subject> <old> <new> <getter-now>) ...) (set (<field> <val>) ...))

`<val>` = `none` | integer | `(l <int> ...)`; an absent payload slot prints `-`.  The last argument
lists the notification names the harness compares; they must be names the entry posts.

  (both <run line or (skip)> (follow ...))  → (both <its output> <output of M-Follow, Drivers/Follow.lean>)
    the same operation seen by both models: the object's own notifications, and the components of the layer
    that re-post it as `Component.BaseGlyphDataChanged`
-/
import DefconModel.Util.SExp
import DefconModel.SettersCatalogue
import DefconModel.Drivers.Follow

namespace DefconModel
namespace Setters
open SExp

def parseVal : SExp → Option Val
  | .atom "none" => some .none
  | .list (.atom "l" :: xs) => (xs.mapM asInt?).map Val.list
  | .atom s => (s.toInt?).map Val.int
  | _ => none

def encVal : Val → SExp
  | .none => .atom "none"
  | .int i => ofInt i
  | .list xs => .list (.atom "l" :: xs.map ofInt)

def encOpt : Option Val → SExp
  | none => .atom "-"
  | some v => encVal v

def parseField : SExp → Option (String × Val)
  | .list [.str f, v] => (parseVal v).map (fun x => (f, x))
  | _ => none

def atomNames : Atom → List String
  | .post n _ _ _ _ _ => [n]
  | .when _ a => atomNames a
  | .nested a => atomNames a
  | _ => []

def stmtNames : Stmt → List String
  | .atom a => atomNames a
  | .forEach _ _ _ _ body => body.flatMap atomNames

def entryNames (e : Entry) : List String := (e.body.flatMap stmtNames).eraseDups

def encEv (env : Env) (ev : Ev) : SExp :=
  .list [.str ev.name, encVal ev.sj, encOpt ev.old, encOpt ev.new, encVal (ev.now env)]

def encStatus : Status → SExp
  | .running => .atom "ok"
  | .returned => .atom "ok"
  | .raised => .atom "raised"

def encStore (s : Store) : SExp :=
  tagged "set" ((s.filter (fun p => p.2 ≠ .none)).map (fun p => .list [.str p.1, encVal p.2]))

def driverRun (u : Unit) (line : SExp) : Unit × SExp :=
  match line with
  | .list [.atom "run", .str id, .str key, .list args, .list fields, .list names] =>
    match findEntry id, args.mapM parseVal, fields.mapM parseField, names.mapM asStr? with
    | some e, some as, some fs, some ns =>
      let mine := entryNames e
      if !(ns.all (fun n => n ∈ mine)) then (u, .atom "bad-names")
      else
        let env : Env := { args := as, key := key }
        let r := run env (init fs) e.body
        (u, .list [encStatus r.status, .list ((r.evs.filter (fun ev => ev.name ∈ ns)).map (encEv env)),
                   encStore r.store])
    | _, _, _, _ => (u, .atom "bad-op")
  | .list [.atom "skip"] => (u, .list [.atom "skip"])
  | _ => (u, .atom "bad-op")

def driverStep (u : Unit) (line : SExp) : Unit × SExp :=
  match line with
  | .list [.atom "both", l, f] => (u, .list [.atom "both", (driverRun u l).2, Follow.driverLine f])
  | l => driverRun u l

end Setters
end DefconModel
