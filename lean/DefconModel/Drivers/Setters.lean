/-
Driver glue for M-Setters: one line = one operation on one object, started from the abstraction of
that object's state.  Not part of the proved core.

  (run "<entry id>" "<key>" (<arg> ...) ((<field> <val>) ...) ("<name>" ...))
    → (<status> ((<name> <subject> <old> <new> <getter-now>) ...) (set (<field> <val>) ...))

`<val>` = `none` | integer | `(l <int> ...)`; an absent payload slot prints `-`.  The last argument
lists the notification names the harness compares; they must be names the entry posts.

  (both <run line or (skip)> (follow ...))  → (both <its output> <output of M-Follow, Drivers/Follow.lean>)
    the same operation seen by both models: the object's own notifications, and the components of the layer
    that re-post it as `Component.BaseGlyphDataChanged`

  (multi <line> ...) → (multi <output> ...)   the same operation seen by several models; besides the above:

  (order <op of M-GlyphOrder> <lib> ((<layer> (<glyph> ...)) ...) <default layer>)
    → (((<old> <new> <lib at delivery>) ...) <lib>)      M-OrderNotify: the deliveries of Font.GlyphOrderChanged
  (winding reverse (<point> ...)) | (winding (set <bool>) (<point> ...))
    → (<clockwise before> <area is zero> <clockwise after> (<point after> ...))   M-Geom, as `Spec/SettersWinding.lean`
      reads it; `(undrawable)` when the points are not a contour the reversal laws speak about
  (getter-table) → the getter table of `NotifGetters.lean` and the Will/Did pairs, as the harness must have them
-/
import DefconModel.Util.SExp
import DefconModel.SettersCatalogue
import DefconModel.NotifGetters
import DefconModel.Spec.SettersWinding
import DefconModel.Spec.Geom
import DefconModel.OrderNotify
import DefconModel.Drivers.Follow
import DefconModel.Drivers.GlyphOrder
import DefconModel.Drivers.Geom

namespace DefconModel
namespace Setters
open SExp

def parseVal : SExp → Option Val
  | .atom "none" => some .none
  | .list (.atom "l" :: xs) => (xs.mapM asInt?).map Val.list
  | .atom s => (s.toInt?).map Val.int
  | _ => none

def encVal : Val → SExp
  | .none => .atom "none"
  | .int i => ofInt i
  | .list xs => .list (.atom "l" :: xs.map ofInt)

def encOpt : Option Val → SExp
  | none => .atom "-"
  | some v => encVal v

def parseField : SExp → Option (String × Val)
  | .list [.str f, v] => (parseVal v).map (fun x => (f, x))
  | _ => none

def atomNames : Atom → List String
  | .post n _ _ _ _ _ => [n]
  | .when _ a => atomNames a
  | .nested a => atomNames a
  | _ => []

def stmtNames : Stmt → List String
  | .atom a => atomNames a
  | .forEach _ _ _ _ body => body.flatMap atomNames

def entryNames (e : Entry) : List String := (e.body.flatMap stmtNames).eraseDups

def encEv (env : Env) (ev : Ev) : SExp :=
  .list [.str ev.name, encVal ev.sj, encOpt ev.old, encOpt ev.new, encVal (ev.now env)]

def encStatus : Status → SExp
  | .running => .atom "ok"
  | .returned => .atom "ok"
  | .raised => .atom "raised"

def encStore (s : Store) : SExp :=
  tagged "set" ((s.filter (fun p => p.2 ≠ .none)).map (fun p => .list [.str p.1, encVal p.2]))

def driverRun (u : Unit) (line : SExp) : Unit × SExp :=
  match line with
  | .list [.atom "run", .str id, .str key, .list args, .list fields, .list names] =>
    match findEntry id, args.mapM parseVal, fields.mapM parseField, names.mapM asStr? with
    | some e, some as, some fs, some ns =>
      let mine := entryNames e
      if !(ns.all (fun n => n ∈ mine)) then (u, .atom "bad-names")
      else
        let env : Env := { args := as, key := key }
        let r := run env (init fs) e.body
        (u, .list [encStatus r.status, .list ((r.evs.filter (fun ev => ev.name ∈ ns)).map (encEv env)),
                   encStore r.store])
    | _, _, _, _ => (u, .atom "bad-op")
  | .list [.atom "skip"] => (u, .list [.atom "skip"])
  | _ => (u, .atom "bad-op")

def encOptNames (v : Option (List String)) : SExp := ofOpt (ofList .str) v

def orderLine : SExp → SExp
  | .list [.atom "order", op, lib, .list ls, dflt] =>
    match GlyphOrder.parseOp op, GlyphOrder.optStrList? lib, ls.mapM GlyphOrder.parseLayer, asOpt? asStr? dflt with
    | some op, some v, some layers, some d =>
      let r := OrderNotify.stepN { layers := layers, lib := v, default := d } op
      .list [.list (r.2.map (fun ev => .list [encOptNames ev.old, encOptNames ev.new, encOptNames ev.snap])),
             encOptNames r.1.1.lib]
    | _, _, _, _ => .atom "bad-op"
  | _ => .atom "bad-op"

def windingLine : SExp → SExp
  | .list [.atom "winding", op, pts] =>
    match asListOf? Geom.asPoint? pts with
    | some ps =>
      if decide (Geom.ReversibleShape ps) && decide (Geom.drawErr ps = none) then
        let rev := Geom.reversePoints ps
        let out (after : List Geom.Point) : SExp :=
          .list [ofBool (clockwiseOf ps), ofBool (zeroArea ps), ofBool (clockwiseOf after), .list (after.map Geom.ofPoint)]
        match op with
        | .atom "reverse" => out rev
        | .list [.atom "set", v] =>
          match asBool? v with
          | some v => if clockwiseOf ps = v then out ps else out rev
          | none => .atom "bad-op"
        | _ => .atom "bad-op"
      else .list [.atom "undrawable"]
    | none => .atom "bad-op"
  | _ => .atom "bad-op"

def getterTable : SExp :=
  .list [tagged "getters" (getters.map (fun g =>
           .list [.str g.note, .str g.oldKey, .str g.newKey, ofOpt .str g.item, .str g.attr])),
         tagged "wills" (willSubject.map (fun w => .list [.str w.1, ofOpt .str (didOf w.1), ofOpt .str w.2]))]

def driverOne (u : Unit) (line : SExp) : SExp :=
  match line with
  | .list (.atom "follow" :: _) => Follow.driverLine line
  | .list (.atom "order" :: _) => orderLine line
  | .list (.atom "winding" :: _) => windingLine line
  | .list [.atom "getter-table"] => getterTable
  | l => (driverRun u l).2

def driverStep (u : Unit) (line : SExp) : Unit × SExp :=
  match line with
  | .list [.atom "both", l, f] => (u, .list [.atom "both", (driverRun u l).2, Follow.driverLine f])
  | .list (.atom "multi" :: ls) => (u, .list (.atom "multi" :: ls.map (driverOne u)))
  | l => (u, driverOne u l)

end Setters
end DefconModel
