/-
Driver glue for the persistence components (M-FileSet ×2, M-Parts ×5, M-LayerSet) composed the
way `Font.save` composes them.  Not part of the proved core.
-/
import DefconModel.Util.SExp
import DefconModel.FileSet
import DefconModel.Parts
import DefconModel.LayerSet

namespace DefconModel
namespace Persist
open SExp

structure PState where
  images : FileSet.State := {}
  data : FileSet.State := {}
  parts : List (String × Parts.Part) := []      -- info groups kerning features lib
  ls : LayerSet.State := {}

def partNames : List String := ["info", "groups", "kerning", "features", "lib"]

def newFont : PState :=
  { parts := partNames.map (fun n => (n, {}))
    ls := { layers := [("public.default", ⟨0, false⟩)], order := ["public.default"], default := some 0,
            history := [.new "public.default", .default "public.default" none], nextLid := 1 } }

def setOf (xs : List SExp) : SExp := tagged "set" xs

def encFiles (s : FileSet.State) : SExp :=
  .list [ setOf (s.entries.map fun p => .list [.str p.1, ofBool p.2.data.isSome, ofBool p.2.dirty]),
          setOf (s.sched.map fun p => .str p.1), ofBool s.dirty ]

def encPart (p : Parts.Part) : SExp := .list [ofBool p.loaded.isSome, ofBool p.dirty]

def encAction : LayerSet.Action → SExp
  | .new n => .list [.atom "new", .str n]
  | .delete n => .list [.atom "delete", .str n]
  | .rename o n => .list [.atom "rename", .str o, .str n]
  | .default n o => .list [.atom "default", .str n, ofOpt .str o]

def encLayers (s : LayerSet.State) : SExp :=
  .list [ .list (s.order.map .str), ofOpt .str (LayerSet.defaultName s), .list (s.history.map encAction) ]

def encDisk (st : PState) : SExp :=
  .list [ tagged "images" [setOf (st.images.disk.map fun p => .list [.str p.1, ofNat p.2])],
          tagged "data" [setOf (st.data.disk.map fun p => .list [.str p.1, ofNat p.2])],
          tagged "parts" (st.parts.map fun p => .list [.atom p.1, ofNat p.2.disk]),
          tagged "layercontents" [.list (st.ls.disk.map fun p => .list [.str p.1, ofBool p.2.isDefault])],
          tagged "flags" [encFiles st.images, encFiles st.data,
                          .list (st.parts.filter (fun p => p.1 ≠ "lib") |>.map fun p => encPart p.2)] ]

def fileErr : FileSet.Err → SExp
  | .keyError => err "KeyError"

def layerErr : LayerSet.Err → SExp
  | .keyError => err "KeyError"
  | .ufoLibError => err "UFOLibError"
  | .assertionError => err "AssertionError"
  | .merged => err "merged-directories"

def fileOp (silent : Bool) (s : FileSet.State) (op : FileSet.Op) : FileSet.State × SExp :=
  match FileSet.step silent s op with
  | .ok s' => (s', .list [.atom "ok", encFiles s'])
  | .error e => (s, .list [fileErr e, encFiles s])

def layerOp (st : PState) (op : LayerSet.Op) : PState × SExp :=
  match LayerSet.step st.ls op with
  | .ok s' => ({ st with ls := s' }, .list [.atom "ok", encLayers s'])
  | .error e => (st, .list [layerErr e, encLayers st.ls])

def parseFiles (xs : List SExp) : Option (List (String × Nat)) :=
  xs.mapM fun x => match x with
    | .list [n, b] => do some ((← asStr? n), (← asNat? b))
    | _ => none

def savePart (sa : Bool) (p : String × Parts.Part) : String × Parts.Part :=
  if p.1 = "kerning" ∨ p.1 = "features" then (p.1, Parts.saveIfDirty sa p.2) else (p.1, Parts.saveAlways p.2)

partial def driverStep (st : PState) (line : SExp) : PState × SExp :=
  match line with
  | .list [.atom "quiet", op] => ((driverStep st op).1, .atom "ok")
  | .list [.atom "initmem"] => (newFont, .atom "ok")
  | .list [.atom "init", .list imgs, .list dats, .list ps, .list layers, defLid, defName] =>
    match parseFiles imgs, parseFiles dats, parseFiles ps, parseFiles layers, asNat? defLid, asStr? defName with
    | some i, some d, some p, some l, some dl, some dn =>
      ({ images := FileSet.opened i, data := FileSet.opened d,
         parts := p.map (fun x => (x.1, { disk := x.2 })),
         ls := LayerSet.opened l dl dn }, .atom "ok")
    | _, _, _, _, _, _ => (st, .atom "bad-op")
  | .list [.atom "noop"] => (st, .atom "ok")
  | .list [.atom "fget", .atom w, n] =>
    match asStr? n with
    | none => (st, .atom "bad-op")
    | some n =>
      if w = "images" then let (s, o) := fileOp true st.images (.get n); ({ st with images := s }, o)
      else let (s, o) := fileOp false st.data (.get n); ({ st with data := s }, o)
  | .list [.atom "fset", .atom w, n, b] =>
    match asStr? n, asNat? b with
    | some n, some b =>
      if w = "images" then let (s, o) := fileOp true st.images (.set n b); ({ st with images := s }, o)
      else let (s, o) := fileOp false st.data (.set n b); ({ st with data := s }, o)
    | _, _ => (st, .atom "bad-op")
  | .list [.atom "fdel", .atom w, n] =>
    match asStr? n with
    | none => (st, .atom "bad-op")
    | some n =>
      if w = "images" then let (s, o) := fileOp true st.images (.del n); ({ st with images := s }, o)
      else let (s, o) := fileOp false st.data (.del n); ({ st with data := s }, o)
  | .list [.atom "ptouch", .atom w] =>
    match AL.get? st.parts w with
    | none => (st, .atom "bad-op")
    | some p => let p' := (Parts.get p).1; ({ st with parts := AL.set st.parts w p' }, .list [.atom "ok", encPart p'])
  | .list [.atom "pset", .atom w, b] =>
    match AL.get? st.parts w, asNat? b with
    | some p, some b => let p' := Parts.set p b; ({ st with parts := AL.set st.parts w p' }, .list [.atom "ok", encPart p'])
    | _, _ => (st, .atom "bad-op")
  | .list [.atom "pquiet", .atom w, b] =>
    match AL.get? st.parts w, asNat? b with
    | some p, some b => let p' := Parts.setQuiet p b; ({ st with parts := AL.set st.parts w p' }, .list [.atom "ok", encPart p'])
    | _, _ => (st, .atom "bad-op")
  | .list [.atom "lnew", n] => match asStr? n with
    | some n => layerOp st (.newLayer n)
    | none => (st, .atom "bad-op")
  | .list [.atom "ldel", n] => match asStr? n with
    | some n => layerOp st (.delLayer n)
    | none => (st, .atom "bad-op")
  | .list [.atom "lrename", o, n] => match asStr? o, asStr? n with
    | some o, some n => layerOp st (.rename o n)
    | _, _ => (st, .atom "bad-op")
  | .list [.atom "ldefault", n] => match asStr? n with
    | some n => layerOp st (.setDefault n)
    | none => (st, .atom "bad-op")
  | .list [.atom "lorder", o] => match asListOf? asStr? o with
    | some o => layerOp st (.setOrder o)
    | none => (st, .atom "bad-op")
  | .list [.atom "save", .atom mode] =>
    let sa := mode = "as"
    let lsr := if sa then LayerSet.saveAs st.ls else LayerSet.saveInPlace st.ls
    match lsr with
    | .error e => (st, .list [layerErr e])
    | .ok ls' =>
      let st' : PState :=
        { images := if sa then FileSet.saveAs st.images [] else FileSet.saveInPlace st.images
          data := if sa then FileSet.saveAs st.data [] else FileSet.saveInPlace st.data
          parts := st.parts.map (savePart sa)
          ls := ls' }
      (st', .list [.atom "ok", encDisk st'])
  | _ => (st, .atom "bad-op")

end Persist
end DefconModel
