/-
Driver glue for the persistence components (M-FileSet ×2, M-Parts ×5, M-LayerSet, M-Layer per layer)
and the dirty flags of the whole tree, composed in `DefconModel.SubFlags` the way `Font.save`
composes them.  Every line is parsed into a `SubFlags.Op`; the answer is what the component
drivers printed before plus the flags of every object (`flags`).  Not part of the proved core.
-/
import DefconModel.Util.SExp
import DefconModel.SubFlags

namespace DefconModel
namespace Persist
open SExp
open SubFlags (FontF Op Prim Kind Shape Sub LayerF)

abbrev PState := FontF

def setOf (xs : List SExp) : SExp := tagged "set" xs

def encFiles (s : FileSet.State) : SExp :=
  .list [ setOf (s.entries.map fun p => .list [.str p.1, ofBool p.2.data.isSome, ofBool p.2.dirty]),
          setOf (s.sched.map fun p => .str p.1), ofBool s.dirty ]

def encPart (p : Parts.Part) : SExp := .list [ofBool p.loaded.isSome, ofBool p.dirty]

def encAction : LayerSet.Action → SExp
  | .new n => .list [.atom "new", .str n]
  | .delete n => .list [.atom "delete", .str n]
  | .rename o n => .list [.atom "rename", .str o, .str n]
  | .default n o => .list [.atom "default", .str n, ofOpt .str o]

def encLayers (s : LayerSet.State) : SExp :=
  .list [ .list (s.order.map .str), ofOpt .str (LayerSet.defaultName s), .list (s.history.map encAction) ]

def encDisk (st : PState) : SExp :=
  .list [ tagged "images" [setOf (st.images.disk.map fun p => .list [.str p.1, ofNat p.2])],
          tagged "data" [setOf (st.data.disk.map fun p => .list [.str p.1, ofNat p.2])],
          tagged "parts" (st.parts.map fun p => .list [.atom p.1, ofNat p.2.disk]),
          tagged "layercontents" [.list (st.ls.disk.map fun p => .list [.str p.1, ofBool p.2.isDefault])],
          tagged "flags" [encFiles st.images, encFiles st.data,
                          .list (st.parts.filter (fun p => p.1 ≠ "lib") |>.map fun p => encPart p.2)] ]

def fileErr : FileSet.Err → SExp
  | .keyError => err "KeyError"

def layerErr : LayerSet.Err → SExp
  | .keyError => err "KeyError"
  | .ufoLibError => err "UFOLibError"
  | .assertionError => err "AssertionError"
  | .merged => err "merged-directories"

def errOf : SubFlags.Err → SExp
  | .file e => fileErr e
  | .layers e => layerErr e
  | .glyph .keyError => err "KeyError"
  | .noLayer => err "KeyError"
  | .noPart => .atom "bad-op"

/-! ### the flags of every object -/

def encSub (n : String) (d : Bool) (s : Sub) : SExp :=
  .list [.str n, ofBool d, ofList ofBool s.contours, ofList ofBool s.components, ofList ofBool s.anchors,
         ofList ofBool s.guidelines, ofOpt ofBool s.image, ofBool s.lib]

/-- loaded glyphs that report dirty or hold something that does -/
def encGlyphs (L : LayerF) : SExp :=
  setOf (L.base.loaded.filterMap fun p =>
    let sb := SubFlags.subOf L p.1
    if p.2.2 ∨ ¬ sb.Clean then some (encSub p.1 p.2.2 sb) else none)

def encLayerF (st : PState) (n : String) : SExp :=
  match SubFlags.lidOf st n with
  | none => .list [.str n, .atom "no-layer"]
  | some lid =>
    let L := SubFlags.layerOf st lid
    .list [.str n, ofBool L.dirty, ofBool L.lib, encGlyphs L]

def encFlags (st : PState) : SExp :=
  tagged "flags" [ofBool st.dirty, ofBool st.lsDirty,
    .list (st.parts.filter (fun p => p.1 ≠ "lib") |>.map fun p => ofBool p.2.dirty),
    ofBool st.images.dirty, ofBool st.data.dirty,
    .list (st.ls.order.map (encLayerF st))]

/-! ### parsing -/

def parseFiles (xs : List SExp) : Option (List (String × Nat)) :=
  xs.mapM fun x => match x with
    | .list [n, b] => do some ((← asStr? n), (← asNat? b))
    | _ => none

def parseKind : SExp → Option Kind
  | .atom "contour" => some .contour
  | .atom "component" => some .component
  | .atom "anchor" => some .anchor
  | .atom "guideline" => some .guideline
  | _ => none

def parseShape : SExp → Option Shape
  | .list [c, k, a, g, i] => do
    some { contours := ← asNat? c, bases := ← asListOf? asStr? k, anchors := ← asNat? a, guidelines := ← asNat? g,
           image := ← asOpt? asStr? i }
  | _ => none

def parsePrim : SExp → Option Prim
  | .atom "touch" => some .touch
  | .list [.atom "insert", k, i, b] => do some (.insert (← parseKind k) (← asNat? i) (← asBool? b))
  | .list [.atom "append", k, b] => do some (.append (← parseKind k) (← asBool? b))
  | .list [.atom "clear", k] => do some (.clear (← parseKind k))
  | .list [.atom "edit", k, i] => do some (.edit (← parseKind k) (← asNat? i))
  | .list [.atom "editall", k] => do some (.editAll (← parseKind k))
  | .atom "imgget" => some .imageGet
  | .list [.atom "imgedit", fn] => do some (.imageEdit (← asOpt? asStr? fn))
  | .atom "imgclear" => some .imageClear
  | .atom "libedit" => some .libEdit
  | _ => none

def parseGlyphs (x : SExp) : Option (List (Nat × List (String × Shape))) :=
  asListOf? (fun l => match l with
    | .list [lid, gs] => do
      let gs ← asListOf? (fun g => match g with
        | .list [gn, sh] => do some ((← asStr? gn), (← parseShape sh))
        | _ => none) gs
      some ((← asNat? lid), gs)
    | _ => none) x

/-- the operation a line stands for, and which component's state the answer shows -/
inductive Show where
  | files (images : Bool) | part (w : String) | layers | status | disk

def parseOp : SExp → Option (Op × Show)
  | .list [.atom "noop"] => none
  | .list [.atom "fget", .atom w, n] => do some (.fileGet (w = "images") (← asStr? n), .files (w = "images"))
  | .list [.atom "fset", .atom w, n, b] => do some (.fileSet (w = "images") (← asStr? n) (← asNat? b), .files (w = "images"))
  | .list [.atom "fdel", .atom w, n] => do some (.fileDel (w = "images") (← asStr? n), .files (w = "images"))
  | .list [.atom "ptouch", .atom w] => some (.partGet w, .part w)
  | .list [.atom "pset", .atom w, b] => do some (.partSet w (← asNat? b), .part w)
  | .list [.atom "pquiet", .atom w, b] => do some (.partQuiet w (← asNat? b), .part w)
  | .list [.atom "lnew", n] => do some (.layerNew (← asStr? n), .layers)
  | .list [.atom "ldel", n] => do some (.layerDel (← asStr? n), .layers)
  | .list [.atom "lrename", o, n] => do some (.layerRename (← asStr? o) (← asStr? n), .layers)
  | .list [.atom "ldefault", n] => do some (.layerDefault (← asStr? n), .layers)
  | .list [.atom "lorder", o] => do some (.layerOrder (← asListOf? asStr? o), .layers)
  | .list [.atom "ltouch", ln] => do some (.layerTouch (← asStr? ln), .status)
  | .list [.atom "llibedit", ln] => do some (.layerLibEdit (← asStr? ln), .status)
  | .list [.atom "gget", ln, gn] => do some (.glyphGet (← asStr? ln) (← asStr? gn), .status)
  | .list [.atom "gnew", ln, gn] => do some (.glyphNew (← asStr? ln) (← asStr? gn), .status)
  | .list [.atom "ginsert", ln, gn, ps, bs] => do
    some (.glyphInsert (← asStr? ln) (← asStr? gn) (← asListOf? parsePrim ps) (← asListOf? asStr? bs), .status)
  | .list [.atom "gdel", ln, gn] => do some (.glyphDel (← asStr? ln) (← asStr? gn), .status)
  | .list [.atom "grename", ln, o, n] => do some (.glyphRename (← asStr? ln) (← asStr? o) (← asStr? n), .status)
  | .list [.atom "gedit", ln, gn, ps, bs] => do
    some (.glyphEdit (← asStr? ln) (← asStr? gn) (← asListOf? parsePrim ps) (← asListOf? asStr? bs), .status)
  | .list [.atom "save", .atom mode] => some (.save (mode = "as"), .disk)
  | _ => none

def showOk (st : PState) : Show → SExp
  | .files true => .list [.atom "ok", encFiles st.images]
  | .files false => .list [.atom "ok", encFiles st.data]
  | .part w => match AL.get? st.parts w with
    | some p => .list [.atom "ok", encPart p]
    | none => .atom "bad-op"
  | .layers => .list [.atom "ok", encLayers st.ls]
  | .status => .atom "ok"
  | .disk => .list [.atom "ok", encDisk st]

def showErr (st : PState) (e : SubFlags.Err) : Show → SExp
  | .files true => .list [errOf e, encFiles st.images]
  | .files false => .list [errOf e, encFiles st.data]
  | .part _ => .atom "bad-op"
  | .layers => .list [errOf e, encLayers st.ls]
  | .status => errOf e
  | .disk => .list [errOf e]

partial def driverStep (st : PState) (line : SExp) : PState × SExp :=
  match line with
  | .list [.atom "quiet", op] => ((driverStep st op).1, .atom "ok")
  | .list [.atom "initmem"] => (SubFlags.newFont, .atom "ok")
  | .list [.atom "init", .list imgs, .list dats, .list ps, .list layers, defLid, defName, glyphs] =>
    match parseFiles imgs, parseFiles dats, parseFiles ps, parseFiles layers, asNat? defLid, asStr? defName,
          parseGlyphs glyphs with
    | some i, some d, some p, some l, some dl, some dn, some g => (SubFlags.opened i d p l dl dn g, .atom "ok")
    | _, _, _, _, _, _, _ => (st, .atom "bad-op")
  | .list [.atom "noop"] => (st, tagged "out" [.atom "ok", encFlags st])
  | _ =>
    match parseOp line with
    | none => (st, .atom "bad-op")
    | some (op, sh) =>
      match SubFlags.step st op with
      | .ok st' => (st', tagged "out" [showOk st' sh, encFlags st'])
      | .error e => (st, tagged "out" [showErr st e sh, encFlags st])

end Persist
end DefconModel
