/-
Driver glue for M-Pen: S-expression ⇄ pen streams / glyph contents over `Rat`.  Not part of the proved core.
-/
import DefconModel.Util.SExp
import DefconModel.Pen
import DefconModel.Drivers.Cells

namespace DefconModel
namespace Pen
open SExp

abbrev Q := Rat

structure DState where
  /-- layer id ↦ layer (`f1` = the default layer of font f1, reached through the `Font` API or through
  `font.layers.defaultLayer`; `f1:bg` = another layer of the same font; `L1` = a `Layer()` that belongs to no
  font); the pseudo layer "-" holds stand-alone glyphs (`Glyph()`, no layer).  Components are resolved in
  the layer of the glyph that holds them — never in another layer of the same font. -/
  fonts : List (String × Layer Q) := []
  poisoned : List (String × String) := []

/-! ### decoding -/

def asRat? : SExp → Option Q
  | .atom s =>
    match s.splitOn "/" with
    | [n] => n.toInt?.map (fun (i : Int) => (i : Q))
    | [n, d] => do
      let i ← n.toInt?
      let k ← d.toNat?
      if k = 0 then none else some (mkRat i k)
    | _ => none
  | _ => none

def optStr? := asOpt? asStr?
def optRat? := asOpt? asRat?

def asSeg? : SExp → Option (Option Seg)
  | .atom "off" => some none
  | .atom "move" => some (some .move)
  | .atom "line" => some (some .line)
  | .atom "curve" => some (some .curve)
  | .atom "qcurve" => some (some .qcurve)
  | _ => none

def asPoint? : SExp → Option (Point Q)
  | .list [x, y, sg, sm, nm, i] => do
    some ⟨← asRat? x, ← asRat? y, ← asSeg? sg, ← asBool? sm, ← optStr? nm, ← optStr? i⟩
  | _ => none

def asContour? : SExp → Option (Contour Q)
  | .list [i, pts] => do some ⟨← optStr? i, ← asListOf? asPoint? pts⟩
  | _ => none

def asTransform? : SExp → Option (Transform Q)
  | .list [a, b, c, d, e, f] => do
    some ⟨← asRat? a, ← asRat? b, ← asRat? c, ← asRat? d, ← asRat? e, ← asRat? f⟩
  | _ => none

def asComponent? : SExp → Option (Component Q)
  | .list [b, t, i] => do some ⟨← asStr? b, ← asTransform? t, ← optStr? i⟩
  | _ => none

def asAnchor? : SExp → Option (Anchor Q)
  | .list [x, y, n, c, i] => do some ⟨← optRat? x, ← optRat? y, ← optStr? n, ← optStr? c, ← optStr? i⟩
  | _ => none

def asGuideline? : SExp → Option (Guideline Q)
  | .list [x, y, a, n, c, i] => do
    some ⟨← optRat? x, ← optRat? y, ← optRat? a, ← optStr? n, ← optStr? c, ← optStr? i⟩
  | _ => none

def asImage? : SExp → Option (Image Q)
  | .list [f, t, c] => do some ⟨← optStr? f, ← asTransform? t, ← optStr? c⟩
  | _ => none

def asContent? : SExp → Option (Content Q)
  | .list [w, h, us, note, img, anchors, guides, lib, cs, ks] => do
    some { width := ← asRat? w, height := ← asRat? h, unicodes := ← asListOf? asNat? us,
           note := ← optStr? note, image := ← asImage? img, anchors := ← asListOf? asAnchor? anchors,
           guidelines := ← asListOf? asGuideline? guides, lib := ← asStr? lib,
           contours := ← asListOf? asContour? cs, components := ← asListOf? asComponent? ks }
  | _ => none

def asEv? : SExp → Option (Ev Q)
  | .list [.atom "bp", i] => do some (.beginPath (← optStr? i))
  | .list (.atom "pt" :: rest) => do some (.addPoint (← asPoint? (.list rest)))
  | .list [.atom "ep"] => some .endPath
  | .list (.atom "comp" :: rest) => do some (.addComponent (← asComponent? (.list rest)))
  | _ => none

/-! ### encoding -/

def ofRat (r : Q) : SExp := .atom (if r.den = 1 then toString r.num else toString r.num ++ "/" ++ toString r.den)

def ofSeg : Option Seg → SExp
  | none => .atom "off"
  | some .move => .atom "move"
  | some .line => .atom "line"
  | some .curve => .atom "curve"
  | some .qcurve => .atom "qcurve"

def ofTransform (t : Transform Q) : SExp :=
  .list [ofRat t.xx, ofRat t.xy, ofRat t.yx, ofRat t.yy, ofRat t.dx, ofRat t.dy]

def ofEv : Ev Q → SExp
  | .beginPath i => .list [.atom "bp", ofOpt .str i]
  | .addPoint p => .list [.atom "pt", ofRat p.x, ofRat p.y, ofSeg p.seg, ofBool p.smooth, ofOpt .str p.name,
                          ofOpt .str p.ident]
  | .endPath => .list [.atom "ep"]
  | .addComponent c => .list [.atom "comp", .str c.base, ofTransform c.t, ofOpt .str c.ident]

def ofPt (p : Q × Q) : SExp := .list [ofRat p.1, ofRat p.2]

def ofSegEv : SegEv Q → SExp
  | .moveTo p => .list [.atom "moveTo", ofPt p]
  | .lineTo p => .list [.atom "lineTo", ofPt p]
  | .curveTo offs l => .list [.atom "curveTo", .list ((offs ++ [l]).map ofPt)]
  | .qCurveTo offs l => .list [.atom "qCurveTo", .list (offs.map ofPt ++ [match l with
      | none => .atom "none"
      | some p => ofPt p])]
  | .closePath => .list [.atom "closePath"]
  | .endPath => .list [.atom "endPath"]
  | .addComponent b t => .list [.atom "addComponent", .str b, ofTransform t]

def ofAnchor (a : Anchor Q) : SExp :=
  .list [ofOpt ofRat a.x, ofOpt ofRat a.y, ofOpt .str a.name, ofOpt .str a.color, ofOpt .str a.ident]

def ofGuideline (a : Guideline Q) : SExp :=
  .list [ofOpt ofRat a.x, ofOpt ofRat a.y, ofOpt ofRat a.angle, ofOpt .str a.name, ofOpt .str a.color,
         ofOpt .str a.ident]

def ofImage (i : Image Q) : SExp := .list [ofOpt .str i.fileName, ofTransform i.t, ofOpt .str i.color]

def dump (g : Glyph Q) : SExp :=
  .list [.atom "glyph", ofOpt .str g.name, ofRat g.width, ofRat g.height, ofList ofNat g.unicodes,
         ofOpt .str g.note, ofImage g.image, ofList ofAnchor g.anchors, ofList ofGuideline g.guidelines,
         .str g.lib, ofBool g.shallow.isSome, ofList ofEv g.draw, tagged "set" (g.ids.map .str)]

def errName : Err → String
  | .assertion => "AssertionError"
  | .noContour => "AttributeError"
  | .defconError => "DefconError"
  | .indexError => "IndexError"
  | .penError => "PenError"
  | .typeError => "TypeError"
  | .outOfFuel => "fuel"

def ok (x : SExp) : SExp := .list [.atom "ok", x]

/-- the methods of the pen that accept `identifier`: a string over `b` (beginPath), `p` (addPoint),
`c` (addComponent); `"bpc"` = today's protocol, `""` = the protocol before identifiers -/
def asCaps? : SExp → Option PenCaps
  | .str s =>
    if s.toList.all (fun ch => ch = 'b' ∨ ch = 'p' ∨ ch = 'c') then
      some ⟨s.toList.contains 'b', s.toList.contains 'p', s.toList.contains 'c'⟩
    else none
  | _ => none

/-! ### state access -/

def getLayer (d : DState) (f : String) : Layer Q := (AL.get? d.fonts f).getD []

def getGlyph (d : DState) (f n : String) : Option (Glyph Q) := AL.get? (getLayer d f) n

def setGlyph (d : DState) (f n : String) (g : Glyph Q) : DState :=
  { d with fonts := AL.set d.fonts f (AL.set (getLayer d f) n g) }

def freshFor (f n : String) : Glyph Q := Glyph.fresh (if f = "-" then none else some n)

def FUEL : Nat := 32

/-- run `k` on an existing, unpoisoned glyph; an error poisons the glyph (its state after a rejected
call is not modelled) -/
def withGlyph (d : DState) (f n : String)
    (k : Glyph Q → Except Err (DState × SExp)) : DState × SExp :=
  if (f, n) ∈ d.poisoned then (d, .list [.atom "poisoned"])
  else match getGlyph d f n with
    | none => (d, err "KeyError")
    | some g =>
      match k g with
      | .ok r => r
      | .error e => ({ d with poisoned := (f, n) :: d.poisoned }, err (errName e))

def driverStep (d : DState) (line : SExp) : DState × SExp :=
  match line with
  | .list [.atom "mk", .str f, .str n, .atom variant, c] =>
    match asContent? c with
    | none => (d, .atom "bad-op")
    | some c =>
      let g0 : Glyph Q := Glyph.fresh (some n)
      let r : Option (Except Err (Glyph Q)) :=
        match variant with
        | "new" => some (Glyph.ofContent g0 c)
        | "shallow" => some (Glyph.load g0 c)
        | "full" => some (Glyph.load g0 c >>= deepen)
        | _ => none
      match r with
      | none => (d, .atom "bad-op")
      | some (.ok g) => (setGlyph d f n g, ok (dump g))
      | some (.error e) =>
        -- the harness deletes a glyph it could not assemble: absent from the layer, poisoned for direct ops
        ({ d with fonts := AL.set d.fonts f (AL.erase (getLayer d f) n), poisoned := (f, n) :: d.poisoned },
         err (errName e))
  | .list [.atom "new", .str f, .str n] =>
    let g := freshFor f n
    ({ (setGlyph d f n g) with poisoned := d.poisoned.filter (· ≠ (f, n)) }, ok (dump g))
  | .list [.atom "dump", .str f, .str n] =>
    withGlyph d f n fun g => .ok (d, ok (dump g))
  | .list [.atom "draw", .str f, .str n, caps] =>
    match asCaps? caps with
    | none => (d, .atom "bad-op")
    | some caps => withGlyph d f n fun g => .ok (d, ok (ofList ofEv (g.drawTo caps)))
  | .list [.atom "rebuild", .str f, .str n, caps] =>
    match asCaps? caps with
    | none => (d, .atom "bad-op")
    | some caps =>
      withGlyph d f n fun g => do
        let r ← build false (g.drawTo caps) (Glyph.fresh none)
        .ok (d, ok (dump r))
  | .list [.atom "drawContour", .str f, .str n, i, caps] =>
    match asNat? i, asCaps? caps with
    | none, _ => (d, .atom "bad-op")
    | _, none => (d, .atom "bad-op")
    | some i, some caps =>
      withGlyph d f n fun g =>
        -- `glyph[i]` deepens first; a failing deepening leaves a partly deepened (and now poisoned) glyph
        match deepenKeep g with
        | (g', some e) => .ok ({ (setGlyph d f n g') with poisoned := (f, n) :: d.poisoned }, err (errName e))
        | (g', none) =>
          match g'.contours[i]? with
          | none => .ok ({ (setGlyph d f n g') with poisoned := (f, n) :: d.poisoned }, err (errName .indexError))
          | some c => do
            let r ← build false (drawContourTo caps c) (Glyph.fresh none)
            .ok (setGlyph d f n g', ok (dump r))
  | .list [.atom "drawComponent", .str f, .str n, i, caps] =>
    match asNat? i, asCaps? caps with
    | none, _ => (d, .atom "bad-op")
    | _, none => (d, .atom "bad-op")
    | some i, some caps =>
      withGlyph d f n fun g =>
        match g.components[i]? with
        | none => .error .indexError
        | some c => do
          let r ← build false (drawComponentTo caps c) (Glyph.fresh none)
          .ok (d, ok (dump r))
  | .list [.atom "segdraw", .str f, .str n] =>
    withGlyph d f n fun g =>
      match g.drawSeg with
      | none => .ok (d, err "PenError")
      | some evs => .ok (d, ok (ofList ofSegEv evs))
  | .list [.atom "segrebuild", .str f, .str n] =>
    withGlyph d f n fun g =>
      match g.drawSeg.bind (stpRun none) with
      | none => .ok (d, err "PenError")
      | some evs => do
        let r ← build false evs (Glyph.fresh none)
        .ok (d, ok (dump r))
  | .list [.atom "copy", .str sf, .str sn, .str df, .str dn] =>
    withGlyph d sf sn fun g => do
      let r ← copyData (freshFor df dn) g
      .ok ({ (setGlyph d df dn r) with poisoned := d.poisoned.filter (· ≠ (df, dn)) }, ok (dump r))
  | .list [.atom "insert", .str sf, .str sn, .str df, .str dn] =>
    withGlyph d sf sn fun g => do
      let (l, r) ← insertGlyph (getLayer d df) g (some dn)
      .ok ({ d with fonts := AL.set d.fonts df l, poisoned := d.poisoned.filter (· ≠ (df, dn)) }, ok (dump r))
  | .list [.atom "copyInto", .str sf, .str sn, .str df, .str dn] =>
    -- `copyDataFromGlyph` into a glyph that already holds data; a rejected copy leaves the destination
    -- partly overwritten (not modelled: it is poisoned and removed), the source as it was
    if (sf, sn) ∈ d.poisoned ∨ (df, dn) ∈ d.poisoned then (d, .list [.atom "poisoned"])
    else
      match getGlyph d sf sn, getGlyph d df dn with
      | some g, some t =>
        match copyData t g with
        | .ok r => (setGlyph d df dn r, ok (dump r))
        | .error e =>
          -- the harness takes the half-overwritten destination out of its layer (no component resolves to it)
          ({ d with fonts := AL.set d.fonts df (AL.erase (getLayer d df) dn), poisoned := (df, dn) :: d.poisoned },
           err (errName e))
      | _, _ => (d, err "KeyError")
  | .list [.atom "hcopy", .atom route, src] => (d, Cells.hcopyStep route src)
  | .list [.atom "decompose", .str f, .str n, i] =>
    match asNat? i with
    | none => (d, .atom "bad-op")
    | some i =>
      withGlyph d f n fun g =>
        -- the harness evaluates `glyph.components[i]` before it calls `decomposeComponent`
        if (g.components[i]?).isNone then .error .indexError
        else if f = "-" then .error .typeError
        else
          match decomposeAt FUEL (getLayer d f) g i with
          | .ok r => .ok (setGlyph d f n r, ok (dump r))
          | .error e =>
            -- only the initial deepening can fail: the glyph keeps what it had built (and is poisoned)
            .ok ({ (setGlyph d f n (deepenKeep g).1) with poisoned := (f, n) :: d.poisoned }, err (errName e))
  | .list [.atom "decomposeAll", .str f, .str n] =>
    withGlyph d f n fun g =>
      if f = "-" ∧ g.components ≠ [] then .error .typeError
      else
        match decomposeAll FUEL (getLayer d f) g.components.length g with
        | .ok r => .ok (setGlyph d f n r, ok (dump r))
        | .error e =>
          .ok ({ (setGlyph d f n (deepenKeep g).1) with poisoned := (f, n) :: d.poisoned }, err (errName e))
  | .list [.atom "pen", .str f, .str n, skip, .list evs] =>
    match asBool? skip, evs.mapM asEv? with
    | some skip, some evs =>
      withGlyph d f n fun g =>
        -- a rejected call leaves the glyph as the calls before it made it (no poisoning)
        match buildKeep skip evs g with
        | (r, none) => .ok (setGlyph d f n r, ok (dump r))
        | (r, some e) => .ok (setGlyph d f n r, err (errName e))
    | _, _ => (d, .atom "bad-op")
  | _ => (d, .atom "bad-op")

end Pen
end DefconModel
