/-
Driver glue for M-Conv: S-expressions ⇄ the conversion functions and the format-branch model.
Not part of the proved core.
-/
import DefconModel.Util.SExp
import DefconModel.ConvSave
import DefconModel.Replace

namespace DefconModel
namespace Conv
open SExp

structure DState where
  mem : Option Mem := none

/-! ### decoding -/

def asText? (e : SExp) : Option Text := (asStr? e).map String.toList
def ofText (t : Text) : SExp := .str (String.ofList t)

def asPairOf? {α β} (f : SExp → Option α) (g : SExp → Option β) : SExp → Option (α × β)
  | .list [a, b] => do some (← f a, ← g b)
  | _ => none

def asGlyph? : SExp → Option (String × Glyph)
  | .list [n, a, b] => do some (← asStr? n, ⟨← asNat? a, ← asNat? b⟩)
  | _ => none

def asDLayer? : SExp → Option DLayer
  | .list [n, gs, i] => do some ⟨← asStr? n, ← asListOf? asGlyph? gs, ← asNat? i⟩
  | _ => none

def asKern? : SExp → Option ((Name × Name) × Int)
  | .list [a, b, v] => do some ((← asStr? a, ← asStr? b), ← asInt? v)
  | _ => none

def asHint? : SExp → Option (Hint Blob)
  | .list [bf, bs, bsh, fb, vs, hs, bv, ob, fbl, fob] => do
    some { blueFuzz := ← asOpt? asNat? bf, blueScale := ← asOpt? asNat? bs, blueShift := ← asOpt? asNat? bsh,
           forceBold := ← asOpt? asNat? fb, vStems := ← asListOf? asNat? vs, hStems := ← asListOf? asNat? hs,
           blueValues := ← asListOf? asNat? bv, otherBlues := ← asListOf? asNat? ob,
           familyBlues := ← asListOf? asNat? fbl, familyOtherBlues := ← asListOf? asNat? fob }
  | _ => none

def asHintData? : SExp → Option (HintData Blob)
  | .list [bf, bs, bsh, fb, vs, hs, bv, ob, fbl, fob] => do
    let ll := asOpt? (asListOf? (asListOf? asNat?))
    some { blueFuzz := ← asOpt? asNat? bf, blueScale := ← asOpt? asNat? bs, blueShift := ← asOpt? asNat? bsh,
           forceBold := ← asOpt? asNat? fb, vStems := ← asOpt? (asListOf? asNat?) vs, hStems := ← asOpt? (asListOf? asNat?) hs,
           blueValues := ← ll bv, otherBlues := ← ll ob, familyBlues := ← ll fbl, familyOtherBlues := ← ll fob }
  | _ => none

def asV1Feat? : SExp → Option V1Feat
  | .list [c, f, o] => do
    some { classes := ← asOpt? asText? c, features := ← asOpt? (asListOf? (asPairOf? asText? asText?)) f,
           order := ← asOpt? (asListOf? asText?) o }
  | _ => none

def asFmt? : SExp → Option Fmt
  | .atom "1" => some .f1
  | .atom "2" => some .f2
  | .atom "3" => some .f3
  | _ => none

def asMaps? : SExp → Option Maps
  | .list [a, b] => do some ⟨← asListOf? (asPairOf? asStr? asStr?) a, ← asListOf? (asPairOf? asStr? asStr?) b⟩
  | _ => none

def asBlobs? : SExp → Option (List (String × Blob)) := asListOf? (asPairOf? asStr? asNat?)
def asGroups? : SExp → Option Groups := asListOf? (asPairOf? asStr? (asListOf? asStr?))

def asDisk? : SExp → Option Disk
  | .list [f, layers, dn, k, g, lib, info, hint, gl, feat, v1, hd, im, da] => do
    some { fmt := ← asFmt? f, layers := ← asListOf? asDLayer? layers, defaultName := ← asStr? dn,
           kerning := ← asListOf? asKern? k, groups := ← asGroups? g, lib := ← asBlobs? lib, info := ← asBlobs? info,
           hint := ← asHint? hint, guidelines := ← asNat? gl, features := ← asText? feat, v1feat := ← asV1Feat? v1,
           hintData := ← asOpt? asHintData? hd, images := ← asBlobs? im, data := ← asBlobs? da }
  | _ => none

/-! ### encoding -/

def setOf (xs : List SExp) : SExp := tagged "set" xs

def encGlyph (p : String × Glyph) : SExp := .list [.str p.1, ofNat p.2.v1, ofNat p.2.v2]
def encDLayer (l : DLayer) : SExp := .list [.str l.name, setOf (l.glyphs.map encGlyph), ofNat l.info]
def encKern (k : Kerning) : SExp := setOf (k.map fun p => .list [.str p.1.1, .str p.1.2, ofInt p.2])
def encGroups (g : Groups) : SExp := setOf (g.map fun p => .list [.str p.1, ofList .str p.2])
def encBlobs (l : List (String × Blob)) : SExp := setOf (l.map fun p => .list [.str p.1, ofNat p.2])

def encHint (h : Hint Blob) : SExp :=
  .list [ofOpt ofNat h.blueFuzz, ofOpt ofNat h.blueScale, ofOpt ofNat h.blueShift, ofOpt ofNat h.forceBold,
         ofList ofNat h.vStems, ofList ofNat h.hStems, ofList ofNat h.blueValues, ofList ofNat h.otherBlues,
         ofList ofNat h.familyBlues, ofList ofNat h.familyOtherBlues]

def encHintData (h : HintData Blob) : SExp :=
  let ll := ofOpt (ofList (ofList ofNat))
  .list [ofOpt ofNat h.blueFuzz, ofOpt ofNat h.blueScale, ofOpt ofNat h.blueShift, ofOpt ofNat h.forceBold,
         ofOpt (ofList ofNat) h.vStems, ofOpt (ofList ofNat) h.hStems, ll h.blueValues, ll h.otherBlues,
         ll h.familyBlues, ll h.familyOtherBlues]

def encV1Feat (v : V1Feat) : SExp :=
  .list [ofOpt ofText v.classes,
         ofOpt (fun d => setOf (d.map fun (p : Text × Text) => .list [ofText p.1, ofText p.2])) v.features,
         ofOpt (ofList ofText) v.order]

def encFmt : Fmt → SExp
  | .f1 => .atom "1"
  | .f2 => .atom "2"
  | .f3 => .atom "3"

def encParts (p : Parts) : List SExp :=
  [encKern p.kerning, encGroups p.groups, encBlobs p.lib, encBlobs p.info, encHint p.hint, ofNat p.guidelines,
   ofText p.features]

def encDisk (d : Disk) : SExp :=
  .list [encFmt d.fmt, ofList encDLayer d.layers, .str d.defaultName, encKern d.kerning, encGroups d.groups,
         encBlobs d.lib, encBlobs d.info, encHint d.hint, ofNat d.guidelines, ofText d.features, encV1Feat d.v1feat,
         ofOpt encHintData d.hintData, encBlobs d.images, encBlobs d.data]

def encFull (c : Full) : SExp :=
  .list ([ofList encDLayer c.layers, .str c.defaultName] ++ encParts c.parts ++ [encBlobs c.images, encBlobs c.data])

def unloadedNames {α} (l : List (String × Option α)) : List SExp :=
  l.filterMap fun p => if p.2.isNone then some (.str p.1) else none

/-- what is still not loaded; `det` selects the layers whose state the last save determined (which
glyphs of the other layers are loaded depends on what was read before: loading a composite glyph
loads its bases, and is not compared) -/
def encLazy (m : Mem) (det : MLayer → Bool) : SExp :=
  .list [ofList (fun (l : MLayer) => .list [.str l.name, setOf (unloadedNames l.glyphs)]) (m.layers.filter det),
         setOf (unloadedNames m.images), setOf (unloadedNames m.data)]

/-! ### operations -/

def setAL {α} (l : List (String × Option α)) (n : String) (v : Option (Option α)) : List (String × Option α) :=
  match v with
  | none => AL.erase l n
  | some x => AL.set l n x

def withMem (s : DState) (f : Mem → DState × SExp) : DState × SExp :=
  match s.mem with
  | none => (s, .atom "bad-op")
  | some m => f m

def fullyLoaded (m : Mem) (c : Full) : Mem :=
  { m with layers := m.layers.map (fun l => match c.layers.find? (fun x => x.name = l.name) with
                                              | some x => { l with glyphs := loaded x.glyphs }
                                              | none => l),
           images := loaded c.images, data := loaded c.data }

/-! ### the final replace (M-Replace): the UFO at the destination is blob 1, the new one blob 2, a partial
arrival blob 3 -/

def asKind? : SExp → Option Replace.Kind
  | .atom "dir" => some .dir
  | .atom "file" => some .file
  | _ => none

def asFault? : SExp → Option Replace.Fault
  | .atom "none" => some .none
  | .atom "aside-raises" => some .asideRaises
  | .atom "movein-raises" => some .moveInRaises
  | .atom "movein-torn" => some (.moveInTorn 3)
  | .atom "movein-copied" => some .moveInCopied
  | _ => none

def encNode : Option Replace.Node → SExp
  | none => .atom "nothing"
  | some n => .list [.atom (match n.kind with | .dir => "dir" | .file => "file"),
      .atom (if n.inside ≠ [] then "other" else if n.blob = 1 then "old" else if n.blob = 2 then "new" else "other")]

def driverStep (s : DState) (line : SExp) : DState × SExp :=
  match line with
  -- a save (target format t) whose final replace meets the fault: what lies at the destination afterwards
  -- (M-Replace); in memory the font has read what a save-as reads and stays bound to its UFO
  | .list [.atom "savefault", t, old, new, fault] =>
    withMem s fun m =>
      match asFmt? t, asOpt? asKind? old, asKind? new, asFault? fault with
      | some t, some old, some new, some f =>
        let r := Replace.replace { dest := old.map (fun k => { kind := k, blob := 1 }), temp := some { kind := new, blob := 2 } } f
        let out := SExp.list [.atom (if r.raised then "raised" else "done"), encNode r.fs.dest]
        if r.raised then
          match saveFailsAtReplace featureHeader m t with
          | none => (s, err "save")
          | some m' => ({ mem := some m' }, out)
        else (s, .atom "bad-op")      -- a completed save is the op `save`
      | _, _, _, _ => (s, .atom "bad-op")
  -- pure conversion functions
  | .list [.atom "findheader", t] =>
    match asText? t with
    | some t => (s, ofOpt (fun (h : Header) => .list [ofNat h.start, ofNat h.stop, ofText h.tag]) (featureHeader t))
    | none => (s, .atom "bad-op")
  | .list [.atom "split", t] =>
    match asText? t with
    | some t =>
      (s, match split featureHeader t with
        | .ok c fs => tagged "ok" [ofText c, ofList (fun (p : Text × Text) => .list [ofText p.1, ofText p.2]) fs]
        | .assertion => err "AssertionError"
        | .diverge => .atom "diverge")
    | none => (s, .atom "bad-op")
  | .list [.atom "v1", t] =>
    match asText? t with
    | some t =>
      (s, match split featureHeader t with
        | .ok c fs => let v := toV1 {} c fs; tagged "ok" [encV1Feat v, ofText (fromV1 v)]
        | .assertion => err "AssertionError"
        | .diverge => .atom "diverge")
    | none => (s, .atom "bad-op")
  | .list [.atom "fromv1", v] =>
    match asV1Feat? v with
    | some v => (s, ofText (fromV1 v))
    | none => (s, .atom "bad-op")
  | .list [.atom "pair", vs] =>
    match asListOf? asInt? vs with
    | some vs => (s, ofList (ofList ofInt) (pair vs))
    | none => (s, .atom "bad-op")
  | .list [.atom "unpair", ps] =>
    match asListOf? (asListOf? asInt?) ps with
    | some ps => (s, match unpair ps with
      | some l => tagged "ok" [ofList ofInt l]
      | none => err "ValueError")
    | none => (s, .atom "bad-op")
  | .list [.atom "downkg", maps, k, g] =>
    match asMaps? maps, asListOf? asKern? k, asGroups? g with
    | some m, some k, some g => (s, .list [encKern (downKerning (flip m) k), encGroups (downGroups (flip m) g)])
    | _, _, _ => (s, .atom "bad-op")
  | .list [.atom "upkg", maps, k, g] =>
    match asMaps? maps, asListOf? asKern? k, asGroups? g with
    | some m, some k, some g => (s, .list [encKern (upKerning m k), encGroups (upGroups m g)])
    | _, _, _ => (s, .atom "bad-op")
  -- the font
  | .list [.atom "open", d, maps] =>
    match asDisk? d, asMaps? maps with
    | some d, some mp =>
      match read d mp with
      | none => ({ mem := none }, err "ValueError")
      | some m => ({ mem := some m }, tagged "ok" [ofOpt encFull (observe m)])
    | _, _ => (s, .atom "bad-op")
  | .list [.atom "preread", gl, im, da] =>
    withMem s fun m =>
      match asListOf? (asPairOf? asStr? asStr?) gl, asListOf? asStr? im, asListOf? asStr? da with
      | some gl, some im, some da => ({ mem := some (loadItems m gl im da) }, .atom "ok")
      | _, _, _ => (s, .atom "bad-op")
  | .list [.atom "setparts", k, g, lib, info, hint, gl, feat] =>
    withMem s fun m =>
      match asListOf? asKern? k, asGroups? g, asBlobs? lib, asBlobs? info, asHint? hint, asNat? gl, asText? feat with
      | some k, some g, some lib, some info, some hint, some gl, some feat =>
        ({ mem := some { m with parts := ⟨k, g, lib, info, hint, gl, feat⟩ } }, .atom "ok")
      | _, _, _, _, _, _, _ => (s, .atom "bad-op")
  | .list [.atom "gset", ln, gn, a, b] =>
    withMem s fun m =>
      match asStr? ln, asStr? gn, asNat? a, asNat? b with
      | some ln, some gn, some a, some b => ({ mem := some (setGlyph m ln gn ⟨a, b⟩) }, .atom "ok")
      | _, _, _, _ => (s, .atom "bad-op")
  | .list [.atom "gdel", ln, gn] =>
    withMem s fun m =>
      match asStr? ln, asStr? gn with
      | some ln, some gn => ({ mem := some (delGlyph m ln gn) }, .atom "ok")
      | _, _ => (s, .atom "bad-op")
  -- the layer set: the answer is the layer order and the default layer afterwards (`(err op)`: rejected)
  | .list (.atom "layerop" :: args) =>
    withMem s fun m =>
      let op : Option LayerOp := match args with
        | [.atom "rename", o, n] => do some (.rename (← asStr? o) (← asStr? n))
        | [.atom "new", n] => do some (.new (← asStr? n))
        | [.atom "delete", n] => do some (.delete (← asStr? n))
        | [.atom "default", n] => do some (.setDefault (← asStr? n))
        | [.atom "order", o] => do some (.reorder (← asListOf? asStr? o))
        | [.atom "info", n, b] => do some (.setInfo (← asStr? n) (← asNat? b))
        | _ => none
      match op with
      | none => (s, .atom "bad-op")
      | some op =>
        match applyLayerOp m op with
        | none => (s, err "layerop")
        | some m' => ({ mem := some m' }, tagged "ok" [ofList .str (layerNames m'), .str m'.defaultName])
  | .list [.atom "save", t, ip] =>
    withMem s fun m =>
      match asFmt? t, asBool? ip with
      | some t, some ip =>
        match save featureHeader m t ip with
        | none => (s, err "save")
        | some m' =>
          let saveAs := !ip || m.fmt ≠ some t
          let det (l : MLayer) : Bool := if t.below3 then !(l.name = m.defaultName && !saveAs) else saveAs
          ({ mem := some m' }, tagged "ok" [ofOpt encDisk m'.bound, encLazy m' det])
      | _, _ => (s, .atom "bad-op")
  | .list [.atom "reopen", maps] =>
    withMem s fun m =>
      match asMaps? maps, m.bound with
      | some mp, some d =>
        (s, match read d mp with
          | none => err "ValueError"
          | some r => tagged "ok" [ofOpt encFull (observe r), ofOpt (fun (x : Maps) => .list [
              setOf (x.side1.map fun p => .list [.str p.1, .str p.2]),
              setOf (x.side2.map fun p => .list [.str p.1, .str p.2])]) r.maps])
      | _, _ => (s, .atom "bad-op")
  | .list [.atom "observe"] =>
    withMem s fun m =>
      match observe m with
      | none => (s, err "observe")
      | some c => ({ mem := some (fullyLoaded m c) }, tagged "ok" [encFull c])
  | .list [.atom "lazy"] => withMem s fun m => (s, encLazy m (fun _ => true))
  | .list [.atom "noop"] => (s, .atom "ok")
  | _ => (s, .atom "bad-op")

end Conv
end DefconModel
