/-
Driver glue for M-Parents: S-expression ⇄ `Parents.Op` / dumps.  Not part of the proved core.
-/
import DefconModel.Util.SExp
import DefconModel.Parents
import DefconModel.Spec.Parents

namespace DefconModel
namespace Parents
open SExp

def kindName : Kind → String
  | .font => "font" | .layerSet => "layerSet" | .layer => "layer" | .glyph => "glyph"
  | .contour => "contour" | .component => "component" | .anchor => "anchor" | .guideline => "guideline"
  | .image => "image" | .lib => "lib"

def parseKind : SExp → Option Kind
  | .atom "font" => some .font | .atom "layerSet" => some .layerSet | .atom "layer" => some .layer
  | .atom "glyph" => some .glyph | .atom "contour" => some .contour | .atom "component" => some .component
  | .atom "anchor" => some .anchor | .atom "guideline" => some .guideline | .atom "image" => some .image
  | .atom "lib" => some .lib
  | _ => none

def nnameStr : NName → String
  | .all => "all"
  | .contourChanged => "Contour_Changed" | .componentChanged => "Component_Changed"
  | .componentBaseGlyphDataChanged => "Component_BaseGlyphDataChanged" | .anchorChanged => "Anchor_Changed"
  | .guidelineChanged => "Guideline_Changed" | .libChanged => "Lib_Changed" | .imageChanged => "Image_Changed"
  | .imageDataChanged => "Image_ImageDataChanged" | .glyphChanged => "Glyph_Changed"
  | .glyphNameChanged => "Glyph_NameChanged" | .glyphUnicodesChanged => "Glyph_UnicodesChanged"
  | .layerChanged => "Layer_Changed" | .layerNameChanged => "Layer_NameChanged"
  | .layerGlyphAdded => "Layer_GlyphAdded" | .layerGlyphDeleted => "Layer_GlyphDeleted"
  | .layerGlyphNameChanged => "Layer_GlyphNameChanged" | .layerSetChanged => "LayerSet_Changed"
  | .layerSetLayerAdded => "LayerSet_LayerAdded" | .layerSetLayerWillBeDeleted => "LayerSet_LayerWillBeDeleted"
  | .fontChanged => "Font_Changed"

def parseLayerSpec : SExp → Option (String × List String)
  | .list [n, gs] => do some ((← asStr? n), (← asListOf? asStr? gs))
  | _ => none

def parseOp : SExp → Option Op
  | .list [.atom "newFont"] => some .newFont
  | .list [.atom "openFont", .list ls] => do some (.openFont (← ls.mapM parseLayerSpec))
  | .list [.atom "newLayer", f, n] => do some (.newLayer (← asNat? f) (← asStr? n))
  | .list [.atom "delLayer", f, n] => do some (.delLayer (← asNat? f) (← asStr? n))
  | .list [.atom "renameLayer", l, n] => do some (.renameLayer (← asNat? l) (← asStr? n))
  | .list [.atom "newGlyph", l, n] => do some (.newGlyph (← asNat? l) (← asStr? n))
  | .list [.atom "getGlyph", l, n, spec] => do
    some (.getGlyph (← asNat? l) (← asStr? n) (← asListOf? asNat? spec))
  | .list [.atom "delGlyph", l, n] => do some (.delGlyph (← asNat? l) (← asStr? n))
  | .list [.atom "renameGlyph", g, n] => do some (.renameGlyph (← asNat? g) (← asStr? n))
  | .list [.atom "insertGlyph", l, g, n] => do
    some (.insertGlyph (← asNat? l) (← asNat? g) (← asOpt? asStr? n))
  | .list [.atom "new", k] => do some (.new (← parseKind k))
  | .list [.atom "newGlyphObj"] => some .newGlyphObj
  | .list [.atom "insert", p, x] => do some (.insert (← asNat? p) (← asNat? x))
  | .list [.atom "remove", p, x] => do some (.remove (← asNat? p) (← asNat? x))
  | .list [.atom "clear", p, k] => do some (.clear (← asNat? p) (← parseKind k))
  | .list [.atom "clearAll", g] => do some (.clearAll (← asNat? g))
  | .list [.atom "setList", p, k, xs] => do
    some (.setList (← asNat? p) (← parseKind k) (← asListOf? asNat? xs))
  | .list [.atom "touch", p, k] => do some (.touch (← asNat? p) (← parseKind k))
  | .list [.atom "mutate", x] => do some (.mutate (← asNat? x))
  | .list [.atom "clean"] => some .clean
  | .list [.atom "dump"] => some .dump
  | _ => none

def setOf (xs : List SExp) : SExp := tagged "set" xs

def encErr : Err → SExp
  | .noSuchObject => err "NoSuchObject" | .detached => err "Detached" | .keyError => err "KeyError"
  | .assertionError => err "AssertionError" | .indexError => err "IndexError" | .valueError => err "ValueError"

def isContainer : Kind → Bool
  | .font | .layerSet | .layer | .glyph => true
  | _ => false

def dirtySet (h : Heap) : SExp :=
  tagged "dirty" [setOf (((List.range h.next).filter fun i =>
    h.isDirty i && ((h.kindOf i).map isContainer).getD false).map ofNat)]

def encRow (h : Heap) (i : Id) : SExp :=
  match h.get i with
  | none => .atom "missing"
  | some n =>
    let accs := [glyphOf h i, layerOf h i, layerSetOf h i, fontOf h i, parentOf h i, dispOf h i]
    .list ([ofNat i, .atom (kindName n.kind), .list (accs.map (ofOpt ofNat)), setOf (n.kids.map ofNat)]
      ++ (if isContainer n.kind then [ofBool (h.isDirty i)] else []))

def encDump (h : Heap) : SExp :=
  .list [.atom "dump", .list ((List.range h.next).map (encRow h)),
    tagged "regs" [setOf (h.regs.map fun r =>
      .list [ofNat r.centre, ofNat r.observer, ofNat r.observable, .atom (nnameStr r.name)])]]


/-! A run-time check of the invariant `Wired` (Spec/Parents.lean), field by field, for testing the
statement on generated histories before/besides proving it: `(check)` lists the fields that fail. -/

def linkB (h : Heap) (o s : Id) : Bool :=
  h.ownerOf s == some o || (h.kindOf s == some .layer && ancOf h .font s == some o)

def checkWired (h : Heap) : List String :=
  let ids := List.range h.next
  let all (f : Id → Node → Bool) : Bool := ids.all fun x => match h.get x with | some n => f x n | none => false
  let isAnc (o : Option Id) (k : Kind) (x : Id) : Bool := match o with | none => true | some a => ancOf h k x == some a
  let fields : List (String × Bool) := [
    ("kKids", all fun _ n => n.kids.all fun x => match h.get x with | some nx => allowed n.kind nx.kind | none => false),
    ("kidsNodup", all fun _ n => n.kids.eraseDups.length == n.kids.length),
    ("shape", all fun _ n =>
      (n.kind.isLeaf || n.pGlyph.isNone) &&
      (n.kind != .font || (n.pLayer.isNone && n.pLayerSet.isNone && n.pFont.isNone && n.disp.isNone)) &&
      (n.kind != .layerSet || (n.pLayer.isNone && n.pLayerSet.isNone)) &&
      (n.kind != .layer || (n.pLayer.isNone && n.pFont.isNone))),
    ("up", all fun x n => match owner n with | none => true | some p => (h.kidsOf p).contains x),
    ("down", all fun p np => !(np.kind == .font || (owner np).isSome) || np.kids.all fun x => h.ownerOf x == some p),
    ("loose", all fun _ n => (owner n).isSome ||
      (n.pGlyph.isNone && n.pLayer.isNone && n.pLayerSet.isNone && n.pFont.isNone && n.disp.isNone)),
    ("refs", all fun x n => isAnc n.pGlyph .glyph x && isAnc n.pLayer .layer x && isAnc n.pLayerSet .layerSet x &&
      isAnc n.pFont .font x && isAnc n.disp .font x),
    ("full", all fun x n =>
      (!(n.kind == .glyph && n.pLayer.isSome) || (n.pLayerSet.isSome && n.pFont.isSome)) &&
      (!(n.kind == .layer && n.pLayerSet.isSome) || (ancOf h .font x).isSome)),
    ("regSound", h.regs.all fun r => centreOf h r.observable == some r.centre &&
      ((r.name == .all && r.observer == r.observable) ||
       ((namesFor h r.observer r.observable).contains r.name && linkB h r.observer r.observable))),
    ("accExact", all fun x n =>
      (n.kind == .font || (dispOf h x == ancOf h .font x && fontOf h x == ancOf h .font x)) &&
      (!n.kind.isLeaf || (glyphOf h x == ancOf h .glyph x && layerOf h x == ancOf h .layer x &&
         layerSetOf h x == ancOf h .layerSet x))),
    ("regComplete", all fun x _ => match dispOf h x with
      | none => true
      | some c => h.regs.contains ⟨c, x, x, .all⟩ && ids.all fun o =>
          !(linkB h o x) || (namesFor h o x).all fun nm => h.regs.contains ⟨c, o, x, nm⟩),
    ("regNodup", h.regs.eraseDups.length == h.regs.length)]
  (fields.filter fun p => !p.2).map (·.1)

def driverStep (h : Heap) (line : SExp) : Heap × SExp :=
  match line with
  | .list [.atom "check"] => (h, tagged "check" ((checkWired h).map .atom))
  | .list [.atom "mutate", x, .atom "nolog"] =>
    match asNat? x with
    | none => (h, .atom "bad-op")
    | some x =>
      match step h (.mutate x) with
      | (h', .mut _) => (h', tagged "mut" [dirtySet h'])
      | (h', .err e) => (h', encErr e)
      | (h', _) => (h', .atom "bad-op")
  | _ =>
    match parseOp line with
    | none => (h, .atom "bad-op")
    | some .dump => let h' := (step h .dump).1; (h', encDump h')
    | some .clean => let h' := (step h .clean).1; (h', tagged "mut" [dirtySet h'])
    | some op =>
      match step h op with
      | (h', .ok) => (h', .atom "ok")
      | (h', .id i) => (h', tagged "id" [ofNat i])
      | (h', .err e) => (h', encErr e)
      | (h', .mut posted) => (h', tagged "mut" [dirtySet h', tagged "posted" [setOf (posted.eraseDups.map ofNat)]])

end Parents
end DefconModel
