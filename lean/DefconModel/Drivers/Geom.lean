/-
Driver glue for M-Geom: S-expression ⇄ `Geom.Op` / `Geom.Res`.  Not part of the proved core.

Numbers are exact rationals written `n` or `n/d`.  The driver runs the model with `hullOracle`
in place of fontTools' numeric curve-extrema code, so every *curve-bounds-dependent* answer
(bounds, margins) on an outline that has off-curve points is reported as the atom `curved`
(the state change — cache filling — still happens); the harness compares those against an
independent computation instead.
-/
import DefconModel.Util.SExp
import DefconModel.GeomCache

namespace DefconModel
namespace Geom
open SExp

def asRat? : SExp → Option Rat
  | .atom s =>
    match s.splitOn "/" with
    | [n] => n.toInt?.map (fun (i : Int) => (i : Rat))
    | [n, d] => do
      let i ← n.toInt?
      let k ← d.toNat?
      if k = 0 then none else some (mkRat i k)
    | _ => none
  | _ => none

def ofRat (r : Rat) : SExp :=
  if r.den = 1 then .atom (toString r.num) else .atom (toString r.num ++ "/" ++ toString r.den)

def asSeg? : SExp → Option (Option Seg)
  | .atom "off" => some none
  | .atom "move" => some (some .move)
  | .atom "line" => some (some .line)
  | .atom "curve" => some (some .curve)
  | .atom "qcurve" => some (some .qcurve)
  | _ => none

def ofSeg : Option Seg → SExp
  | none => .atom "off"
  | some .move => .atom "move"
  | some .line => .atom "line"
  | some .curve => .atom "curve"
  | some .qcurve => .atom "qcurve"

def asPoint? : SExp → Option Point
  | .list [x, y, t, sm, n, i] => do
    some { pt := ⟨← asRat? x, ← asRat? y⟩, seg := ← asSeg? t, smooth := ← asBool? sm,
           name := ← asOpt? asStr? n, ident := ← asOpt? asStr? i }
  | _ => none

def ofPoint (p : Point) : SExp :=
  .list [ofRat p.pt.x, ofRat p.pt.y, ofSeg p.seg, ofBool p.smooth, ofOpt .str p.name, ofOpt .str p.ident]

def asPt? : SExp → Option Pt
  | .list [x, y] => do some ⟨← asRat? x, ← asRat? y⟩
  | _ => none

def ofPt (p : Pt) : SExp := .list [ofRat p.x, ofRat p.y]

def asComponent? : SExp → Option Component
  | .list [b, xx, xy, yx, yy, dx, dy] => do
    some { base := ← asStr? b, t := ⟨← asRat? xx, ← asRat? xy, ← asRat? yx, ← asRat? yy, ← asRat? dx, ← asRat? dy⟩ }
  | _ => none

def asContour? (e : SExp) : Option Contour := do
  let pts ← asListOf? asPoint? e
  some { points := pts }

def parseOp : SExp → Option Op
  | .list [.atom "newGlyph", n, w, h, vo, cs, ks, as, im] => do
    some (.newGlyph (← asStr? n)
      { width := ← asRat? w, height := ← asRat? h, vo := ← asOpt? asRat? vo,
        contours := ← asListOf? asContour? cs, components := ← asListOf? asComponent? ks,
        anchors := ← asListOf? asPt? as, image := ← asPt? im })
  | .list [.atom "cBounds", g, i] => do some (.cBounds (← asStr? g) (← asNat? i))
  | .list [.atom "cCpb", g, i] => do some (.cCpb (← asStr? g) (← asNat? i))
  | .list [.atom "cArea", g, i] => do some (.cArea (← asStr? g) (← asNat? i))
  | .list [.atom "cOpen", g, i] => do some (.cOpen (← asStr? g) (← asNat? i))
  | .list [.atom "cPoints", g, i] => do some (.cPoints (← asStr? g) (← asNat? i))
  | .list [.atom "cSegments", g, i] => do some (.cSegments (← asStr? g) (← asNat? i))
  | .list [.atom "kBounds", g, i] => do some (.kBounds (← asStr? g) (← asNat? i))
  | .list [.atom "kCpb", g, i] => do some (.kCpb (← asStr? g) (← asNat? i))
  | .list [.atom "kTransform", g, i] => do some (.kTransform (← asStr? g) (← asNat? i))
  | .list [.atom "gBounds", g] => do some (.gBounds (← asStr? g))
  | .list [.atom "gCpb", g] => do some (.gCpb (← asStr? g))
  | .list [.atom "gArea", g] => do some (.gArea (← asStr? g))
  | .list [.atom "gMargins", g] => do some (.gMargins (← asStr? g))
  | .list [.atom "gMetrics", g] => do some (.gMetrics (← asStr? g))
  | .list [.atom "gAnchors", g] => do some (.gAnchors (← asStr? g))
  | .list [.atom "gImage", g] => do some (.gImage (← asStr? g))
  | .list [.atom "cMove", g, i, dx, dy] => do some (.cMove (← asStr? g) (← asNat? i) (← asRat? dx) (← asRat? dy))
  | .list [.atom "cReverse", g, i] => do some (.cReverse (← asStr? g) (← asNat? i))
  | .list [.atom "cSetStart", g, i, ix] => do some (.cSetStart (← asStr? g) (← asNat? i) (← asInt? ix))
  | .list [.atom "cSetClockwise", g, i, v] => do some (.cSetClockwise (← asStr? g) (← asNat? i) (← asBool? v))
  | .list [.atom "kMove", g, i, dx, dy] => do some (.kMove (← asStr? g) (← asNat? i) (← asRat? dx) (← asRat? dy))
  | .list [.atom "aMove", g, i, dx, dy] => do some (.aMove (← asStr? g) (← asNat? i) (← asRat? dx) (← asRat? dy))
  | .list [.atom "iMove", g, dx, dy] => do some (.iMove (← asStr? g) (← asRat? dx) (← asRat? dy))
  | .list [.atom "gMove", g, dx, dy] => do some (.gMove (← asStr? g) (← asRat? dx) (← asRat? dy))
  | .list [.atom "setLeft", g, v] => do some (.setLeft (← asStr? g) (← asRat? v))
  | .list [.atom "setRight", g, v] => do some (.setRight (← asStr? g) (← asRat? v))
  | .list [.atom "setBottom", g, v] => do some (.setBottom (← asStr? g) (← asRat? v))
  | .list [.atom "setTop", g, v] => do some (.setTop (← asStr? g) (← asRat? v))
  | .list [.atom "setWidth", g, v] => do some (.setWidth (← asStr? g) (← asRat? v))
  | .list [.atom "setHeight", g, v] => do some (.setHeight (← asStr? g) (← asRat? v))
  | .list [.atom "setVO", g, v] => do some (.setVO (← asStr? g) (← asOpt? asRat? v))
  | _ => none

def ofBox (b : Box) : SExp := .list [ofRat b.xMin, ofRat b.yMin, ofRat b.xMax, ofRat b.yMax]

def ofErr : Err → SExp
  | .penError => err "PenError"
  | .notImplemented => err "NotImplementedError"
  | .assertion => err "AssertionError"
  | .index => err "IndexError"
  | .key => err "KeyError"
  | .unsupported => err "unsupported"
  | .fuel => err "RecursionError"
  | .curved => err "curved"

def encRes : Res → SExp
  | .ok => .atom "ok"
  | .box b => tagged "box" [ofOpt ofBox b]
  | .area s cw a => tagged "area" [ofRat s, ofBool cw, ofRat a]
  | .rat r => tagged "rat" [ofRat r]
  | .bool b => ofBool b
  | .points l => tagged "points" (l.map ofPoint)
  | .segments l => tagged "segments" (l.map (fun s => .list (s.map ofPoint)))
  | .transform t => tagged "transform" [ofRat t.xx, ofRat t.xy, ofRat t.yx, ofRat t.yy, ofRat t.dx, ofRat t.dy]
  | .margins l r b t => tagged "margins" [ofOpt ofRat l, ofOpt ofRat r, ofOpt ofRat b, ofOpt ofRat t]
  | .metrics w h vo => tagged "metrics" [ofRat w, ofRat h, ofOpt ofRat vo]
  | .pts l => tagged "pts" (l.map ofPt)
  | .err e => ofErr e

def hasOff (pts : List Point) : Bool := pts.any (fun p => !p.onCurve)

/-- does the outline of the glyph (base glyphs included) contain an off-curve point? -/
def glyphCurved (w : World) : Nat → Glyph → Bool
  | 0, _ => true
  | fuel + 1, g =>
    g.contours.any (fun c => hasOff c.points) ||
    g.components.any (fun k =>
      match AL.get? w.glyphs k.base with
      | none => false
      | some bg => glyphCurved w fuel bg)

def componentCurved (w : World) (name : String) (j : Nat) : Bool :=
  match AL.get? w.glyphs name with
  | none => false
  | some g =>
    match g.components[j]? with
    | none => false
    | some k =>
      match AL.get? w.glyphs k.base with
      | none => false
      | some bg => glyphCurved w fuelDefault bg

def contourCurved (w : World) (name : String) (i : Nat) : Bool :=
  match AL.get? w.glyphs name with
  | none => false
  | some g =>
    match g.contours[i]? with
    | none => false
    | some c => hasOff c.points

def glyphCurvedByName (w : World) (name : String) : Bool :=
  match AL.get? w.glyphs name with
  | none => false
  | some g => glyphCurved w fuelDefault g

/-- is the answer to this op only as good as the curve oracle? -/
def oracleDependent (w : World) : Op → Bool
  | .cBounds g i => contourCurved w g i
  | .kBounds g j => componentCurved w g j
  | .gBounds g => glyphCurvedByName w g
  | .gMargins g => glyphCurvedByName w g
  | _ => false

def isErr : Res → Bool
  | .err _ => true
  | _ => false

def parseXOp : SExp → Option XOp
  | .list [.atom "cSetPoint", g, i, j, x, y] => do
    some (.cSetPoint (← asStr? g) (← asNat? i) (← asNat? j) (← asRat? x) (← asRat? y))
  | .list [.atom "cInsertPoint", g, i, j, p] => do
    some (.cInsertPoint (← asStr? g) (← asNat? i) (← asNat? j) (← asPoint? p))
  | .list [.atom "cRemovePoint", g, i, j] => do some (.cRemovePoint (← asStr? g) (← asNat? i) (← asNat? j))
  | .list [.atom "kSetT", g, j, xx, xy, yx, yy, dx, dy] => do
    some (.kSetT (← asStr? g) (← asNat? j)
      ⟨← asRat? xx, ← asRat? xy, ← asRat? yx, ← asRat? yy, ← asRat? dx, ← asRat? dy⟩)
  | .list [.atom "kSetBase", g, j, b] => do some (.kSetBase (← asStr? g) (← asNat? j) (← asStr? b))
  | .list [.atom "gDelete", g] => do some (.gDelete (← asStr? g))
  | .list [.atom "gRename", g, n] => do some (.gRename (← asStr? g) (← asStr? n))
  | e => (parseOp e).map .base

/-- is the answer to this op only as good as the curve oracle? -/
def xOracleDependent (w : World) : XOp → Bool
  | .base op => oracleDependent w op
  | _ => false

/-- The driver runs the semantics with caches (`cstep`): what it answers equals the functional
definition by `Props.C17.base_edit_reflected`; the cache probes tie the tables to the objects'
`hasCachedRepresentation`. -/
def driverStep (cw : CWorld) (line : SExp) : CWorld × SExp :=
  match line with
  | .list [.atom "caching", b] =>
    match asBool? b with
    | some v => ({ cw with w := { cw.w with caching := v } }, .atom "ok")
    | none => (cw, .atom "bad-op")
  | .list [.atom "noop"] => (cw, .atom "skip")
  | .list [.atom "kCached", g, j] =>
    match asStr? g, asNat? j with
    | some g, some j =>
      match compAt cw.w (g, j) with
      | none => (cw, if (AL.get? cw.w.glyphs g).isSome then ofErr .index else ofErr .key)
      | some _ => (cw, tagged "cached" [ofBool (cw.kbCached g j), ofBool (cw.kcCached g j)])
    | _, _ => (cw, .atom "bad-op")
  | .list [.atom "gAreaCached", g] =>
    match asStr? g with
    | some g =>
      if (AL.get? cw.w.glyphs g).isSome then (cw, tagged "cached" [ofBool (cw.gaCached g)]) else (cw, ofErr .key)
    | none => (cw, .atom "bad-op")
  | .list [.atom "cReverse2", g, i] =>
    -- reverse, read the points, reverse again, read the points
    match asStr? g, asNat? i with
    | some g, some i =>
      let r1 := cstep hullOracle cw (.base (.cReverse g i))
      if isErr r1.2 then (r1.1, encRes r1.2)
      else
        let p1 := cstep hullOracle r1.1 (.base (.cPoints g i))
        let r2 := cstep hullOracle p1.1 (.base (.cReverse g i))
        let p2 := cstep hullOracle r2.1 (.base (.cPoints g i))
        (p2.1, tagged "twice" [encRes p1.2, encRes p2.2])
    | _, _ => (cw, .atom "bad-op")
  | _ =>
    match parseXOp line with
    | none => (cw, .atom "bad-op")
    | some op =>
      let dep := xOracleDependent cw.w op
      let r := cstep hullOracle cw op
      (r.1, if dep && !isErr r.2 then .atom "curved" else encRes r.2)

end Geom
end DefconModel
