/-
Driver glue for M-GlyphOrder: S-expression ⇄ `GlyphOrder.Op` / observation.  Not part of the
proved core.

Input lines
  (init ((<layer> (<glyph> …)) …) <lib>)   start state: layers in layer order (all observed by the
                                            font, as after loading / deserialising), lib value
  (newGlyph <layer> <g>) (insertGlyph <layer> <g>) (delGlyph <layer> <g>) (rename <layer> <old> <new>)
  (setOrder <lib>) (setLib <lib>) (newLayer <name>) (delLayer <name>)
  (save)                                    persisting and re-reading: observation only
where <lib> = none | (some (<name> …)).
Output line: (<res> (order <name> …) <lib> (layers (<layer> (set <glyph> …)) …))
-/
import DefconModel.Util.SExp
import DefconModel.GlyphOrderV1

namespace DefconModel
namespace GlyphOrderV1
open SExp

def strList? : SExp → Option (List String) := asListOf? asStr?
def optStrList? : SExp → Option (Option (List String)) := asOpt? strList?

def parseLayer : SExp → Option (String × Layer)
  | .list [n, gs] => do some (← asStr? n, { glyphs := ← strList? gs, observed := true })
  | _ => none

def parseOp : SExp → Option Op
  | .list [.atom "newGlyph", l, g] => do some (.newGlyph (← asStr? l) (← asStr? g))
  | .list [.atom "insertGlyph", l, g] => do some (.insertGlyph (← asStr? l) (← asStr? g))
  | .list [.atom "delGlyph", l, g] => do some (.delGlyph (← asStr? l) (← asStr? g))
  | .list [.atom "rename", l, o, n] => do some (.rename (← asStr? l) (← asStr? o) (← asStr? n))
  | .list [.atom "setOrder", v] => do some (.setOrder (← optStrList? v))
  | .list [.atom "setLib", v] => do some (.setLib (← optStrList? v))
  | .list [.atom "newLayer", n] => do some (.newLayer (← asStr? n))
  | .list [.atom "delLayer", n] => do some (.delLayer (← asStr? n))
  | _ => none

def encRes : Res → SExp
  | .ok => .atom "ok"
  | .err .keyError => err "KeyError"

def encLayer (kl : String × Layer) : SExp := .list [.str kl.1, tagged "set" (kl.2.glyphs.map .str)]

def observe (r : SExp) (f : Font) : SExp :=
  .list [r, tagged "order" ((glyphOrder f).map .str), ofOpt (ofList .str) f.lib,
         tagged "layers" (f.layers.map encLayer)]

/-- a new `Font()`: one empty, observed layer `public.default`; no glyph order in the lib -/
def initial : Font := { layers := [("public.default", { glyphs := [], observed := true })], lib := none }

def driverStep (f : Font) (line : SExp) : Font × SExp :=
  match line with
  | .list [.atom "init", .list ls, lib] =>
    match ls.mapM parseLayer, optStrList? lib with
    | some layers, some v =>
      let f' : Font := { layers := layers, lib := v }
      (f', observe (.atom "ok") f')
    | _, _ => (f, .atom "bad-op")
  | .list [.atom "save"] => (f, observe (.atom "ok") f)
  | _ =>
    match parseOp line with
    | none => (f, .atom "bad-op")
    | some op =>
      let (f', r) := step f op
      (f', observe (encRes r) f')

end GlyphOrderV1
end DefconModel
