/-
Driver glue for M-Serial: S-expression ⇄ model objects, and the flat list of facts `(path value)` that the
harness compares with the same list computed from the real rebuilt object.  Not part of the proved core.

  (roundtrip <kind> <object> <whitelist> <blacklist>)      fresh parent-less target of that kind
  (roundtrip-in-font glyph|layer <object> none none)       fresh target inside a font (dispatcher, parents)
  (keys <kind> <object> <whitelist> <blacklist>)           keys of the data dictionary, in order
  (roundtrip… <kind> <object> none none (look <before> (k …)))
                                                           … a new object somebody looks at: `before` = its derived
                                                           data were read while it was still empty (a layer: the
                                                           unicode-data object exists), `k …` = an observer of
                                                           `Layer.GlyphAdded` reads them at the k-th glyph of a layer

Facts whose last path component starts with `@` are wiring / registry / propagation facts.
-/
import DefconModel.Util.SExp
import DefconModel.Serial

namespace DefconModel
namespace Serial
open SExp

abbrev Fact := String × SExp

/-! ### parsing -/

def pVal := asStr?

def pDict : SExp → Option Dict
  | .list xs => xs.mapM fun
    | .list [k, v] => do some ((← asStr? k), (← asStr? v))
    | _ => none
  | _ => none

def pPoint : SExp → Option Point
  | .list [x, y, s, sm, n, i] => do
    some ⟨(← pVal x), (← pVal y), (← pVal s), (← pVal sm), (← pVal n), (← pVal i)⟩
  | _ => none

def pPen : SExp → Option PenRec
  | .list [i, pts] => do some ⟨(← pVal i), (← asListOf? pPoint pts)⟩
  | _ => none

def pComp : SExp → Option Component
  | .list [b, t, i] => do some { base := (← pVal b), transformation := (← pVal t), ident := (← pVal i) }
  | _ => none

def pDictObj (e : SExp) : Option DictObj := do some { items := (← pDict e) }

def pGlyph : SExp → Option Glyph
  | .list [name, uni, w, h, note, lib, tlib, img, sh, cs, ks, as, gs] => do
    some { name := (← pVal name), unicodes := (← pVal uni), width := (← pVal w), height := (← pVal h),
           note := (← pVal note), lib := (← pDictObj lib), tempLib := (← pDictObj tlib),
           image := (← asOpt? pDictObj img), shallow := (← asOpt? (asListOf? pPen) sh),
           contours := (← asListOf? pPen cs).map (fun p => { ident := p.ident, points := p.points }),
           components := (← asListOf? pComp ks),
           anchors := (← asListOf? pDictObj as), guidelines := (← asListOf? pDictObj gs) }
  | _ => none

def pLayer : SExp → Option Layer
  | .list [name, color, lib, tlib, gs] => do
    let gl ← asListOf? (fun
      | .list [n, g] => do some ((← pVal n), (← pGlyph g))
      | _ => none) gs
    some { name := (← pVal name), color := (← pVal color), lib := (← pDictObj lib), tempLib := (← pDictObj tlib),
           glyphs := gl }
  | _ => none

def pLayerSet : SExp → Option LayerSet
  | .list [dflt, ls] => do
    let l ← asListOf? pLayer ls
    some { default := (← pVal dflt), layers := l.map (fun ly => (ly.name, ly)) }
  | _ => none

def pFont : SExp → Option Font
  | .list [fmt, maps, data, images, feat, groups, kerning, lib, tlib, info, layers, gs] => do
    some { fmt := (← pVal fmt), maps := (← pVal maps), data := (← pDictObj data), images := (← pDictObj images),
           features := { text := (← pVal feat) }, groups := (← pDictObj groups), kerning := (← pDictObj kerning),
           lib := (← pDictObj lib), tempLib := (← pDictObj tlib),
           info := { items := dictUpdate infoFresh (← pDict info) },
           layers := (← pLayerSet layers), guidelines := (← asListOf? pDictObj gs) }
  | _ => none
where infoFresh : Dict := Info.fresh.items

def pKeys := asOpt? (asListOf? asStr?)

/-! ### facts -/

def fb (b : Bool) : SExp := .str (if b then "true" else "false")

def wiring (p : String) (parent observed : Bool) : List Fact :=
  [(p ++ "/@parent", fb parent), (p ++ "/@observed", fb observed)]

/-- all items of a dict -/
def itemFacts (p : String) (d : Dict) : List Fact := d.map fun kv => (p ++ "/" ++ kv.1, .str kv.2)

/-- the attribute getters of an Anchor / Guideline / Image (`.get`: None when absent) -/
def attrFacts (p : String) (attrs : List String) (d : Dict) : List Fact :=
  attrs.map fun k => (p ++ "/" ++ k, .str (dictGet d k))

def drvAnchorAttrs := ["x", "y", "name", "color", "identifier"]
def drvGuidelineAttrs := ["x", "y", "angle", "name", "color", "identifier"]
def drvImageAttrs := ["fileName", "xScale", "xyScale", "yxScale", "yScale", "xOffset", "yOffset", "color"]

def ePoint (q : Point) : SExp := .list [.str q.x, .str q.y, .str q.seg, .str q.smooth, .str q.name, .str q.ident]
def ePen (q : PenRec) : SExp := .list [.str q.ident, .list (q.points.map ePoint)]

def regFacts (p : String) : Reg → List Fact
  | .ok l => l.map fun i => (p ++ "/@id/" ++ i, .str "1")
  | .fail e => [(p ++ "/@regerr", .str e)]

/-- `@prop` facts from the model's propagation lists -/
def propFacts (l : List (String × Bool)) : List Fact := l.map fun pb => (pb.1 ++ "/@prop", fb pb.2)

def dictObjFacts (p : String) (o : DictObj) : List Fact :=
  itemFacts p o.items ++ wiring p o.parent o.observed

def attrObjFacts (p : String) (attrs : List String) (o : DictObj) : List Fact :=
  attrFacts p attrs o.items ++ wiring p o.parent o.observed

def contourFacts (p : String) (c : Contour) : List Fact :=
  wiring p c.parent c.observed

def glyphFacts (p : String) (g : Glyph) : List Fact :=
  let pens := match g.shallow with
    | some l => l
    | none => g.contours.map Contour.toPen
  let f := g.fullyLoad
  ([(p ++ "/name", .str g.name), (p ++ "/unicodes", .str g.unicodes), (p ++ "/width", .str g.width),
   (p ++ "/height", .str g.height), (p ++ "/note", .str g.note),
   (p ++ "/@shallow", fb g.shallow.isSome)] : List Fact)
  ++ itemFacts (p ++ "/lib") g.lib.items ++ itemFacts (p ++ "/tempLib") g.tempLib.items
  ++ attrFacts (p ++ "/image") drvImageAttrs g.imageObj.items
  ++ (idx pens).map (fun (ip : String × PenRec) => (p ++ "/pen/" ++ ip.1, ePen ip.2))
  ++ [(p ++ "/pen/n", .str (ns pens.length))]
  -- after the full load
  ++ (idx f.contours).flatMap (fun (ic : String × Contour) => contourFacts (p ++ "/c/" ++ ic.1) ic.2)
  ++ (idx f.components).flatMap (fun (ic : String × Component) =>
      [(p ++ "/k/" ++ ic.1, SExp.list [.str ic.2.base, .str ic.2.transformation, .str ic.2.ident])]
      ++ wiring (p ++ "/k/" ++ ic.1) ic.2.parent ic.2.observed)
  ++ [(p ++ "/k/n", .str (ns f.components.length))]
  ++ (idx f.anchors).flatMap (fun (ic : String × DictObj) => attrObjFacts (p ++ "/a/" ++ ic.1) drvAnchorAttrs ic.2)
  ++ [(p ++ "/a/n", .str (ns f.anchors.length))]
  ++ (idx f.guidelines).flatMap (fun (ic : String × DictObj) => attrObjFacts (p ++ "/g/" ++ ic.1) drvGuidelineAttrs ic.2)
  ++ [(p ++ "/g/n", .str (ns f.guidelines.length))]
  ++ regFacts p f.reg

def glyphWiring (p : String) (g : Glyph) : List Fact :=
  wiring p g.parent g.observed
  ++ wiring (p ++ "/lib") g.lib.parent g.lib.observed
  ++ wiring (p ++ "/image") g.imageObj.parent g.imageObj.observed
  ++ [(p ++ "/tempLib/@parent", fb g.tempLib.parent)]

def glyphAll (p : String) (g : Glyph) : List Fact :=
  glyphFacts p g ++ glyphWiring p g

def layerFacts (p : String) (ly : Layer) : List Fact :=
  [(p ++ "/color", .str ly.color)]
  ++ itemFacts (p ++ "/lib") ly.lib.items ++ itemFacts (p ++ "/tempLib") ly.tempLib.items
  ++ wiring (p ++ "/lib") ly.lib.parent ly.lib.observed
  ++ [(p ++ "/tempLib/@parent", fb ly.tempLib.parent)]
  ++ wiring p ly.parent ly.observed
  ++ ly.glyphs.flatMap (fun ng => glyphAll (p ++ "/G/" ++ ng.1) ng.2)
  ++ [(p ++ "/G/@names", SExp.list (.atom "set" :: ly.glyphs.map (fun ng => SExp.str ng.1)))]
  -- what `layer.unicodeData` answers now, glyph by glyph
  ++ [(p ++ "/@cmap", SExp.list (.atom "set" :: ly.unicodeData.map (fun nu => SExp.list [.str nu.1, .str nu.2])))]

def layerSetFacts (p : String) (ls : LayerSet) : List Fact :=
  [(p ++ "/order", SExp.list (ls.layers.map (fun nl => SExp.str nl.1))), (p ++ "/default", .str ls.default)]
  ++ wiring p ls.parent ls.observed
  ++ ls.layers.flatMap (fun nl => layerFacts (p ++ "/L/" ++ nl.1) nl.2)

def fontFacts (f : Font) : List Fact :=
  [("fmt", .str f.fmt), ("maps", .str f.maps), ("features", .str f.features.text)]
  ++ wiring "features" f.features.parent f.features.observed
  ++ dictObjFacts "data" f.data ++ dictObjFacts "images" f.images
  ++ dictObjFacts "groups" f.groups ++ dictObjFacts "kerning" f.kerning
  ++ dictObjFacts "lib" f.lib
  ++ itemFacts "tempLib" f.tempLib.items ++ [("tempLib/@parent", fb f.tempLib.parent)]
  ++ itemFacts "info" (f.info.items.filter (fun kv => kv.2 ≠ pyNone))
  ++ wiring "info" f.info.parent f.info.observed
  ++ layerSetFacts "layers" f.layers
  ++ (idx f.guidelines).flatMap (fun (ic : String × DictObj) => attrObjFacts ("fg/" ++ ic.1) drvGuidelineAttrs ic.2)
  ++ [("fg/n", .str (ns f.guidelines.length))]
  ++ regFacts "font" f.reg
  ++ propFacts f.propagation

def okFacts (fs : List Fact) : SExp :=
  tagged "ok" [tagged "set" (fs.map fun f => .list [.str f.1, f.2])]

def result (e : Option String) (fs : List Fact) : SExp :=
  match e with
  | some e => err e
  | none => okFacts fs

def keysOut {δ} (d : List (String × δ)) : SExp := tagged "keys" ((AL.keys d).map .str)

/-! ### the operations -/

/-- who looks at the new object: (its derived data were read before the data came in, the schedule of the
observer of `Layer.GlyphAdded`) -/
abbrev Look := Bool × List Nat

def pLook : SExp → Option Look
  | .list [.atom "look", b, ks] => do some ((← asBool? b), (← asListOf? asNat? ks))
  | _ => none

def roundtrip (kind : String) (obj : SExp) (wl bl : Option (List String)) (inFont : Bool) (look : Look := (false, [])) :
    Option SExp :=
  match kind, inFont with
  | "font", false => do
    let f ← pFont obj
    -- (what was read of the new font before belongs to the layer set that is replaced)
    let r := Font.deser (f.ser wl bl) { layers := { parent := true, observed := true, disp := true, peekAt := look.2 } }
    some (result r.error (fontFacts r))
  | "layerSet", false => do
    let o ← pLayerSet obj
    -- the new layer set is `font.instantiateLayerSet()` of a new font (a layer set without a font cannot hold glyphs)
    let r := LayerSet.deser (o.ser wl bl) { parent := true, observed := false, disp := true, peekAt := look.2 }
    some (result r.err (layerSetFacts "layers" r ++ propFacts (r.propagation "layers" true)))
  | "layer", _ => do
    let o ← pLayer obj
    let cache : Option (List (Val × Val)) := if look.1 then some [] else none
    let r := Layer.deser (o.ser wl bl)
      (if inFont then { name := o.name, parent := true, observed := true, disp := true, ucache := cache, peekAt := look.2 }
       else { ucache := cache, peekAt := look.2 })
    some (result r.err (layerFacts "layer" r ++ propFacts (r.propagation "layer" inFont)))
  | "glyph", _ => do
    let o ← pGlyph obj
    let r := Glyph.deser (o.ser wl bl)
      (if inFont then { name := o.name, parent := true, observed := true, disp := true } else {})
    some (result r.reg.error (glyphAll "glyph" r ++ propFacts (r.propagation "glyph" inFont)))
  | "contour", false => do
    let o ← pPen obj
    let c : Contour := { ident := o.ident, points := o.points }
    let r := (Contour.deser false (c.ser wl bl) ({}, .ok [])).1
    some (okFacts ([("contour/pen", ePen r.toPen)] ++ wiring "contour" r.parent r.observed))
  | "component", false => do
    let o ← pComp obj
    let r := (Component.deser false (o.ser wl bl) ({}, .ok [])).1
    some (okFacts ([("component", SExp.list [.str r.base, .str r.transformation, .str r.ident])]
      ++ wiring "component" r.parent r.observed))
  | "anchor", false => do
    let o ← pDictObj obj
    let r := DictObj.deser (o.ser wl bl) {}
    some (okFacts (attrFacts "anchor" drvAnchorAttrs r.items ++ wiring "anchor" r.parent r.observed))
  | "guideline", false => do
    let o ← pDictObj obj
    let r := DictObj.deser (o.ser wl bl) {}
    some (okFacts (attrFacts "guideline" drvGuidelineAttrs r.items ++ wiring "guideline" r.parent r.observed))
  | "image", false => do
    let o ← pDictObj obj
    let r := Image.deser (o.ser wl bl) { items := imageDefaults }
    some (okFacts (attrFacts "image" drvImageAttrs r.items ++ wiring "image" r.parent r.observed))
  | "lib", false | "kerning", false | "groups", false => do
    let o ← pDictObj obj
    let r := DictObj.deser (o.ser wl bl) {}
    some (okFacts (itemFacts kind r.items))
  | "imageSet", false | "dataSet", false => do
    let o ← pDictObj obj
    let r := FileSet.deser (o.ser wl bl) {}
    some (okFacts (itemFacts kind r.items))
  | "info", false => do
    let o ← pDict obj
    let i : DictObj := { items := dictUpdate Info.fresh.items o }
    let r := Info.deser (Info.ser wl bl i) Info.fresh
    some (okFacts (itemFacts "info" (r.items.filter (fun kv => kv.2 ≠ pyNone))))
  | "features", false => do
    let o ← pVal obj
    let f : Features := { text := o }
    let r := Features.deser (f.ser wl bl) {}
    some (okFacts [("features", .str r.text)])
  | _, _ => none

def keysOf (kind : String) (obj : SExp) (wl bl : Option (List String)) : Option SExp :=
  match kind with
  | "font" => do some (keysOut ((← pFont obj).ser wl bl))
  | "layerSet" => do some (keysOut ((← pLayerSet obj).ser wl bl))
  | "layer" => do some (keysOut ((← pLayer obj).ser wl bl))
  | "glyph" => do some (keysOut ((← pGlyph obj).ser wl bl))
  | "contour" => do
    let o ← pPen obj
    some (keysOut (({ ident := o.ident, points := o.points } : Contour).ser wl bl))
  | "component" => do some (keysOut ((← pComp obj).ser wl bl))
  | "anchor" | "guideline" | "image" | "lib" | "kerning" | "groups" | "imageSet" | "dataSet" => do
    some (keysOut ((← pDictObj obj).ser wl bl))
  | "info" => do
    let i : DictObj := { items := dictUpdate Info.fresh.items (← pDict obj) }
    some (keysOut (Info.ser wl bl i))
  | "features" => do some (keysOut (({ text := (← pVal obj) } : Features).ser wl bl))
  | _ => none

def driverStep (s : Unit) (line : SExp) : Unit × SExp :=
  let r : Option SExp := match line with
    | .list [.atom "roundtrip", .atom kind, obj, wl, bl] => do
      roundtrip kind obj (← pKeys wl) (← pKeys bl) false
    | .list [.atom "roundtrip-in-font", .atom kind, obj, wl, bl] => do
      roundtrip kind obj (← pKeys wl) (← pKeys bl) true
    | .list [.atom "roundtrip", .atom kind, obj, wl, bl, look] => do
      roundtrip kind obj (← pKeys wl) (← pKeys bl) false (← pLook look)
    | .list [.atom "roundtrip-in-font", .atom kind, obj, wl, bl, look] => do
      roundtrip kind obj (← pKeys wl) (← pKeys bl) true (← pLook look)
    | .list [.atom "keys", .atom kind, obj, wl, bl] => do
      keysOf kind obj (← pKeys wl) (← pKeys bl)
    | _ => none
  (s, r.getD (.atom "bad-op"))

end Serial
end DefconModel
