/-
Driver glue for M-Sort: S-expression ⇄ `NameSort.sortGlyphNames`.  Not part of the proved core.

  (env (names (n uni? pseudo? cat0 cat1 scr0 scr1 blk0 blk1 close0? close1?) …)
       (font n …) (decomp (v d) …) (cmap (d name?) …))          → ok
  (sort (n …) ((type asc pseudo) …))                             → (ok n …) | (err <what>)

The look-up tables of `env` were tabulated by the harness from the real `UnicodeData`; a sort that
needs an entry the table does not have answers `(err missing-lookup)` — never a default.
-/
import DefconModel.Util.SExp
import DefconModel.NameSort
import DefconModel.Gen.SortTables

namespace DefconModel
namespace NameSort
open SExp

structure NameRow where
  uni : Option Nat
  pseudo : Option Nat
  cat0 : String
  cat1 : String
  scr0 : String
  scr1 : String
  blk0 : String
  blk1 : String
  close0 : Option Name
  close1 : Option Name

structure DState where
  rows : List (Name × NameRow) := []
  font : List Name := []
  decomp : List (Nat × Int) := []
  cmap : List (Int × Option Name) := []
  loaded : Bool := false

def missing : String := "\x00missing"

def DState.row (s : DState) (n : Name) : Option NameRow := AL.get? s.rows n

def DState.env (s : DState) : Env where
  unicodeFor n := (s.row n).bind (·.uni)
  pseudoUnicodeFor n := (s.row n).bind (·.pseudo)
  categoryFor n p := match s.row n with
    | none => missing
    | some r => if p then r.cat1 else r.cat0
  scriptFor n p := match s.row n with
    | none => missing
    | some r => if p then r.scr1 else r.scr0
  blockFor n p := match s.row n with
    | none => missing
    | some r => if p then r.blk1 else r.blk0
  closeRelativeFor n p := match s.row n with
    | none => none
    | some r => if p then r.close1 else r.close0
  inFont n := s.font.contains n
  decompBase v := (AL.get? s.decomp v).getD (-1)
  nameForUnicode d := (AL.get? s.cmap d).getD none

def parseRow : SExp → Option (Name × NameRow)
  | .list [n, u, p, c0, c1, s0, s1, b0, b1, r0, r1] => do
    some (← asStr? n, {
      uni := ← asOpt? asNat? u, pseudo := ← asOpt? asNat? p,
      cat0 := ← asStr? c0, cat1 := ← asStr? c1, scr0 := ← asStr? s0, scr1 := ← asStr? s1,
      blk0 := ← asStr? b0, blk1 := ← asStr? b1,
      close0 := ← asOpt? asStr? r0, close1 := ← asOpt? asStr? r1 })
  | _ => none

def parsePairNI : SExp → Option (Nat × Int)
  | .list [a, b] => do some (← asNat? a, ← asInt? b)
  | _ => none

def parsePairIN : SExp → Option (Int × Option Name)
  | .list [a, b] => do some (← asInt? a, ← asOpt? asStr? b)
  | _ => none

def parseDesc : SExp → Option (Desc SortType)
  | .list [.atom t, a, p] => do
    some { type := ← SortType.ofString t, ascending := ← asBool? a, pseudo := ← asBool? p }
  | _ => none

/-- every value whose decomposition the sort may ask for must be tabulated -/
def DState.covers (s : DState) (names : List Name) : Bool :=
  names.all (fun n =>
    match s.row n with
    | none => false
    | some r =>
      let ok (v : Option Nat) : Bool := match v with
        | none => true
        | some x => match AL.get? s.decomp x with
          | none => false
          | some d => (AL.get? s.cmap d).isSome
      ok r.uni && ok r.pseudo)

def driverStep (s : DState) (line : SExp) : DState × SExp :=
  match line with
  | .list [.atom "env", .list (.atom "names" :: rows), .list (.atom "font" :: font),
           .list (.atom "decomp" :: dec), .list (.atom "cmap" :: cm)] =>
    match rows.mapM parseRow, font.mapM asStr?, dec.mapM parsePairNI, cm.mapM parsePairIN with
    | some r, some f, some d, some c => ({ rows := r, font := f, decomp := d, cmap := c, loaded := true }, .atom "ok")
    | _, _, _, _ => (s, .atom "bad-op")
  | .list [.atom "sort", .list names, .list descs] =>
    match names.mapM asStr?, descs.mapM parseDesc with
    | some ns, some ds =>
      if !s.loaded || !s.covers ns then (s, err "missing-lookup")
      else (s, tagged "ok" ((sortGlyphNames s.env Gen.SortTables.tables ds ns).map .str))
    | _, _ => (s, .atom "bad-op")
  | _ => (s, .atom "bad-op")

end NameSort
end DefconModel
