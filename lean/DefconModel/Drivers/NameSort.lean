/-
Driver glue for M-Sort: S-expression ⇄ `NameSort.sortGlyphNames`.  Not part of the proved core.

  (env (names (n uni? pseudo? cat0 cat1 scr0 scr1 blk0 blk1 close0? close1?) …)
       (font n …) (decomp (v d) …) (cmap (d name?) …))          → ok
  (sort (n …) ((type asc pseudo) …))                             → (ok n …) | (err <what>)

The look-up tables of `env` were tabulated by the harness from the real `UnicodeData`; a sort that
needs an entry the table does not have answers `(err missing-lookup)` — never a default.

Since round 3 the harness sends the WORLD instead and the model derives the look-ups itself (M-Lookups,
`NameLookups.envOf`), with the open/close tables regenerated from the code (`Gen/OpenClose.lean`):

  (world (names n …) (unicodes (n u …) …) (cmap (u n …) …)
         (db (v category script block compat (part …)) …))       → ok
  (look n …)      → (rows (row uni? pseudo? cat0 cat1 scr0 scr1 blk0 blk1 close0? close1? open0? open1? base0 base1 infont) …)
  (forced n)      → (ok v) | (err RecursionError)          -- forcedUnicodeForGlyphName: may allocate
  (byforced v)    → (ok name?) | (err IndexError)          -- glyphNameForForcedUnicode
  (state)         → (state (cmap (u n …) …) (forced (n v) …) (codes (v n) …))

A call that needs a fact of the Unicode database about a code point the `db` table has no row for answers
`(err missing-lookup)`.  The old `(env …)` line is still understood.
-/
import DefconModel.Util.SExp
import DefconModel.NameSort
import DefconModel.NameLookups
import DefconModel.Gen.SortTables
import DefconModel.Gen.OpenClose

namespace DefconModel
namespace NameSort
open SExp

structure NameRow where
  uni : Option Nat
  pseudo : Option Nat
  cat0 : String
  cat1 : String
  scr0 : String
  scr1 : String
  blk0 : String
  blk1 : String
  close0 : Option Name
  close1 : Option Name

structure DState where
  rows : List (Name × NameRow) := []
  font : List Name := []
  decomp : List (Nat × Int) := []
  cmap : List (Int × Option Name) := []
  loaded : Bool := false
  /-- round 3: the font, its cmap and forced tables … -/
  world : Option NameLookups.UData := none
  /-- … and the rows of the Unicode database the harness sent -/
  db : List NameLookups.DBRow := []

def missing : String := "\x00missing"

def DState.row (s : DState) (n : Name) : Option NameRow := AL.get? s.rows n

def DState.env (s : DState) : Env where
  unicodeFor n := (s.row n).bind (·.uni)
  pseudoUnicodeFor n := (s.row n).bind (·.pseudo)
  categoryFor n p := match s.row n with
    | none => missing
    | some r => if p then r.cat1 else r.cat0
  scriptFor n p := match s.row n with
    | none => missing
    | some r => if p then r.scr1 else r.scr0
  blockFor n p := match s.row n with
    | none => missing
    | some r => if p then r.blk1 else r.blk0
  closeRelativeFor n p := match s.row n with
    | none => none
    | some r => if p then r.close1 else r.close0
  inFont n := s.font.contains n
  decompBase v := (AL.get? s.decomp v).getD (-1)
  nameForUnicode d := (AL.get? s.cmap d).getD none

def parseRow : SExp → Option (Name × NameRow)
  | .list [n, u, p, c0, c1, s0, s1, b0, b1, r0, r1] => do
    some (← asStr? n, {
      uni := ← asOpt? asNat? u, pseudo := ← asOpt? asNat? p,
      cat0 := ← asStr? c0, cat1 := ← asStr? c1, scr0 := ← asStr? s0, scr1 := ← asStr? s1,
      blk0 := ← asStr? b0, blk1 := ← asStr? b1,
      close0 := ← asOpt? asStr? r0, close1 := ← asOpt? asStr? r1 })
  | _ => none

def parsePairNI : SExp → Option (Nat × Int)
  | .list [a, b] => do some (← asNat? a, ← asInt? b)
  | _ => none

def parsePairIN : SExp → Option (Int × Option Name)
  | .list [a, b] => do some (← asInt? a, ← asOpt? asStr? b)
  | _ => none

def parseDesc : SExp → Option (Desc SortType)
  | .list [.atom t, a, p] => do
    some { type := ← SortType.ofString t, ascending := ← asBool? a, pseudo := ← asBool? p }
  | _ => none

/-- every value whose decomposition the sort may ask for must be tabulated -/
def DState.covers (s : DState) (names : List Name) : Bool :=
  names.all (fun n =>
    match s.row n with
    | none => false
    | some r =>
      let ok (v : Option Nat) : Bool := match v with
        | none => true
        | some x => match AL.get? s.decomp x with
          | none => false
          | some d => (AL.get? s.cmap d).isSome
      ok r.uni && ok r.pseudo)

/-! ### round 3: the world, look-ups derived by the model -/

open NameLookups in
def DState.uniDB (s : DState) : UniDB := tableDB s.db Gen.OpenClose.openToClose Gen.OpenClose.closeToOpen

open NameLookups in
/-- the code points whose decomposition `unicodeTools.decompositionBase v` may read -/
def decompClosure (db : UniDB) : Nat → Nat → List Nat
  | 0, v => [v]
  | fuel + 1, v => v :: (db.decomposition v).parts.flatMap (decompClosure db fuel)

open NameLookups in
/-- every code point a look-up / sort over `names` asks the Unicode database about has a row -/
def worldCovers (s : DState) (w : UData) (names : List Name) : Bool :=
  names.all (fun n =>
    [unicodeFor w n, pseudoUnicodeFor w n].all (fun v =>
      match v with
      | none => true
      | some x => (decompClosure s.uniDB decompFuel x).all (fun c => (rowOf s.db c).isSome)))

def parseNameCodes : SExp → Option (Name × List Nat)
  | .list (n :: us) => do some (← asStr? n, ← us.mapM asNat?)
  | _ => none

def parseCodeNames : SExp → Option (Nat × List Name)
  | .list (u :: ns) => do some (← asNat? u, ← ns.mapM asStr?)
  | _ => none

def parseDBRow : SExp → Option NameLookups.DBRow
  | .list [v, c, sc, b, compat, .list parts] => do
    some { cp := ← asNat? v, cat := ← asStr? c, script := ← asStr? sc, block := ← asStr? b,
           decomp := { compat := ← asBool? compat, parts := ← parts.mapM asNat? } }
  | _ => none

def ofResName : NameLookups.Res Name → SExp
  | .ok n => .str n
  | .raised e => err e

open NameLookups in
def lookRow (db : UniDB) (w : UData) (n : Name) : SExp :=
  tagged "row" [
    ofOpt ofNat (unicodeFor w n), ofOpt ofNat (pseudoUnicodeFor w n),
    .str (categoryFor db w n false), .str (categoryFor db w n true),
    .str (scriptFor db w n false), .str (scriptFor db w n true),
    .str (blockFor db w n false), .str (blockFor db w n true),
    ofOpt .str (closeRelativeFor db w n false), ofOpt .str (closeRelativeFor db w n true),
    ofOpt .str (openRelativeFor db w n false), ofOpt .str (openRelativeFor db w n true),
    ofResName (decompositionBaseFor db w n false), ofResName (decompositionBaseFor db w n true),
    ofBool (inFont w n)]

open NameLookups in
def worldStep (s : DState) (w : UData) (line : SExp) : DState × SExp :=
  match line with
  | .list [.atom "sort", .list names, .list descs] =>
    match names.mapM asStr?, descs.mapM parseDesc with
    | some ns, some ds =>
      if !worldCovers s w ns then (s, err "missing-lookup")
      else (s, tagged "ok" ((sortFont s.uniDB w Gen.SortTables.tables ds ns).map .str))
    | _, _ => (s, .atom "bad-op")
  | .list (.atom "look" :: names) =>
    match names.mapM asStr? with
    | some ns =>
      if !worldCovers s w ns then (s, err "missing-lookup") else (s, tagged "rows" (ns.map (lookRow s.uniDB w)))
    | none => (s, .atom "bad-op")
  | .list [.atom "forced", .str n] =>
    match ask s.uniDB w (.forcedUnicode n) with
    | (w', .code (some v)) => ({ s with world := some w' }, tagged "ok" [ofNat v])
    | (w', .raised e) => ({ s with world := some w' }, err e)
    | _ => (s, .atom "bad-op")
  | .list [.atom "byforced", v] =>
    match asNat? v with
    | some v =>
      match nameForForced w v with
      | .ok r => (s, tagged "ok" [ofOpt .str r])
      | .raised e => (s, err e)
    | none => (s, .atom "bad-op")
  | .list [.atom "state"] =>
    (s, tagged "state" [
      tagged "cmap" (w.cmap.map (fun p => .list (ofNat p.1 :: p.2.map .str))),
      tagged "forced" (w.forcedByName.map (fun p => .list [.str p.1, ofNat p.2])),
      tagged "codes" (w.forcedByCode.map (fun p => .list [ofNat p.1, .str p.2]))])
  | _ => (s, .atom "bad-op")

def driverStep (s : DState) (line : SExp) : DState × SExp :=
  match line with
  | .list [.atom "world", .list (.atom "names" :: names), .list (.atom "unicodes" :: unis),
           .list (.atom "cmap" :: cm), .list (.atom "db" :: rows)] =>
    match names.mapM asStr?, unis.mapM parseNameCodes, cm.mapM parseCodeNames, rows.mapM parseDBRow with
    | some ns, some us, some c, some d =>
      ({ world := some { names := ns, unicodes := us, cmap := c }, db := d }, .atom "ok")
    | _, _, _, _ => (s, .atom "bad-op")
  | .list [.atom "env", .list (.atom "names" :: rows), .list (.atom "font" :: font),
           .list (.atom "decomp" :: dec), .list (.atom "cmap" :: cm)] =>
    match rows.mapM parseRow, font.mapM asStr?, dec.mapM parsePairNI, cm.mapM parsePairIN with
    | some r, some f, some d, some c => ({ rows := r, font := f, decomp := d, cmap := c, loaded := true }, .atom "ok")
    | _, _, _, _ => (s, .atom "bad-op")
  | .list [.atom "sort", .list names, .list descs] =>
    match s.world with
    | some w => worldStep s w line
    | none =>
      match names.mapM asStr?, descs.mapM parseDesc with
      | some ns, some ds =>
        if !s.loaded || !s.covers ns then (s, err "missing-lookup")
        else (s, tagged "ok" ((sortGlyphNames s.env Gen.SortTables.tables ds ns).map .str))
      | _, _ => (s, .atom "bad-op")
  | _ =>
    match s.world with
    | some w => worldStep s w line
    | none => (s, .atom "bad-op")

end NameSort
end DefconModel
