/-
Driver glue for M-SaveSteps: prints the plan of a save so that the harness can compare it with the
sequence of mutating calls the real `Font.save` makes; prints the order of the steps inside one layer's save; and
predicts what a retry after a failure inside one layer's in-place save persists.  Not part of the proved core.
-/
import DefconModel.Util.SExp
import DefconModel.SaveSteps

namespace DefconModel
namespace SaveSteps
open SExp

def encStep : Step → SExp
  | .mkTemp => .atom "mkTemp"
  | .writeComp i => .list [.atom "comp", ofNat i]
  | .openGlyphSet => .atom "open"
  | .writeGlyph _ => .atom "glyph"
  | .deleteGlyph _ => .atom "delete"
  | .writeContents => .atom "contents"
  | .writeLayerInfo => .atom "layerinfo"
  | .moveAside _ => .atom "aside"
  | .moveTemp _ => .atom "move"
  | .dropAside => .atom "drop"

/-- the steps inside one layer's save, with the glyphs they concern -/
def encLayerStep : Step → SExp
  | .writeGlyph g => .list [.atom "glyph", ofNat g]
  | .deleteGlyph g => .list [.atom "delete", ofNat g]
  | s => encStep s

/-- steps of the whole-save plan that the first comparison (one line per save, glyph sets of all layers merged) does
not show: the deletions and the layer info are compared layer by layer (`layer`) -/
def inMergedPlan : Step → Bool
  | .dropAside => false
  | .deleteGlyph _ => false
  | .writeLayerInfo => false
  | _ => true

/-- one layer of a font opened from a UFO: `listed` = glyphs in contents.plist (blob 100+g on disk), `mem` = the layer's
glyphs (the dirty ones with a blob of their own), `sched` = pending deletions -/
def layerWorld (listed mem dirty sched bad : List Nat) (badInfo : Bool) : World :=
  { font := { comps := [], compDirty := [], glyphs := mem.map (fun g => (g, if g ∈ dirty then 200 + g else 100 + g)),
              glyphDirty := dirty, path := 1, format := 3, dirty := true, scheduled := sched, layerInfo := 1,
              badGlyphs := bad, badLayerInfo := badInfo },
    disk := [(1, { comps := [], files := listed.map (fun g => (g, 100 + g)), listing := listed })] }

def ownUfo (w : World) : Ufo := (lookup w.disk w.font.path).getD {}

def onDisk (u : Ufo) (g : Nat) : Option Nat :=
  if g ∈ u.listing then (u.files.find? (fun x => x.1 = g)).map Prod.snd else none

def inMemory (f : Font) (g : Nat) : Option Nat := (f.glyphs.find? (fun x => x.1 = g)).map Prod.snd

/-- what a reader of the UFO misses / finds too much, compared with memory, over the glyph ids `univ` -/
def verdict (w : World) (ok : Bool) (univ : List Nat) : SExp :=
  if !ok then .list [.atom "raises"] else
  let u := ownUfo w
  let missing := univ.filter (fun g => (inMemory w.font g).isSome && onDisk u g != inMemory w.font g)
  let extra := univ.filter (fun g => (inMemory w.font g).isNone && (onDisk u g).isSome)
  let info := if u.layerinfo = w.font.layerInfo then [] else [SExp.atom "layerinfo"]
  if missing.isEmpty && extra.isEmpty && info.isEmpty then .list [.atom "ok"]
  else .list ([.atom "lost", .list (missing.map ofNat), .list (extra.map ofNat)] ++ info)

def nats (x : SExp) : Option (List Nat) := asListOf? asNat? x

def driverStep (u : Unit) (line : SExp) : Unit × SExp :=
  match line with
  | .list [.atom "plan", .atom mode, flags, nglyphs, dirty] =>
    match asListOf? asBool? flags, asNat? nglyphs, asListOf? asNat? dirty with
    | some fl, some n, some d =>
      let f : Font := { comps := fl.map (fun _ => 1), compDirty := fl, glyphs := (List.range n).map (fun i => (i, i)),
                        glyphDirty := d, path := 1, format := 3, dirty := true }
      let m : Mode := if mode = "inplace" then .inPlace else if mode = "new" then .saveAsNew 2 else .saveAsOver 2
      -- dropping what was put aside removes a temporary directory, ignoring errors: not a mutating call the
      -- harness can see fail, so it is not part of the compared plan
      (u, .list (((plan f m).filter inMergedPlan).map encStep))
    | _, _, _ => (u, .atom "bad-op")
  | .list [.atom "layer", .atom mode, listed, mem, dirty, sched] =>
    -- the order of the steps inside one layer's save
    match nats listed, nats mem, nats dirty, nats sched with
    | some li, some me, some di, some sc =>
      let w := layerWorld li me di sc [] false
      let m : Mode := if mode = "inplace" then .inPlace else .saveAsNew 2
      (u, .list (((plan w.font m).filter (· ≠ .openGlyphSet)).map encLayerStep))
    | _, _, _, _ => (u, .atom "bad-op")
  | .list [.atom "retry", listed, mem, dirty, sched, .atom kind, arg] =>
    -- an in-place save of one layer fails; (the content is corrected;) the save is repeated; what does the UFO show?
    match nats listed, nats mem, nats dirty, nats sched, asNat? arg with
    | some li, some me, some di, some sc, some a =>
      let univ := (li ++ me ++ sc).eraseDups
      if kind = "env" then
        -- the environment fails at step `a` of the layer (0 = the first glyph write; the opening is step 0 of the plan)
        let w := layerWorld li me di sc [] false
        let r := attempt .inPlace (failAt .inPlace w (a + 1))
        (u, verdict r.1 r.2 univ)
      else if kind = "glyph" then
        -- glyph `a` cannot be written; after the failure it is given writable content
        let w := layerWorld li me di sc [a] false
        let r1 := attempt .inPlace w
        if r1.2 then (u, .list [.atom "no-failure"]) else
        let r := attempt .inPlace (edits r1.1 [.setGlyph a (300 + a)])
        (u, verdict r.1 r.2 univ)
      else if kind = "layerinfo" then
        let w := layerWorld li me di sc [] true
        let r1 := attempt .inPlace w
        if r1.2 then (u, .list [.atom "no-failure"]) else
        let r := attempt .inPlace (edits r1.1 [.setLayerInfo 2])
        (u, verdict r.1 r.2 univ)
      else (u, .atom "bad-op")
    | _, _, _, _, _ => (u, .atom "bad-op")
  | _ => (u, .atom "bad-op")

end SaveSteps
end DefconModel
