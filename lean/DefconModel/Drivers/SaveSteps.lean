/-
Driver glue for M-SaveSteps: prints the plan of a save so that the harness can compare it with the
sequence of mutating calls the real `Font.save` makes.  Not part of the proved core.
-/
import DefconModel.Util.SExp
import DefconModel.SaveSteps

namespace DefconModel
namespace SaveSteps
open SExp

def encStep : Step → SExp
  | .mkTemp => .atom "mkTemp"
  | .writeComp i => .list [.atom "comp", ofNat i]
  | .openGlyphSet => .atom "open"
  | .writeGlyph _ => .atom "glyph"
  | .writeContents => .atom "contents"
  | .moveAside _ => .atom "aside"
  | .moveTemp _ => .atom "move"
  | .dropAside => .atom "drop"

def driverStep (u : Unit) (line : SExp) : Unit × SExp :=
  match line with
  | .list [.atom "plan", .atom mode, flags, nglyphs, dirty] =>
    match asListOf? asBool? flags, asNat? nglyphs, asListOf? asNat? dirty with
    | some fl, some n, some d =>
      let f : Font := { comps := fl.map (fun _ => 1), compDirty := fl, glyphs := (List.range n).map (fun i => (i, i)),
                        glyphDirty := d, path := 1, format := 3, dirty := true }
      let m : Mode := if mode = "inplace" then .inPlace else if mode = "new" then .saveAsNew 2 else .saveAsOver 2
      -- dropping what was put aside removes a temporary directory, ignoring errors: not a mutating call the
      -- harness can see fail, so it is not part of the compared plan
      (u, .list (((plan f m).filter (· ≠ .dropAside)).map encStep))
    | _, _, _ => (u, .atom "bad-op")
  | _ => (u, .atom "bad-op")

end SaveSteps
end DefconModel
