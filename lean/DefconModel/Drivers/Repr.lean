/-
Driver glue for M-Repr: S-expression ⇄ `Repr.Op` / results.  Not part of the proved core.
Values never cross the protocol (the driver instantiates `V := Unit`): per line the driver
answers the results of the operations (for requests: how many factory invocations they caused),
the cached keys of every object of both layers, whether the state is inside the structural domain `Dom` of
the theorems (`domCheck`), and the verdict on the content cells the adaptor saw change (`cellVerdict`).

A line is `(seq item …)`; an item is a primitive of `Repr.Op`, a public call
`(call obj meth eff|same [(delta dx dy) | (base b)])`, `(hold obj)` / `(release obj)` / `(disable obj)` /
`(enable obj)`, any of these wrapped as `(l1 item)` for the second layer, or `(obs (obj cell) …)` - the cells whose
fingerprint changed on the real objects during the line.
-/
import DefconModel.Util.SExp
import DefconModel.Repr
import DefconModel.Gen.ReprTables
import DefconModel.Lemmas.ReprDom
import DefconModel.ReprLayers

namespace DefconModel
namespace Repr
open SExp

def parseObj : SExp → Option Obj
  | .list [.atom "contour", n] => do some (.contour (← asNat? n))
  | .list [.atom "comp", n] => do some (.comp (← asNat? n))
  | .list [.atom "glyph", n] => do some (.glyph (← asStr? n))
  | .atom "groups" => some .groups
  | _ => none

def parseKw : SExp → Option KwArgs
  | .list xs => xs.mapM fun
    | .list [k, v] => do some ((← asStr? k), (← asInt? v))
    | _ => none
  | _ => none

def optStr? := asOpt? asStr?

def parseOp : SExp → Option Op
  | .list [.atom "register", c, n] => do some (.register (← asStr? c) (← asStr? n))
  | .list [.atom "get", o, n, kw] => do some (.get (← parseObj o) (← asStr? n) (← parseKw kw))
  | .list [.atom "has", o, n, kw] => do some (.has (← parseObj o) (← asStr? n) (← parseKw kw))
  | .list [.atom "keys", o] => do some (.keys (← parseObj o))
  | .list [.atom "destroy", o, n, kw] => do some (.destroy (← parseObj o) (← asStr? n) (← parseKw kw))
  | .list [.atom "destroyAll", o] => do some (.destroyAll (← parseObj o))
  | .list [.atom "mkContour", c] => do some (.mkContour (← asNat? c))
  | .list [.atom "mkComp", k, b] => do some (.mkComp (← asNat? k) (← optStr? b))
  | .list [.atom "cmut", c, m] => do some (.cmut (← asNat? c) (← asStr? m))
  | .list [.atom "cmove", c, dx, dy] => do some (.cmove (← asNat? c) (← asInt? dx) (← asInt? dy))
  | .list [.atom "kmut", k, m] => do some (.kmut (← asNat? k) (← asStr? m))
  | .list [.atom "ksetBase", k, b] => do some (.ksetBase (← asNat? k) (← optStr? b))
  | .list [.atom "gmut", g, m] => do some (.gmut (← asStr? g) (← asStr? m))
  | .list [.atom "insContour", g, c, i] => do some (.insContour (← asStr? g) (← asNat? c) (← asNat? i))
  | .list [.atom "remContour", g, c] => do some (.remContour (← asStr? g) (← asNat? c))
  | .list [.atom "insComp", g, k, i] => do some (.insComp (← asStr? g) (← asNat? k) (← asNat? i))
  | .list [.atom "remComp", g, k] => do some (.remComp (← asStr? g) (← asNat? k))
  | .list [.atom "newGlyph", n] => do some (.newGlyph (← asStr? n))
  | .list [.atom "delGlyph", n] => do some (.delGlyph (← asStr? n))
  | .list [.atom "rename", g, n] => do some (.rename (← asStr? g) (← asStr? n))
  | .list [.atom "gset", m] => do some (.gset (← asStr? m))
  | .list [.atom "touch", o, m] => do some (.touch (← parseObj o) (← asStr? m))
  | _ => none

def encObj : Obj → SExp
  | .contour n => .list [.atom "contour", ofNat n]
  | .comp n => .list [.atom "comp", ofNat n]
  | .glyph n => .list [.atom "glyph", .str n]
  | .groups => .atom "groups"

def encSubKey (sk : SubKey) : SExp :=
  ofOpt (fun l => .list (l.map fun p => .list [.str p.1, ofInt p.2])) sk

def encKey (p : String × SubKey) : SExp := .list [.str p.1, encSubKey p.2]

def encRes : Res → SExp
  | .ok => .atom "ok"
  | .got n => .list [.atom "got", ofNat n]
  | .bool b => ofBool b
  | .keys l => tagged "set" (l.map encKey)
  | .err e => err e

def encDigest (w : World Unit) : SExp :=
  tagged "set" ((digest w).map fun p => .list [encObj p.1, tagged "set" (p.2.map encKey)])

def unitParams : Params Unit := { f := fun _ _ _ _ => (), patch := fun _ v _ _ => v }

inductive Item where
  | prim (op : Op)
  | hop (h : HOp)
  | call (c : Call)
deriving Inhabited

def parseArg : SExp → Option CallArg
  | .list [.atom "delta", dx, dy] => do some (.delta (← asInt? dx) (← asInt? dy))
  | .list [.atom "base", b] => do some (.base (← optStr? b))
  | _ => none

def parseEff : SExp → Option Bool
  | .atom "eff" => some true
  | .atom "same" => some false
  | _ => none

def parseItem : SExp → Option Item
  | .list [.atom "call", o, m, e] => do
    some (.call { recv := (← parseObj o), meth := (← asStr? m), eff := (← parseEff e) })
  | .list [.atom "call", o, m, e, a] => do
    some (.call { recv := (← parseObj o), meth := (← asStr? m), eff := (← parseEff e), arg := (← parseArg a) })
  | .list [.atom "hold", o] => do some (.hop (.hold (← parseObj o)))
  | .list [.atom "release", o] => do some (.hop (.release (← parseObj o)))
  | .list [.atom "disable", o] => do some (.hop (.disable (← parseObj o)))
  | .list [.atom "enable", o] => do some (.hop (.enable (← parseObj o)))
  | x => do some (.prim (← parseOp x))

def parseLItem : SExp → Option (Lay × Item)
  | .list [.atom "l1", x] => do some (.b, (← parseItem x))
  | x => do some (.a, (← parseItem x))

def parseCellRef : SExp → Option (Lay × Obj × Cell)
  | .list [.list [.atom "l1", o], c] => do some (.b, (← parseObj o), (← Cell.ofName? (← asStr? c)))
  | .list [o, c] => do some (.a, (← parseObj o), (← Cell.ofName? (← asStr? c)))
  | _ => none

def encLObj (l : Lay) (o : Obj) : SExp :=
  match l with
  | .a => encObj o
  | .b => .list [.atom "l1", encObj o]

def encDigestL (l : Lay) (w : World Unit) : List SExp :=
  (digest w).map fun p => .list [encLObj l p.1, tagged "set" (p.2.map encKey)]

def encDigestF (f : Font Unit) : SExp :=
  tagged "set" (encDigestL .a f.l0.w ++ encDigestL .b f.l1.w)

def encCellRef (l : Lay) (x : Obj × Cell) : SExp := .list [encLObj l x.1, .str x.2.name]

/-- the first error among the results of one item, else `ok` / the only result -/
def sumRes (rs : List Res) : Res :=
  match rs.find? (fun r => match r with | .err _ => true | _ => false) with
  | some e => e
  | none =>
    match rs with
    | [r] => r
    | _ => .ok

def runItem (f : Font Unit) (li : Lay × Item) : Font Unit × Res :=
  match li.2 with
  | .prim op => fstep unitParams Gen.ReprTables.tables f li.1 (.base op)
  | .hop h => fstep unitParams Gen.ReprTables.tables f li.1 h
  | .call c =>
    let r := fcall unitParams Gen.ReprTables.tables f li.1 c
    (r.1, sumRes r.2)

def mustOf (li : Lay × Item) : List (Lay × Obj × Cell) :=
  match li.2 with
  | .call c => (mustCells c).map fun x => (li.1, x.1, x.2)
  | _ => []

def splitObs (xs : List SExp) : List SExp × Option (List SExp) :=
  match xs.reverse with
  | .list (.atom "obs" :: cs) :: r => (r.reverse, some cs)
  | _ => (xs, none)

def driverStepF (f : Font Unit) (line : SExp) : Font Unit × SExp :=
  match line with
  | .list [.atom "skip"] => (f, .atom "skip")
  | .list (.atom "seq" :: xs0) =>
    let (xs, obs0) := splitObs xs0
    match xs.mapM parseLItem, (obs0.getD []).mapM parseCellRef with
    | some items, some obs =>
      let r := items.foldl (fun (acc : Font Unit × List SExp) it =>
        let s := runItem acc.1 it
        (s.1, acc.2 ++ [encRes s.2])) (f, [])
      let f' := r.1
      let must := items.flatMap mustOf
      let verdict (l : Lay) : List SExp × List SExp :=
        let ch := changedCells (f.get l).w (f'.get l).w
        let ob := (obs.filter fun x => x.1 = l).map fun x => x.2
        let mu := (must.filter fun x => x.1 = l).map fun x => x.2
        let v := cellVerdict ch ob mu
        (v.1.map (encCellRef l), v.2.map (encCellRef l))
      let va := verdict .a
      let vb := verdict .b
      let cells : SExp := match obs0 with
        | none => .atom "unobserved"
        | some _ => .list [.atom "cells", .list (va.1 ++ vb.1), .list (va.2 ++ vb.2)]
      (f', .list [.list r.2, encDigestF f', ofBool (domCheck f'.l0.w && domCheck f'.l1.w), cells])
    | _, _ => (f, .atom "bad-op")
  | _ =>
    match parseLItem line with
    | none => (f, .atom "bad-op")
    | some it =>
      let s := runItem f it
      (s.1, .list [.list [encRes s.2], encDigestF s.1, ofBool (domCheck s.1.l0.w && domCheck s.1.l1.w), .atom "unobserved"])

end Repr
end DefconModel
