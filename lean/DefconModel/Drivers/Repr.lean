/-
Driver glue for M-Repr: S-expression ⇄ `Repr.Op` / results.  Not part of the proved core.
Values never cross the protocol (the driver instantiates `V := Unit`): per line the driver
answers the results of the operations (for requests: how many factory invocations they caused),
the cached keys of every object, and whether the state is inside the structural domain `Dom` of the
theorems (`domCheck`).
-/
import DefconModel.Util.SExp
import DefconModel.Repr
import DefconModel.Gen.ReprTables
import DefconModel.Lemmas.ReprDom

namespace DefconModel
namespace Repr
open SExp

def parseObj : SExp → Option Obj
  | .list [.atom "contour", n] => do some (.contour (← asNat? n))
  | .list [.atom "comp", n] => do some (.comp (← asNat? n))
  | .list [.atom "glyph", n] => do some (.glyph (← asStr? n))
  | .atom "groups" => some .groups
  | _ => none

def parseKw : SExp → Option KwArgs
  | .list xs => xs.mapM fun
    | .list [k, v] => do some ((← asStr? k), (← asInt? v))
    | _ => none
  | _ => none

def optStr? := asOpt? asStr?

def parseOp : SExp → Option Op
  | .list [.atom "register", c, n] => do some (.register (← asStr? c) (← asStr? n))
  | .list [.atom "get", o, n, kw] => do some (.get (← parseObj o) (← asStr? n) (← parseKw kw))
  | .list [.atom "has", o, n, kw] => do some (.has (← parseObj o) (← asStr? n) (← parseKw kw))
  | .list [.atom "keys", o] => do some (.keys (← parseObj o))
  | .list [.atom "destroy", o, n, kw] => do some (.destroy (← parseObj o) (← asStr? n) (← parseKw kw))
  | .list [.atom "destroyAll", o] => do some (.destroyAll (← parseObj o))
  | .list [.atom "mkContour", c] => do some (.mkContour (← asNat? c))
  | .list [.atom "mkComp", k, b] => do some (.mkComp (← asNat? k) (← optStr? b))
  | .list [.atom "cmut", c, m] => do some (.cmut (← asNat? c) (← asStr? m))
  | .list [.atom "cmove", c, dx, dy] => do some (.cmove (← asNat? c) (← asInt? dx) (← asInt? dy))
  | .list [.atom "kmut", k, m] => do some (.kmut (← asNat? k) (← asStr? m))
  | .list [.atom "ksetBase", k, b] => do some (.ksetBase (← asNat? k) (← optStr? b))
  | .list [.atom "gmut", g, m] => do some (.gmut (← asStr? g) (← asStr? m))
  | .list [.atom "insContour", g, c, i] => do some (.insContour (← asStr? g) (← asNat? c) (← asNat? i))
  | .list [.atom "remContour", g, c] => do some (.remContour (← asStr? g) (← asNat? c))
  | .list [.atom "insComp", g, k, i] => do some (.insComp (← asStr? g) (← asNat? k) (← asNat? i))
  | .list [.atom "remComp", g, k] => do some (.remComp (← asStr? g) (← asNat? k))
  | .list [.atom "newGlyph", n] => do some (.newGlyph (← asStr? n))
  | .list [.atom "delGlyph", n] => do some (.delGlyph (← asStr? n))
  | .list [.atom "rename", g, n] => do some (.rename (← asStr? g) (← asStr? n))
  | .list [.atom "gset", m] => do some (.gset (← asStr? m))
  | _ => none

def encObj : Obj → SExp
  | .contour n => .list [.atom "contour", ofNat n]
  | .comp n => .list [.atom "comp", ofNat n]
  | .glyph n => .list [.atom "glyph", .str n]
  | .groups => .atom "groups"

def encSubKey (sk : SubKey) : SExp :=
  ofOpt (fun l => .list (l.map fun p => .list [.str p.1, ofInt p.2])) sk

def encKey (p : String × SubKey) : SExp := .list [.str p.1, encSubKey p.2]

def encRes : Res → SExp
  | .ok => .atom "ok"
  | .got n => .list [.atom "got", ofNat n]
  | .bool b => ofBool b
  | .keys l => tagged "set" (l.map encKey)
  | .err e => err e

def encDigest (w : World Unit) : SExp :=
  tagged "set" ((digest w).map fun p => .list [encObj p.1, tagged "set" (p.2.map encKey)])

def unitParams : Params Unit := { f := fun _ _ _ _ => (), patch := fun _ v _ _ => v }

def driverStep (w : World Unit) (line : SExp) : World Unit × SExp :=
  match line with
  | .list [.atom "skip"] => (w, .atom "skip")
  | .list (.atom "seq" :: xs) =>
    match xs.mapM parseOp with
    | none => (w, .atom "bad-op")
    | some ops =>
      let r := ops.foldl (fun (acc : World Unit × List SExp) op =>
        let s := step unitParams Gen.ReprTables.tables acc.1 op
        (s.1, acc.2 ++ [encRes s.2])) (w, [])
      (r.1, .list [.list r.2, encDigest r.1, ofBool (domCheck r.1)])
  | _ =>
    match parseOp line with
    | none => (w, .atom "bad-op")
    | some op =>
      let s := step unitParams Gen.ReprTables.tables w op
      (s.1, .list [.list [encRes s.2], encDigest s.1, ofBool (domCheck s.1)])

end Repr
end DefconModel
