/-
Driver glue for M-Cross: S-expression ⇄ `Cross.Op` / dumps.  Not part of the proved core.
The cross links that are dumped are the STORED ones (`Cross.OState`, changed at the events of the code).
The dump is M-Parents' dump with the COMPLETE registration table: the parent<-child and self
registrations, the cross links (`Cross.crossTable`) and the fixed registrations of every font's image set,
data set and info (objects the heap does not hold; they are built with the font — the info by the adaptor — and
never removed).
-/
import DefconModel.Util.SExp
import DefconModel.Cross
import DefconModel.Drivers.Parents

namespace DefconModel
namespace Cross
open SExp Parents

def xnameStr : XName → String
  | .glyphNameChanged => "Glyph_NameChanged" | .glyphContoursChanged => "Glyph_ContoursChanged"
  | .glyphComponentsChanged => "Glyph_ComponentsChanged"
  | .layerGlyphWillBeDeleted => "Layer_GlyphWillBeDeleted" | .layerGlyphAdded => "Layer_GlyphAdded"
  | .layerGlyphNameChanged => "Layer_GlyphNameChanged" | .layerGlyphDeleted => "Layer_GlyphDeleted"
  | .imageSetImageAdded => "ImageSet_ImageAdded" | .imageSetImageDeleted => "ImageSet_ImageDeleted"
  | .imageSetImageChanged => "ImageSet_ImageChanged" | .layerColorChanged => "Layer_ColorChanged"

def encObj : Obj → SExp
  | .node i => ofNat i
  | .imageSet f => tagged "imageSet" [ofNat f]

def fixedRows (h : Heap) : List SExp :=
  ((List.range h.next).filter fun i => h.kindOf i == some .font).flatMap fun f =>
    let is := tagged "imageSet" [ofNat f]
    let ds := tagged "dataSet" [ofNat f]
    let inf := tagged "info" [ofNat f]
    [.list [ofNat f, is, is, .atom "all"], .list [ofNat f, ofNat f, is, .atom "ImageSet_Changed"],
     .list [ofNat f, ds, ds, .atom "all"], .list [ofNat f, ofNat f, ds, .atom "DataSet_Changed"],
     .list [ofNat f, inf, inf, .atom "all"], .list [ofNat f, ofNat f, inf, .atom "Info_Changed"]]

def encDump (s : OState) : SExp :=
  let h := s.st.heap
  .list [.atom "dump", .list ((List.range h.next).map (encRow h)),
    tagged "regs" [setOf (
      (h.regs.map fun r => .list [ofNat r.centre, ofNat r.observer, ofNat r.observable, .atom (nnameStr r.name)]) ++
      ((storedTable s).map fun r => .list [ofNat r.centre, ofNat r.observer, encObj r.observable, .atom (xnameStr r.name)]) ++
      fixedRows h)]]

def parseXOp : SExp → Option Op
  | .list [.atom "new", .atom "component", b] => do some (.newComp (← asOpt? asStr? b))
  | .list [.atom "setBase", c, b] => do some (.setBase (← asNat? c) (← asOpt? asStr? b))
  | .list [.atom "getGlyph", l, n, spec, bases] => do
    some (.load (← asNat? l) (← asStr? n) (← asListOf? asNat? spec) (← asListOf? (asOpt? asStr?) bases))
  | .list [.atom "decompose", g, c] => do some (.decompose (← asNat? g) (← asNat? c))
  | e => (parseOp e).map .base

def encRes (s' : State) : Res → SExp
  | .ok => .atom "ok"
  | .id i => tagged "id" [ofNat i]
  | .err e => encErr e
  | .mut posted => tagged "mut" [dirtySet s'.heap, tagged "posted" [setOf (posted.eraseDups.map ofNat)]]

/-- `(check)`: the fields of `Wired` that fail, and `unsynced` when the stored wiring differs from `watchOf` -/
def checkAll (s : OState) : List String :=
  checkWired s.st.heap ++
    (if (List.range s.st.heap.next).all (fun c => s.watchAt c == watchOf s.st c) then [] else ["unsynced"])

def driverStep (s : OState) (line : SExp) : OState × SExp :=
  match line with
  | .list [.atom "check"] => (s, tagged "check" ((checkAll s).map .atom))
  | .list [.atom "mutate", x, .atom "nolog"] =>
    match asNat? x with
    | none => (s, .atom "bad-op")
    | some x =>
      match ostep s (.base (.mutate x)) with
      | (s', .mut _) => (s', tagged "mut" [dirtySet s'.st.heap])
      | (s', .err e) => (s', encErr e)
      | (s', _) => (s', .atom "bad-op")
  | _ =>
    match parseXOp line with
    | none => (s, .atom "bad-op")
    | some (.base .dump) => let s' := (ostep s (.base .dump)).1; (s', encDump s')
    | some (.base .clean) => let s' := (ostep s (.base .clean)).1; (s', tagged "mut" [dirtySet s'.st.heap])
    | some op => let r := ostep s op; (r.1, encRes r.1.st r.2)

end Cross
end DefconModel
