/-
Driver glue for M-Kern: S-expression ⇄ `Kern.Op` / `Kern.Out`.  Not part of the proved core.
-/
import DefconModel.Util.SExp
import DefconModel.Kern
import DefconModel.Gen.KernTables

namespace DefconModel
namespace Kern
open SExp

def strs? : SExp → Option (List String) := asListOf? asStr?

def group? : SExp → Option (String × List String)
  | .list [n, ms] => do some ((← asStr? n), (← strs? ms))
  | _ => none

def groups? : SExp → Option GroupsD := asListOf? group?

def kitem? : SExp → Option (Pair × Int)
  | .list [a, b, v] => do some (((← asStr? a), (← asStr? b)), (← asInt? v))
  | _ => none

def kerning? : SExp → Option KernD := asListOf? kitem?

def pair? : SExp → Option Pair
  | .list [a, b] => do some ((← asStr? a), (← asStr? b))
  | _ => none

def table? : SExp → Option Table
  | .atom "side1" => some .side1
  | .atom "side2" => some .side2
  | .atom "g2g1" => some .g2g1
  | .atom "g2g2" => some .g2g2
  | _ => none

def parseOp : SExp → Option Op
  | .list [.atom "gset", n, ms] => do some (.gset (← asStr? n) (← strs? ms))
  | .list [.atom "gdel", n] => do some (.gdel (← asStr? n))
  | .list [.atom "gclear"] => some .gclear
  | .list [.atom "gupdate", o] => do some (.gupdate (← groups? o))
  | .list [.atom "kset", a, b, v] => do some (.kset ((← asStr? a), (← asStr? b)) (← asInt? v))
  | .list [.atom "kdel", a, b] => do some (.kdel ((← asStr? a), (← asStr? b)))
  | .list [.atom "kclear"] => some .kclear
  | .list [.atom "kupdate", o] => do some (.kupdate (← kerning? o))
  | .list [.atom "find", a, b, d] => do some (.find ((← asStr? a), (← asStr? b)) (← asInt? d))
  | .list [.atom "findall", ps, d] => do some (.findAll (← asListOf? pair? ps) (← asInt? d))
  | .list [.atom "table", t] => do some (.table (← table? t))
  | .list [.atom "cached"] => some .cached
  | .list [.atom "gdump"] => some .gdump
  | .list [.atom "kdump"] => some .kdump
  | .list [.atom "open", g, k] => do some (.openUfo (← groups? g) (← kerning? k))
  | .list [.atom "extgroups", g] => do some (.extGroups (← groups? g))
  | .list [.atom "extkerning", k] => do some (.extKerning (← kerning? k))
  | .list [.atom "reloadgroups"] => some .reloadGroups
  | .list [.atom "reloadkerning"] => some .reloadKerning
  | _ => none

def encGroups (g : GroupsD) : SExp :=
  .list (g.map fun p => .list [.str p.1, .list (p.2.map .str)])

def encGroupsSet (g : GroupsD) : SExp :=
  tagged "set" (g.map fun p => .list [.str p.1, .list (p.2.map .str)])

/-- table read-outs are compared as sets of items (`(set …)` is sorted by the harness); the dumps of
the two dicts themselves keep their order -/
def encOut : Out → SExp
  | .ok => .atom "ok"
  | .int v => tagged "int" [ofInt v]
  | .ints l => tagged "ints" (l.map ofInt)
  | .groups g => tagged "groups" [encGroupsSet g]
  | .dump g => tagged "dump" [encGroups g]
  | .g2g t => tagged "g2g" [tagged "set" (t.map fun p => .list [.str p.1, .str p.2])]
  | .kern k => tagged "kern" [.list (k.map fun p => .list [.str p.1.1, .str p.1.2, ofInt p.2])]
  | .bools l => tagged "bools" (l.map ofBool)
  | .err e => err e

/-- the registration the source has now (all four tables carry the same one: obligation `gen_eviction_as_modelled`) -/
def currentReg : Destr :=
  match Gen.KernTables.groupsFactories with
  | e :: _ => e.2.2
  | [] => .coll []

def isGroupEdit : Op → Bool
  | .gset _ _ | .gdel _ | .gclear | .gupdate _ => true
  | _ => false

def driverStep (s : State) (line : SExp) : State × SExp :=
  match line with
  | .list [.atom "watch", opx, ps, d] =>
    -- a group edit of a LOADED font with a watcher looking `ps` up inside every callback of the edit
    match parseOp opx, asListOf? pair? ps, asInt? d with
    | some op, some pairs, some dv =>
      if isGroupEdit op && s.c.loaded then
        let r := stepWatched currentReg pairs dv s op
        (r.1, tagged "watched" [encOut r.2.1,
          .list (r.2.2.map fun e => .list [.str e.1, .list (e.2.map ofInt)])])
      else (s, .atom "bad-op")
    | _, _, _ => (s, .atom "bad-op")
  | _ =>
  match parseOp line with
  | none => (s, .atom "bad-op")
  | some op =>
    let r := step s op
    (r.1, encOut r.2)

end Kern
end DefconModel
