/-
Driver glue for M-Layer / M-Layers.  Not part of the proved core.

One font = named layers + the name of the default layer.  `(init disk)` opens a font with one layer (C07's
cases); `(initf default ((name disk) …))` opens several.  An operation line is either a plain M-Layer
operation — it goes through the Font API, i.e. to the default layer — or `(on L op)`.  Every answer carries
the snapshot of the layer the line addressed.
-/
import DefconModel.Util.SExp
import DefconModel.Layers

namespace DefconModel
namespace Layer
open SExp

structure DState where
  fs : Layers.FState := { layers := [("", {})], default := "" }
  maskOutlines : Bool := false

def parseRec : SExp → Option GRec
  | .list [us, cs, img, ol, ofast] => do
    some { unicodes := (← asListOf? asNat? us), comps := (← asListOf? asStr? cs),
           image := (← asOpt? asStr? img), outlineLoaded := (← asBool? ol), outlineFast := (← asBool? ofast) }
  | _ => none

def parseOp : SExp → Option Op
  | .list [.atom "get", n] => do some (.get (← asStr? n))
  | .list [.atom "new", n] => do some (.new (← asStr? n))
  | .list [.atom "insert", n, r] => do some (.insert (← asStr? n) (← parseRec r))
  | .list [.atom "delete", n] => do some (.delete (← asStr? n))
  | .list [.atom "rename", o, n] => do some (.rename (← asStr? o) (← asStr? n))
  | .list [.atom "setUnicodes", n, us] => do some (.setUnicodes (← asStr? n) (← asListOf? asNat? us))
  | .list [.atom "setUnicode", n, v] => do some (.setUnicode (← asStr? n) (← asOpt? asNat? v))
  | .list [.atom "reload", n, r] => do some (.reload (← asStr? n) (← parseRec r))
  | .list [.atom "edit", n, cs, img, ol, ofast] => do
    some (.edit (← asStr? n) (← asListOf? asStr? cs) (← asOpt? asStr? img) (← asBool? ol) (← asBool? ofast))
  | .list [.atom "save"] => some .save
  | .list [.atom "touchUni"] => some .touchUni
  | .list [.atom "touch", n] => do some (.touch (← asStr? n))
  | _ => none

def setOf (xs : List SExp) : SExp := tagged "set" xs

def encPairs (ps : List (String × String)) : SExp :=
  setOf (ps.eraseDups.map fun p => .list [.str p.1, .str p.2])

def snapshotOf (mask : Bool) (s : State) : List SExp :=
  [ tagged "keys" [setOf ((visible s).map .str)],
    tagged "comps" [encPairs (componentReferences s)],
    tagged "images" [encPairs (imageReferences s)],
    tagged "outlines" [if mask then .atom "masked" else setOf ((glyphsWithOutlines s).eraseDups.map .str)],
    -- names under one code point as a MULTISET (the protocol's `set` only sorts): a name listed twice shows
    tagged "uni" [match s.uni with
      | none => .atom "none"
      | some m => setOf (m.map fun p => .list [ofNat p.1, setOf (p.2.map .str)])] ]

def snapshot (d : DState) (l : String) : List SExp :=
  match AL.get? d.fs.layers l with
  | some s => snapshotOf d.maskOutlines s
  | none => [.atom "no-such-layer"]

def parseDisk (gs : List SExp) : Option (List (String × GRec)) :=
  gs.mapM (fun g => match g with
    | .list [n, r] => do some ((← asStr? n), (← parseRec r))
    | _ => none)

/-- all-or-nothing execution of several model operations on layer `l` -/
def seqOn (d : DState) (l : String) (ops : List Op) : Option DState :=
  match AL.get? d.fs.layers l with
  | none => none
  | some s0 =>
    match ops.foldlM (fun s op => match step s op with | .ok s' => some s' | .error _ => none) s0 with
    | some s' => some { d with fs := { d.fs with layers := AL.set d.fs.layers l s' } }
    | none => none

/-- one line addressed to layer `l` (`viaFont`: through the Font API; the model is the same, the layer is the
default one) -/
def lineOn (d : DState) (l : String) (line : SExp) : DState × SExp :=
  match AL.get? d.fs.layers l with
  | none => (d, .atom "bad-op")
  | some s =>
    match line with
    | .list (.atom "seq" :: lines) =>
      match lines.mapM parseOp with
      | none => (d, .atom "bad-op")
      | some ops =>
        match seqOn d l ops with
        | some d' => (d', .list (.atom "ok" :: snapshot d' l))
        | none => (d, .list (err "KeyError" :: snapshot d l))
    | .list [.atom "fwd", n] =>
      match asStr? n with
      | none => (d, .atom "bad-op")
      | some n =>
        let v := Layers.fwdOn (Layers.stepOn d.fs l .touchUni) l n
        let d' := { d with fs := Layers.step d.fs (.fwdOn l n) }
        (d', .list (.list [.atom "ok", ofOpt ofNat v] :: snapshot d' l))
    | .list [.atom "pseudo", n] =>
      match asStr? n with
      | none => (d, .atom "bad-op")
      | some n =>
        let v := Layers.pseudoOn (Layers.stepOn d.fs l .touchUni) l n
        let d' := { d with fs := Layers.step d.fs (.pseudoOn l n) }
        (d', .list (.list [.atom "ok", ofOpt ofNat v] :: snapshot d' l))
    | .list [.atom "rev", c] =>
      match asNat? c with
      | none => (d, .atom "bad-op")
      | some c =>
        let d' := { d with fs := Layers.stepOn d.fs l .touchUni }
        let m := ((AL.get? d'.fs.layers l).bind (·.uni)).getD []
        let ans := match glyphNameForUnicode m c with
          | none => SExp.atom "none"
          | some _ => SExp.atom "member"
        (d', .list (.list [.atom "ok", ofBool (hasCode m c), ans] :: snapshot d' l))
    | _ =>
      match parseOp line with
      | none => (d, .atom "bad-op")
      | some op =>
        match step s op with
        | .ok s' =>
          let d' := { d with fs := { d.fs with layers := AL.set d.fs.layers l s' } }
          (d', .list (.atom "ok" :: snapshot d' l))
        | .error .keyError => (d, .list (err "KeyError" :: snapshot d l))

def driverStep (d : DState) (line : SExp) : DState × SExp :=
  match line with
  | .list [.atom "init", .list gs] =>
    match parseDisk gs with
    | none => (d, .atom "bad-op")
    | some disk =>
      let d' := { d with fs := Layers.opened [("", disk)] "" }
      (d', .list (.atom "ok" :: snapshot d' ""))
  | .list [.atom "initf", dflt, .list ls] =>
    match asStr? dflt, ls.mapM (fun l => match l with
        | .list [n, .list gs] => do some ((← asStr? n), (← parseDisk gs))
        | _ => none) with
    | some dn, some layers =>
      let d' := { d with fs := Layers.opened layers dn }
      (d', .list (.atom "ok" :: snapshot d' dn))
    | _, _ => (d, .atom "bad-op")
  | .list [.atom "mask", .atom "outlines"] => ({ d with maskOutlines := true }, .atom "ok")
  | .list [.atom "on", l, inner] =>
    match asStr? l with
    | none => (d, .atom "bad-op")
    | some l => lineOn d l inner
  | .list [.atom "setDefault", l] =>
    match asStr? l with
    | none => (d, .atom "bad-op")
    | some l =>
      if AL.contains d.fs.layers l then
        let d' := { d with fs := Layers.step d.fs (.setDefault l) }
        (d', .list (.atom "ok" :: snapshot d' l))
      else (d, .atom "bad-op")
  | .list [.atom "newLayer", l] =>
    match asStr? l with
    | none => (d, .atom "bad-op")
    | some l =>
      if AL.contains d.fs.layers l then (d, .atom "bad-op")
      else
        let d' := { d with fs := Layers.step d.fs (.newLayer l) }
        (d', .list (.atom "ok" :: snapshot d' l))
  | .list [.atom "save"] =>
    let d' := { d with fs := Layers.step d.fs .save }
    (d', .list (.atom "ok" :: snapshot d' d'.fs.default))
  | _ => lineOn d d.fs.default line

end Layer
end DefconModel
