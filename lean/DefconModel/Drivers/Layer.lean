/-
Driver glue for M-Layer.  Not part of the proved core.
-/
import DefconModel.Util.SExp
import DefconModel.Layer

namespace DefconModel
namespace Layer
open SExp

structure DState where
  s : State := {}
  maskOutlines : Bool := false

def parseRec : SExp → Option GRec
  | .list [us, cs, img, ol, ofast] => do
    some { unicodes := (← asListOf? asNat? us), comps := (← asListOf? asStr? cs),
           image := (← asOpt? asStr? img), outlineLoaded := (← asBool? ol), outlineFast := (← asBool? ofast) }
  | _ => none

def parseOp : SExp → Option Op
  | .list [.atom "get", n] => do some (.get (← asStr? n))
  | .list [.atom "new", n] => do some (.new (← asStr? n))
  | .list [.atom "insert", n, r] => do some (.insert (← asStr? n) (← parseRec r))
  | .list [.atom "delete", n] => do some (.delete (← asStr? n))
  | .list [.atom "rename", o, n] => do some (.rename (← asStr? o) (← asStr? n))
  | .list [.atom "setUnicodes", n, us] => do some (.setUnicodes (← asStr? n) (← asListOf? asNat? us))
  | .list [.atom "edit", n, cs, img, ol, ofast] => do
    some (.edit (← asStr? n) (← asListOf? asStr? cs) (← asOpt? asStr? img) (← asBool? ol) (← asBool? ofast))
  | .list [.atom "save"] => some .save
  | .list [.atom "touchUni"] => some .touchUni
  | .list [.atom "touch", n] => do some (.touch (← asStr? n))
  | _ => none

def setOf (xs : List SExp) : SExp := tagged "set" xs

def encPairs (ps : List (String × String)) : SExp :=
  setOf (ps.eraseDups.map fun p => .list [.str p.1, .str p.2])

def snapshot (d : DState) : List SExp :=
  [ tagged "keys" [setOf ((visible d.s).map .str)],
    tagged "comps" [encPairs (componentReferences d.s)],
    tagged "images" [encPairs (imageReferences d.s)],
    tagged "outlines" [if d.maskOutlines then .atom "masked" else setOf ((glyphsWithOutlines d.s).eraseDups.map .str)],
    tagged "uni" [match d.s.uni with
      | none => .atom "none"
      | some m => setOf (m.map fun p => .list [ofNat p.1, setOf (p.2.map .str)])] ]

def driverStep (d : DState) (line : SExp) : DState × SExp :=
  match line with
  | .list [.atom "init", .list gs] =>
    match gs.mapM (fun g => match g with
        | .list [n, r] => do some ((← asStr? n), (← parseRec r))
        | _ => none) with
    | none => (d, .atom "bad-op")
    | some disk => let d' := { d with s := opened disk }; (d', .list (.atom "ok" :: snapshot d'))
  | .list [.atom "mask", .atom "outlines"] => ({ d with maskOutlines := true }, .atom "ok")
  | .list (.atom "seq" :: lines) =>
    -- several model operations for one operation of the implementation (a reload = read + new unicodes + new content):
    -- all or nothing, one snapshot
    match lines.mapM parseOp with
    | none => (d, .atom "bad-op")
    | some ops =>
      match ops.foldlM (fun s op => match step s op with | .ok s' => some s' | .error _ => none) d.s with
      | some s' => let d' := { d with s := s' }; (d', .list (.atom "ok" :: snapshot d'))
      | none => (d, .list (err "KeyError" :: snapshot d))
  | _ =>
    match parseOp line with
    | none => (d, .atom "bad-op")
    | some op =>
      match step d.s op with
      | .ok s' => let d' := { d with s := s' }; (d', .list (.atom "ok" :: snapshot d'))
      | .error .keyError => (d, .list (err "KeyError" :: snapshot d))

end Layer
end DefconModel
