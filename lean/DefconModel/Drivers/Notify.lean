/-
Driver glue for M-Notify: S-expression ⇄ `Notify.Op` / events.  Not part of the proved core.
-/
import DefconModel.Util.SExp
import DefconModel.Notify

namespace DefconModel
namespace Notify
open SExp

def optNat? := asOpt? asNat?
def optStr? := asOpt? asStr?

partial def parseOp : SExp → Option Op
  | .list [.atom "add", o, m, n, s, i] => do
    some (.add (← asNat? o) (← asNat? m) (← optNat? n) (← optNat? s) (← optStr? i))
  | .list [.atom "remove", o, n, s] => do some (.remove (← asNat? o) (← optNat? n) (← optNat? s))
  | .list [.atom "removeAll", o, s] => do some (.removeAll (← asNat? o) (← optNat? s))
  | .list [.atom "has", o, n, s] => do some (.has (← asNat? o) (← optNat? n) (← optNat? s))
  | .list [.atom "find", o, n, s, p] => do
    some (.find (← optNat? o) (← optNat? n) (← optNat? s) (← optStr? p))
  | .list [.atom "post", n, s, d] => do some (.post (← asNat? n) (← asNat? s) (← asNat? d) none)
  | .list [.atom "hold", n, s, o, note] => do
    some (.hold (← optNat? n) (← optNat? s) (← optNat? o) (← optNat? note))
  | .list [.atom "release", n, s, o] => do some (.release (← optNat? n) (← optNat? s) (← optNat? o))
  | .list [.atom "disable", n, s, o] => do some (.disable (← optNat? n) (← optNat? s) (← optNat? o))
  | .list [.atom "enable", n, s, o] => do some (.enable (← optNat? n) (← optNat? s) (← optNat? o))
  | .list [.atom "areHeld", n, s, o] => do some (.areHeld (← optNat? n) (← optNat? s) (← optNat? o))
  | .list [.atom "areDisabled", n, s, o] => do
    some (.areDisabled (← optNat? n) (← optNat? s) (← optNat? o))
  | .list [.atom "heldKeys"] => some .heldKeys
  | .list [.atom "heldNotes", n, s, o] => do
    some (.heldNotes (← optNat? n) (← optNat? s) (← optNat? o))
  | .list [.atom "kill", o] => do some (.kill (← asNat? o))
  | .list [.atom "script", o, m, .list ops] => do
    some (.script (← asNat? o) (← asNat? m) (← ops.mapM parseOp))
  | _ => none

def encHKey (k : HKey) : SExp := .list [ofOpt ofNat k.1, ofOpt ofNat k.2.1, ofOpt ofNat k.2.2]

def encRes : Res → SExp
  | .ok => .atom "ok"
  | .bool b => ofBool b
  | .found l => tagged "found" [tagged "set" (l.map fun f =>
      .list [ofOpt ofNat f.observer, ofOpt ofNat f.observable, ofOpt ofNat f.notification,
             ofOpt .str f.ident])]
  | .keys l => tagged "keys" [tagged "set" (l.map encHKey)]
  | .notes l => tagged "notes" [ofList ofNat l]
  | .err .keyError => err "KeyError"
  | .err .assertionError => err "AssertionError"

def encEv : Ev → SExp
  | .deliver o m n s d => .list [.atom "d", ofNat o, ofNat m, ofNat n, ofNat s, ofNat d]
  | .ret r => .list [.atom "r", encRes r]
  | .outOfFuel => .list [.atom "fuel"]

def driverStep (c : Center) (line : SExp) : Center × SExp :=
  match parseOp line with
  | none => (c, .atom "bad-op")
  | some op =>
    let (c', evs) := exec 64 c op
    (c', .list (evs.map encEv))

end Notify
end DefconModel
