/-
Driver glue for M-GlyphOrder: S-expression ⇄ `GlyphOrder.Op` / observation.  Not part of the
proved core.

Input lines
  (init ((<layer> (<glyph> …)) …) <lib> <default>)
                                            start state: layers in layer order (all observed by the
                                            font, as after loading / deserialising), lib value, name
                                            of the default layer
  (newGlyph <layer> <g>) (insertGlyph <layer> <g>) (delGlyph <layer> <g>) (rename <layer> <old> <new>)
  (setOrder <lib>) (setLib <lib>) (newLayer <name>) (delLayer <name>)
  (renameLayer <old> <new>) (setLayerOrder (<name> …)) (setDefault <name>)
  (fontNewGlyph <g>) (fontInsertGlyph <g>) (fontDelGlyph <g>)
  (holdLayer <layer>) (releaseLayer <layer>) (disableLayer <layer>) (enableLayer <layer>)
  (holdFont) (releaseFont)
  (save)                                    persisting and re-reading: observation only
where <lib> = none | (some (<name> …)), <default> = none | (some <name>).
Output line: (<res> (order <name> …) <lib> (layers (<layer> (set <glyph> …) <held?> <disabled?>) …)
              <default> (keys (set <glyph> …)))
-/
import DefconModel.Util.SExp
import DefconModel.GlyphOrder

namespace DefconModel
namespace GlyphOrder
open SExp

def strList? : SExp → Option (List String) := asListOf? asStr?
def optStrList? : SExp → Option (Option (List String)) := asOpt? strList?

def parseLayer : SExp → Option (String × Layer)
  | .list [n, gs] => do some (← asStr? n, { glyphs := ← strList? gs, observed := true })
  | _ => none

def parseOp : SExp → Option Op
  | .list [.atom "newGlyph", l, g] => do some (.newGlyph (← asStr? l) (← asStr? g))
  | .list [.atom "insertGlyph", l, g] => do some (.insertGlyph (← asStr? l) (← asStr? g))
  | .list [.atom "delGlyph", l, g] => do some (.delGlyph (← asStr? l) (← asStr? g))
  | .list [.atom "rename", l, o, n] => do some (.rename (← asStr? l) (← asStr? o) (← asStr? n))
  | .list [.atom "setOrder", v] => do some (.setOrder (← optStrList? v))
  | .list [.atom "setLib", v] => do some (.setLib (← optStrList? v))
  | .list [.atom "newLayer", n] => do some (.newLayer (← asStr? n))
  | .list [.atom "delLayer", n] => do some (.delLayer (← asStr? n))
  | .list [.atom "renameLayer", o, n] => do some (.renameLayer (← asStr? o) (← asStr? n))
  | .list [.atom "setLayerOrder", ns] => do some (.setLayerOrder (← strList? ns))
  | .list [.atom "setDefault", n] => do some (.setDefault (← asStr? n))
  | .list [.atom "fontNewGlyph", g] => do some (.fontNewGlyph (← asStr? g))
  | .list [.atom "fontInsertGlyph", g] => do some (.fontInsertGlyph (← asStr? g))
  | .list [.atom "fontDelGlyph", g] => do some (.fontDelGlyph (← asStr? g))
  | .list [.atom "holdLayer", l] => do some (.holdLayer (← asStr? l))
  | .list [.atom "releaseLayer", l] => do some (.releaseLayer (← asStr? l))
  | .list [.atom "disableLayer", l] => do some (.disableLayer (← asStr? l))
  | .list [.atom "enableLayer", l] => do some (.enableLayer (← asStr? l))
  | .list [.atom "holdFont"] => some .holdFont
  | .list [.atom "releaseFont"] => some .releaseFont
  | _ => none

def encRes : Res → SExp
  | .ok => .atom "ok"
  | .err .keyError => err "KeyError"
  | .err .assertionError => err "AssertionError"
  | .err .unsupported => err "NotModelled"

def encLayer (kl : String × Layer) : SExp :=
  .list [.str kl.1, tagged "set" (kl.2.glyphs.map .str), ofBool (kl.2.held != 0), ofBool (kl.2.disabled != 0)]

def observe (r : SExp) (f : Font) : SExp :=
  .list [r, tagged "order" ((glyphOrder f).map .str), ofOpt (ofList .str) f.lib,
         tagged "layers" (f.layers.map encLayer), ofOpt .str f.default,
         tagged "keys" [tagged "set" ((fontKeys f).map .str)]]

/-- a new `Font()`: one empty, observed layer `public.default`; no glyph order in the lib -/
def initial : Font :=
  { layers := [("public.default", { glyphs := [], observed := true })], lib := none,
    default := some "public.default" }

def driverStep (f : Font) (line : SExp) : Font × SExp :=
  match line with
  | .list [.atom "init", .list ls, lib, dflt] =>
    match ls.mapM parseLayer, optStrList? lib, asOpt? asStr? dflt with
    | some layers, some v, some d =>
      let f' : Font := { layers := layers, lib := v, default := d }
      (f', observe (.atom "ok") f')
    | _, _, _ => (f, .atom "bad-op")
  | .list [.atom "save"] => (f, observe (.atom "ok") f)
  | .list [.atom "renameChain", l, o, ns] =>
    -- `g = layer[o]; g.holdNotifications(); g.name = n1; g.name = n2; …; g.releaseHeldNotifications()` with
    -- names n1 … that nothing has or lists: what the layer and the font are told at the glyph's release is the
    -- chain of renamings o -> n1 -> n2 … (glue: the renamings one after the other, first error reported)
    match asStr? l, asStr? o, strList? ns with
    | some L, some o0, some names =>
      let r := names.foldl (fun (acc : Font × String × Res) n =>
        let (f1, res) := step acc.1 (.rename L acc.2.1 n)
        (f1, n, match acc.2.2 with | .ok => res | e => e)) (f, o0, Res.ok)
      (r.1, observe (encRes r.2.2) r.1)
    | _, _, _ => (f, .atom "bad-op")
  | _ =>
    match parseOp line with
    | none => (f, .atom "bad-op")
    | some op =>
      let (f', r) := step f op
      (f', observe (encRes r) f')

end GlyphOrder
end DefconModel
