/-
Driver glue for M-Ext: S-expression ⇄ `Ext.Op` / results / snapshots.  Not part of the proved core.
-/
import DefconModel.Util.SExp
import DefconModel.Ext

namespace DefconModel
namespace Ext
open SExp

def parsePart : SExp → Option Part
  | .atom "info" => some .info
  | .atom "kerning" => some .kerning
  | .atom "groups" => some .groups
  | .atom "features" => some .features
  | .atom "lib" => some .lib
  | _ => none

def partName : Part → String
  | .info => "info" | .kerning => "kerning" | .groups => "groups" | .features => "features" | .lib => "lib"

def optNat? := asOpt? asNat?
def optInt? := asOpt? asInt?

def parseAct (a : SExp) (b : SExp) : Option XAct :=
  match a with
  | .atom "write" => do
    match (← optNat? b) with
    | some v => some (.write v)
    | none => none
  | .atom "touch" => some .touch
  | .atom "delete" => some .delete
  | _ => none

def parsePairs (x : SExp) : Option (List (String × Nat)) :=
  match x with
  | .list xs => xs.mapM fun e => match e with
    | .list [n, b] => do some ((← asStr? n), (← asNat? b))
    | _ => none
  | _ => none

def strList? (x : SExp) : Option (List String) := asListOf? asStr? x

def parseOp : SExp → Option Op
  | .list [.atom "touch", p] => do some (.touch (← parsePart p))
  | .list [.atom "reloadpart", p] => do some (.reloadpart (← parsePart p))
  | .list [.atom "pset", p, v] => do some (.pset (← parsePart p) (← asNat? v))
  | .list [.atom "gget", ln, gn] => do some (.gget (← asStr? ln) (← asStr? gn))
  | .list [.atom "gnew", ln, gn] => do some (.gnew (← asStr? ln) (← asStr? gn))
  | .list [.atom "gdel", ln, gn] => do some (.gdel (← asStr? ln) (← asStr? gn))
  | .list [.atom "grename", ln, old, new] => do some (.grename (← asStr? ln) (← asStr? old) (← asStr? new))
  | .list [.atom "gset", ln, gn, v] => do some (.gset (← asStr? ln) (← asStr? gn) (← asNat? v))
  | .list [.atom "lnew", ln] => do some (.lnew (← asStr? ln))
  | .list [.atom "ldel", ln] => do some (.ldel (← asStr? ln))
  | .list [.atom "ldefault", ln] => do some (.ldefault (← asStr? ln))
  | .list [.atom "lorder", o] => do some (.lorder (← strList? o))
  | .list [.atom "lset", ln, v] => do some (.lset (← asStr? ln) (← asNat? v))
  | .list [.atom "img", n, b] => do some (.fset true (← asStr? n) (← optNat? b))
  | .list [.atom "dat", n, b] => do some (.fset false (← asStr? n) (← optNat? b))
  | .list [.atom "imgget", n] => do some (.fget true (← asStr? n))
  | .list [.atom "datget", n] => do some (.fget false (← asStr? n))
  | .list [.atom "save", a, b] => do some (.save (← asInt? a) (← asInt? b))
  | .list [.atom "saveas", a, b] => do some (.saveas (← asInt? a) (← asInt? b))
  | .list [.atom "xpart", p, a, v, t] => do some (.xpart (← parsePart p) (← parseAct a v) (← optInt? t))
  | .list [.atom "xglyph", ln, gn, a, v, t] => do
    some (.xglyph (← asStr? ln) (← asStr? gn) (← parseAct a v) (← optInt? t))
  | .list [.atom "xlinfo", ln, v] => do some (.xlinfo (← asStr? ln) (← asNat? v))
  | .list [.atom "ximg", n, a, v, t] => do some (.xfile true (← asStr? n) (← parseAct a v) (← optInt? t))
  | .list [.atom "xdat", n, a, v, t] => do some (.xfile false (← asStr? n) (← parseAct a v) (← optInt? t))
  | .list [.atom "xladd", ln, gl, t] => do some (.xladd (← asStr? ln) (← parsePairs gl) (← asInt? t))
  | .list [.atom "xldel", ln] => do some (.xldel (← asStr? ln))
  | .list [.atom "xlorder", o] => do some (.xlorder (← strList? o))
  | .list [.atom "xldefault", ln] => do some (.xldefault (← asStr? ln))
  | .list [.atom "test"] => some .test
  | .list [.atom "reload"] => some .reload
  | .list [.atom "acceptdel"] => some .acceptdel
  | .list [.atom "reloadglyphs", ln, names] => do some (.reloadglyphs (← asStr? ln) (← strList? names))
  | .list [.atom "reloadfiles", .atom "images", names] => do some (.reloadfiles true (← strList? names))
  | .list [.atom "reloadfiles", .atom "data", names] => do some (.reloadfiles false (← strList? names))
  | _ => none

/-- `(init zip parts layers default images data emptyGlyph)`: every file has modification time 0 -/
def parseInit : SExp → Option State
  | .list [.atom "init", z, .list parts, .list layers, dflt, imgs, dats, empty] => do
    let zip ← asBool? z
    let ps ← parts.mapM fun e => match e with
      | .list [p, b] => do some ((← parsePart p), (⟨(← asNat? b), 0⟩ : File))
      | _ => none
    let ls ← layers.mapM fun e => match e with
      | .list [n, i, gl] => do
        let g ← parsePairs gl
        some ((← asStr? n), ({ info := (← asNat? i), glifs := g.map fun p => (p.1, ⟨p.2, 0⟩) } : DLayer))
      | _ => none
    let im ← parsePairs imgs
    let da ← parsePairs dats
    let d : Disk := { parts := ps, layers := ls, default := some (← asStr? dflt),
                      images := im.map fun p => (p.1, ⟨p.2, 0⟩), data := da.map fun p => (p.1, ⟨p.2, 0⟩) }
    some (openFont zip d (← asNat? empty))
  | _ => none

def setOf (xs : List SExp) : SExp := tagged "set" xs
def strSet (xs : List String) : SExp := setOf (xs.map .str)

def encErr : Err → SExp
  | .keyError => err "KeyError"
  | .assertionError => err "AssertionError"
  | .ufoLibError => err "UFOLibError"
  | .glifLibError => err "GlifLibError"
  | .filesystemClosed => err "FilesystemClosed"
  | .outsideDomain => err "outside-the-modelled-domain"

def encTri : Option Bool → SExp
  | none => .atom "none"
  | some b => ofBool b

def encSetRep (r : SetRep) : SExp := .list [strSet r.modified, strSet r.added, strSet r.deleted]

def encReport (dflt : Option String) (r : Report) : SExp :=
  let mods := r.modified.map fun p =>
    .list [.str p.1, ofBool p.2.info, strSet p.2.modified, strSet p.2.added, strSet p.2.deleted]
  let dl : Option LayerRep := match dflt with
    | none => none
    | some n => AL.get? r.modified n
  let dep (f : LayerRep → List String) : SExp := ofOpt (fun x => strSet (f x)) dl
  .list [ .list (r.parts.map fun p => encTri p.2),
          .list [ofBool r.defaultLayer, ofBool r.order, strSet r.added, strSet r.deleted, setOf mods],
          encSetRep r.images, encSetRep r.data,
          .list [dep (·.modified), dep (·.added), dep (·.deleted)] ]

def encFS (fs : FileSet) : SExp :=
  .list [ setOf (fs.entries.map fun p =>
            .list [.str p.1, ofBool p.2.data.isSome, ofNat (p.2.data.getD 0), ofBool p.2.dirty]),
          strSet (AL.keys fs.sched) ]

/-- the font's bookkeeping as the harness reads it from the real objects -/
def encSnapshot (s : State) : SExp :=
  let f := s.font
  let parts := allParts.map fun p =>
    match getPart s p with
    | none => .list [ofBool false, ofNat 0, ofBool false]
    | some mp => .list [ofBool true, ofNat mp.value, ofBool mp.dirty]
  let layers := f.order.filterMap fun ln =>
    (AL.get? f.layers ln).map fun l =>
      .list [.str ln, ofNat l.info, strSet l.keys,
             setOf (l.glyphs.map fun p => .list [.str p.1, ofNat p.2.value, ofBool p.2.dirty]),
             strSet (AL.keys l.sched)]
  .list [.list parts, .list (f.order.map .str), ofOpt .str f.default, .list layers, encFS f.images, encFS f.data]

def encDisk (d : Disk) : SExp :=
  let parts := allParts.map fun p =>
    match AL.get? d.parts p with
    | none => .list [.atom (partName p), ofBool false, ofNat 0]
    | some f => .list [.atom (partName p), ofBool true, ofNat f.blob]
  let layers := d.layers.map fun p =>
    .list [.str p.1, ofNat p.2.info, setOf (p.2.glifs.map fun g => .list [.str g.1, ofNat g.2.blob])]
  let files (l : List (String × File)) : SExp := setOf (l.map fun p => .list [.str p.1, ofNat p.2.blob])
  .list [.list parts, .list layers, .str (d.default.getD "<none>"), files d.images, files d.data]

def encRes (s : State) : Res → SExp
  | .ok => .atom "ok"
  | .noop => .atom "noop"
  | .blob b => ofNat b
  | .oblob b => ofOpt ofNat b
  | .report r => encReport s.font.default r
  | .disk => encDisk s.disk
  | .glyphs l => .list (l.map fun p => .list [.str p.1, ofNat p.2])
  | .err e => encErr e

/-- driver state: the model state, and whether a save has failed (the real font is then in an
undefined half-saved condition: nothing is compared any more, on either side) -/
structure DState where
  st : State := {}
  failed : Bool := false

def driverStep (ds : DState) (line : SExp) : DState × SExp :=
  match line with
  | .list (.atom "init" :: _) =>
    match parseInit line with
    | some s0 => ({ st := s0 }, .atom "ok")
    | none => (ds, .atom "bad-op")
  | _ =>
    match parseOp line with
    | none => (ds, .atom "bad-op")
    | some op =>
      if ds.failed then (ds, .atom "after-failed-save")
      else
        let s := ds.st
        let (s1, r) := step s op
        match op, r with
        | .save _ _, .err _ => ({ ds with failed := true }, .list [.atom "err", .atom "save-failed"])
        | .saveas _ _, .err _ => ({ ds with failed := true }, .list [.atom "err", .atom "save-failed"])
        | _, .err e => ({ ds with st := s1 }, .list [encErr e, encSnapshot s1])
        | _, r => ({ ds with st := s1 }, .list [.atom "ok", encRes s1 r, encSnapshot s1])

end Ext
end DefconModel
