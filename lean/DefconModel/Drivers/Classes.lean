/-
Driver glue for M-Classes (C15).  Not part of the proved core.

  (config (<role> <id>) …)        registers user class number <id> for <role>; everything else default
  (path <name> (<role> …))        the classes instantiated on creation path <name> for the given roles
                                   (the roles the generated content makes the path create)
  (multi (<name> (<role> …)) …)   the union of several path queries (one sweep after several operations)
  (props <Glyph|Contour>)         the values of the public class properties of such an object
-/
import DefconModel.Util.SExp
import DefconModel.Spec.Classes
import DefconModel.Gen.ClassWiring

namespace DefconModel
namespace Classes
open SExp

structure DState where
  cfg : List (Role × Nat) := []

def roleName : Role → String
  | .glyph => "glyph" | .contour => "contour" | .point => "point" | .component => "component"
  | .anchor => "anchor" | .image => "image" | .guideline => "guideline" | .lib => "lib"
  | .layer => "layer" | .layerSet => "layerSet" | .info => "info" | .kerning => "kerning"
  | .groups => "groups" | .features => "features" | .unicodeData => "unicodeData"
  | .imageSet => "imageSet" | .dataSet => "dataSet"

def parseRole : SExp → Option Role
  | .atom s => Role.all.find? (fun r => roleName r = s)
  | _ => none

def DState.toCfg (d : DState) : Cfg := fun r => AL.get? d.cfg r

def encVal : Option Val → SExp
  | some (.user i b) => .list [.atom "user", ofNat i, .str b]
  | some (.builtin c) => .list [.atom "builtin", .str c]
  | none => .atom "fail"

def stepClass (cfg : Cfg) (st : PathStep) : Option Val :=
  let w := Gen.ClassWiring.wiring
  match reachIds w cfg st.via, w.site st.site with
  | some o, some s => classAt w o s
  | _, _ => none

def pathOut (cfg : Cfg) (name : String) (roles : List Role) : SExp :=
  tagged "set" ((roles.flatMap fun r =>
    match stepsFor name r with
    | [] => [SExp.list [.atom "unlisted", .atom (roleName r)]]
    | sts => sts.map fun st => SExp.list [.atom (roleName r), encVal (stepClass cfg st)]).eraseDups)

def propsOut (cfg : Cfg) (cls : String) : SExp :=
  let w := Gen.ClassWiring.wiring
  let via := if cls = "Glyph" then toGlyph else if cls = "Contour" then toContour else []
  match reachIds w cfg via, w.classDef cls with
  | some o, some cd =>
    if o.cd = cls then tagged "set" (cd.props.map fun pa => .list [.str pa.1, encVal (propValue w o pa.1)])
    else .atom "fail"
  | _, _ => .atom "fail"

def driverStep (d : DState) (line : SExp) : DState × SExp :=
  match line with
  | .list (.atom "config" :: items) =>
    match items.mapM (fun it => match it with
        | .list [r, i] => do some ((← parseRole r), (← asNat? i))
        | _ => none) with
    | some cfg => ({ cfg := cfg }, .atom "ok")
    | none => (d, .atom "bad-op")
  | .list [.atom "path", .atom name, .list roles] =>
    match roles.mapM parseRole with
    | some rs => if (AL.get? paths name).isSome then (d, pathOut d.toCfg name rs) else (d, .atom "bad-op")
    | none => (d, .atom "bad-op")
  | .list (.atom "multi" :: qs) =>
    -- several path queries answered at once (a sweep that follows several operations): union of the sets
    match qs.mapM (fun q => match q with
        | .list [.atom name, .list roles] => do
          let rs ← roles.mapM parseRole
          if (AL.get? paths name).isSome then some (name, rs) else none
        | _ => none) with
    | some items =>
      (d, tagged "set" ((items.flatMap fun it =>
        match pathOut d.toCfg it.1 it.2 with
        | .list (_ :: xs) => xs
        | _ => []).eraseDups))
    | none => (d, .atom "bad-op")
  | .list [.atom "props", .atom cls] =>
    if cls = "Glyph" || cls = "Contour" then (d, propsOut d.toCfg cls) else (d, .atom "bad-op")
  | _ => (d, .atom "bad-op")

end Classes
end DefconModel
