/-
Driver glue for M-Classes (C15).  Not part of the proved core.

  (config (<role> <id>) …)        registers user class number <id> for <role>; everything else default
  (path <name> (<role> …))        the classes instantiated on creation path <name> for the given roles
                                   (the roles the generated content makes the path create)
  (multi (<name> (<role> …)) …)   the union of several path queries (one sweep after several operations)
  (props <Glyph|Contour>)         the values of the public class properties of such an object
  (census "<site id>" …)          the creation sites of the regenerated table (guards aside, the listed ids aside), each
                                   with the role the catalogue says it creates, or `scratch`
  (foreign "<entry id>" <base|registered|unrelated>)
                                   what the entry point (delegations followed) makes of an object of defcon's class /
                                   of the class expected for the role / of an unrelated subclass: `(asIs)` or
                                   `(rebuilt <class>)`
  (free <Glyph|Contour> <own|registered> (<role> …))
                                   the classes instantiated for the roles on path "freeStanding" inside an object the
                                   USER constructed with the registered classes handed in (and what is created from it)
-/
import DefconModel.Util.SExp
import DefconModel.Spec.Classes
import DefconModel.Gen.ClassWiring

namespace DefconModel
namespace Classes
open SExp

structure DState where
  cfg : List (Role × Nat) := []

def roleName : Role → String
  | .glyph => "glyph" | .contour => "contour" | .point => "point" | .component => "component"
  | .anchor => "anchor" | .image => "image" | .guideline => "guideline" | .lib => "lib"
  | .layer => "layer" | .layerSet => "layerSet" | .info => "info" | .kerning => "kerning"
  | .groups => "groups" | .features => "features" | .unicodeData => "unicodeData"
  | .imageSet => "imageSet" | .dataSet => "dataSet"

def parseRole : SExp → Option Role
  | .atom s => Role.all.find? (fun r => roleName r = s)
  | _ => none

def DState.toCfg (d : DState) : Cfg := fun r => AL.get? d.cfg r

def encVal : Option Val → SExp
  | some (.user i b) => .list [.atom "user", ofNat i, .str b]
  | some (.builtin c) => .list [.atom "builtin", .str c]
  | none => .atom "fail"

def stepClass (cfg : Cfg) (st : PathStep) : Option Val :=
  let w := Gen.ClassWiring.wiring
  match reachIds w cfg st.via, w.site st.site with
  | some o, some s => classAt w o s
  | _, _ => none

def pathOut (cfg : Cfg) (name : String) (roles : List Role) : SExp :=
  tagged "set" ((roles.flatMap fun r =>
    match stepsFor name r with
    | [] => [SExp.list [.atom "unlisted", .atom (roleName r)]]
    | sts => sts.map fun st => SExp.list [.atom (roleName r), encVal (stepClass cfg st)]).eraseDups)

def propsOut (cfg : Cfg) (cls : String) : SExp :=
  let w := Gen.ClassWiring.wiring
  let via := if cls = "Glyph" then toGlyph else if cls = "Contour" then toContour else []
  match reachIds w cfg via, w.classDef cls with
  | some o, some cd =>
    if o.cd = cls then tagged "set" (cd.props.map fun pa => .list [.str pa.1, encVal (propValue w o pa.1)])
    else .atom "fail"
  | _, _ => .atom "fail"

def censusOut (never : List String) : SExp :=
  let w := Gen.ClassWiring.wiring
  tagged "set" ((w.sites.filter fun s => !s.guard && !never.contains s.id).map fun s =>
    match dispOf s.id with
    | some (.handedOut r) => .list [.str s.id, .atom (roleName r)]
    | some .scratch => .list [.str s.id, .atom "scratch"]
    | some (.guard _) => .list [.str s.id, .atom "guard"]
    | none => .list [.str s.id, .atom "uncatalogued"])

def ownerVia (c : CName) : Option (List String) :=
  if c = "Font" then some [] else if c = "LayerSet" then some toLayerSet else if c = "Layer" then some toLayer
  else if c = "Glyph" then some toGlyph else if c = "Contour" then some toContour else none

def foreignOut (cfg : Cfg) (entry : String) (kind : String) : SExp :=
  let w := Gen.ClassWiring.wiring
  match (w.entry entry).bind (resolveEntry w 4), entryRole entry with
  | some e, some r =>
    let given : Option Val :=
      if kind = "base" then some (.builtin (dfltName r))
      else if kind = "registered" then some (expected cfg r)
      else if kind = "unrelated" then some (.user 99 (dfltName r))
      else none
    match given, (ownerVia e.owner).bind (reachIds w cfg) with
    | some g, some o =>
      match store w o e g with
      | some .asIs => .list [.atom "asIs"]
      | some (.rebuilt k) => .list [.atom "rebuilt", encVal (some k)]
      | none => .atom "fail"
    | _, _ => .atom "fail"
  | _, _ => .atom "unlisted"

/-- the classes on path "freeStanding" inside a user-constructed root (the steps executed in the glyph / contour
itself or in what is created from it; the step that creates the root itself is the user's) -/
def freeOut (cfg : Cfg) (cls : String) (own : Bool) (roles : List Role) : SExp :=
  let w := Gen.ClassWiring.wiring
  let pre := if cls = "Glyph" then toGlyph else toContour
  let kws := if cls = "Glyph" then glyphKw else contourKw
  let r0 : Role := if cls = "Glyph" then .glyph else .contour
  let self : Val := if own then .builtin cls else expected cfg r0
  let clsOf (st : PathStep) : Option Val :=
    match (st.via.drop pre.length).mapM w.site, w.site st.site with
    | some chain, some s => (reachFrom w (freeRoot w cfg cls self kws) chain).bind fun o => classAt w o s
    | _, _ => none
  tagged "set" ((roles.flatMap fun r =>
    ((stepsFor "freeStanding" r).filter fun st => st.via.take pre.length == pre).map fun st =>
      SExp.list [.atom (roleName r), encVal (clsOf st)]).eraseDups)

def driverStep (d : DState) (line : SExp) : DState × SExp :=
  match line with
  | .list (.atom "census" :: never) =>
    match never.mapM asStr? with
    | some ids => (d, censusOut ids)
    | none => (d, .atom "bad-op")
  | .list [.atom "foreign", .str entry, .atom kind] =>
    if kind = "base" || kind = "registered" || kind = "unrelated" then (d, foreignOut d.toCfg entry kind)
    else (d, .atom "bad-op")
  | .list [.atom "free", .atom cls, .atom how, .list roles] =>
    match roles.mapM parseRole with
    | some rs =>
      if (cls = "Glyph" || cls = "Contour") && (how = "own" || how = "registered") then
        (d, freeOut d.toCfg cls (how = "own") rs)
      else (d, .atom "bad-op")
    | none => (d, .atom "bad-op")
  | .list (.atom "config" :: items) =>
    match items.mapM (fun it => match it with
        | .list [r, i] => do some ((← parseRole r), (← asNat? i))
        | _ => none) with
    | some cfg => ({ cfg := cfg }, .atom "ok")
    | none => (d, .atom "bad-op")
  | .list [.atom "path", .atom name, .list roles] =>
    match roles.mapM parseRole with
    | some rs => if (AL.get? paths name).isSome then (d, pathOut d.toCfg name rs) else (d, .atom "bad-op")
    | none => (d, .atom "bad-op")
  | .list (.atom "multi" :: qs) =>
    -- several path queries answered at once (a sweep that follows several operations): union of the sets
    match qs.mapM (fun q => match q with
        | .list [.atom "free", .atom cls, .atom how, .list roles] => do
          let rs ← roles.mapM parseRole
          if (cls = "Glyph" || cls = "Contour") && (how = "own" || how = "registered") then
            some (freeOut d.toCfg cls (how = "own") rs) else none
        | .list [.atom name, .list roles] => do
          let rs ← roles.mapM parseRole
          if (AL.get? paths name).isSome then some (pathOut d.toCfg name rs) else none
        | _ => none) with
    | some items =>
      (d, tagged "set" ((items.flatMap fun it =>
        match it with
        | .list (_ :: xs) => xs
        | _ => []).eraseDups))
    | none => (d, .atom "bad-op")
  | .list [.atom "props", .atom cls] =>
    if cls = "Glyph" || cls = "Contour" then (d, propsOut d.toCfg cls) else (d, .atom "bad-op")
  | _ => (d, .atom "bad-op")

end Classes
end DefconModel
