/-
Driver glue for M-Cells: a Python value as an S-expression ⇄ a heap; the copy routes.  Not part of the
proved core.

    none | true | false | 12 | 3/2 | "str"          atoms
    (tuple a …)                                      a tuple of atoms
    (list v …)  (set v …)  (dict (k v) …)  (obj Cls (k v) …)     cells
-/
import DefconModel.Util.SExp
import DefconModel.Cells

namespace DefconModel
namespace Cells
open SExp

def scalarOf? : SExp → Option Scalar
  | .atom "none" => some .none
  | .atom "true" => some (.bool true)
  | .atom "false" => some (.bool false)
  | .atom s =>
    match s.splitOn "/" with
    | [n] => n.toInt?.map .int
    | [n, d] => do some (.rat (← n.toInt?) (← d.toNat?))
    | _ => none
  | .str s => some (.str s)
  | _ => none

def ofScalar : Scalar → SExp
  | .none => .atom "none"
  | .bool b => ofBool b
  | .int i => ofInt i
  | .rat n d => .atom (toString n ++ "/" ++ toString d)
  | .str s => .str s

/-- the fields whose SETTER stores an immutable tuple whatever sequence it is given
(`Component._set_transformation`, repaired tree) -/
def frozenFields : List Path := [["components", "*", "transformation"]]

/-- allocate the value an S-expression describes, children first; `path` = the field it is stored in -/
partial def allocS (frozen : List Path) (path : Path) (h : Heap) : SExp → Option (Heap × Val)
  | .list (.atom "tuple" :: xs) => do
    let ss ← xs.mapM scalarOf?
    some (h, .atom (.tuple ss))
  | .list (.atom "list" :: xs) =>
    match (if path ∈ frozen then xs.mapM scalarOf? else none) with
    | some ss => some (h, .atom (.tuple ss))
    | none => do
      let (h', vs) ← allocList (path ++ ["*"]) h xs
      some (h' ++ [⟨.list, [], vs⟩], .ref h'.length)
  | .list (.atom "set" :: xs) => do
    let (h', vs) ← allocList (path ++ ["*"]) h xs
    some (h' ++ [⟨.set, [], vs⟩], .ref h'.length)
  | .list (.atom "dict" :: kvs) => do
    let (h', ks, vs) ← allocPairs false h kvs
    some (h' ++ [⟨.dict, ks, vs⟩], .ref h'.length)
  | .list (.atom "obj" :: .atom cls :: kvs) => do
    let (h', ks, vs) ← allocPairs true h kvs
    some (h' ++ [⟨.obj cls, ks, vs⟩], .ref h'.length)
  | s => (scalarOf? s).map fun a => (h, .atom (.sc a))
where
  allocList (p : Path) (h : Heap) : List SExp → Option (Heap × List Val)
    | [] => some (h, [])
    | x :: xs => do
      let (h1, v) ← allocS frozen p h x
      let (h2, vs) ← allocList p h1 xs
      some (h2, v :: vs)
  allocPairs (named : Bool) (h : Heap) : List SExp → Option (Heap × List String × List Val)
    | [] => some (h, [], [])
    | .list [.str k, x] :: r => do
      let (h1, v) ← allocS frozen (path ++ [if named then k else "*"]) h x
      let (h2, ks, vs) ← allocPairs named h1 r
      some (h2, k :: ks, v :: vs)
    | _ => none

partial def treeS : Tree → SExp
  | .atom (.sc s) => ofScalar s
  | .atom (.tuple xs) => .list (.atom "tuple" :: xs.map ofScalar)
  | .node .list _ kids => .list (.atom "list" :: kids.map treeS)
  | .node .set _ kids => .list (.atom "set" :: kids.map treeS)
  | .node .dict ks kids =>
    -- the order of the keys of a dict is not compared (a plist sorts them): the harness sorts a `(set …)`
    .list [.atom "dict", .list (.atom "set" :: (ks.zip kids).map fun (k, t) => .list [.str k, treeS t])]
  | .node (.obj cls) ks kids =>
    .list (.atom "obj" :: .atom cls :: (ks.zip kids).map fun (k, t) => .list [.str k, treeS t])

def FUEL : Nat := 64

def dedup (xs : List String) : List String := xs.foldl (fun acc x => if x ∈ acc then acc else acc ++ [x]) []

/-- `(hcopy <route> <glyph>)`: build the source glyph as the setters store it, copy it by the route's
table, answer with the fields at which copy and source share a cell and with what the copy denotes -/
def hcopyStep (route : String) (src : SExp) : SExp :=
  let tbl? : Option Table :=
    match route with
    | "copyData" => some codeTable
    | "insertLayer" => some codeTable
    | "insertFont" => some codeTable
    | "serial" => some serialTable
    | _ => none
  match tbl?, allocS frozenFields [] [] src with
  | some tbl, some (h, g) =>
    match copyAt FUEL tbl.mode [] h g with
    | none => err "fuel"
    | some (h', g') =>
      match denote h' FUEL g', denote h FUEL g with
      | some t, some s =>
        .list [.atom "ok", tagged "set" ((dedup (sharedPaths h.length h' FUEL [] g')).map .str), treeS t, treeS s]
      | _, _ => err "fuel"
  | _, _ => .atom "bad-op"

end Cells
end DefconModel
