/-
Driver glue for M-Ident: S-expression ⇄ `Ident.Op` / observations.  Not part of the proved core.
-/
import DefconModel.Util.SExp
import DefconModel.Ident

namespace DefconModel
namespace Ident
open SExp

def optId? := asOpt? asNat?

def typ? : SExp → Option Typ
  | .atom "0" => some .off
  | .atom "1" => some .move
  | .atom "2" => some .line
  | .atom "3" => some .curve
  | .atom "4" => some .qcurve
  | _ => none

def point? : SExp → Option Point
  | .list [t, i] => do some ⟨← typ? t, ← optId? i⟩
  | _ => none

def contour? : SExp → Option Contour
  | .list [i, pts] => do some { id := ← optId? i, pts := ← asListOf? point? pts }
  | _ => none

def comp? : SExp → Option Comp
  | .list [b, i] => do some ⟨← asNat? b, ← optId? i⟩
  | _ => none

def data? : SExp → Option Data
  | .list [cs, ks, as, gs] => do
    some { contours := ← asListOf? contour? cs, comps := ← asListOf? comp? ks,
           anchors := ← asListOf? optId? as, guides := ← asListOf? optId? gs }
  | _ => none

def thenAnchor? : SExp → Option (Option (Nat × Id))
  | .atom "none" => some none
  | .list [.atom "some", .list [t, x]] => do some (some (← asNat? t, ← asNat? x))
  | _ => none

def ids? := asListOf? asNat?

/-- glyph containers are 0..2, the font is 3 and only takes guideline operations -/
def glyphT? (s : SExp) : Option Nat := do
  let t ← asNat? s
  if t < 3 then some t else none

def anyT? (s : SExp) : Option Nat := do
  let t ← asNat? s
  if t < 4 then some t else none

def parseOp : SExp → Option Op
  | .list [.atom "insContour", t, r, i, pts] => do
    some (.insContour (← glyphT? t) (← asNat? r) { id := ← optId? i, pts := ← asListOf? point? pts })
  | .list [.atom "reinsContour", t, r, k] => do some (.reinsContour (← glyphT? t) (← asNat? r) (← asNat? k))
  | .list [.atom "rmContour", t, r] => do some (.rmContour (← glyphT? t) (← asNat? r))
  | .list [.atom "clearContours", t] => do some (.clearContours (← glyphT? t))
  | .list [.atom "insPoint", t, rc, rp, ty, i] => do
    some (.insPoint (← glyphT? t) (← asNat? rc) (← asNat? rp) ⟨← typ? ty, ← optId? i⟩)
  | .list [.atom "addPoint", t, rc, ty, i] => do
    some (.addPoint (← glyphT? t) (← asNat? rc) ⟨← typ? ty, ← optId? i⟩)
  | .list [.atom "rmPoint", t, rc, rp] => do some (.rmPoint (← glyphT? t) (← asNat? rc) (← asNat? rp))
  | .list [.atom "clearContour", t, rc] => do some (.clearContour (← glyphT? t) (← asNat? rc))
  | .list [.atom "reverse", t, rc] => do some (.reverse (← glyphT? t) (← asNat? rc))
  | .list [.atom "rmSegment", t, rc, rs, p] => do
    some (.rmSegment (← glyphT? t) (← asNat? rc) (← asNat? rs) (← asBool? p))
  | .list [.atom "split", t, rc, rs] => do some (.split (← glyphT? t) (← asNat? rc) (← asNat? rs))
  | .list [.atom "setStart", t, rc, rp] => do some (.setStart (← glyphT? t) (← asNat? rc) (← asNat? rp))
  | .list [.atom "setContourId", t, rc, v] => do some (.setContourId (← glyphT? t) (← asNat? rc) (← optId? v))
  | .list [.atom "genContourId", t, rc, c] => do some (.genContourId (← glyphT? t) (← asNat? rc) (← ids? c))
  | .list [.atom "genPointId", t, rc, rp, c] => do
    some (.genPointId (← glyphT? t) (← asNat? rc) (← asNat? rp) (← ids? c))
  | .list [.atom "insComp", t, r, b, i] => do
    some (.insComp (← glyphT? t) (← asNat? r) ⟨← asNat? b, ← optId? i⟩)
  | .list [.atom "reinsComp", t, r, k] => do some (.reinsComp (← glyphT? t) (← asNat? r) (← asNat? k))
  | .list [.atom "rmComp", t, r] => do some (.rmComp (← glyphT? t) (← asNat? r))
  | .list [.atom "clearComps", t] => do some (.clearComps (← glyphT? t))
  | .list [.atom "setCompId", t, r, v] => do some (.setCompId (← glyphT? t) (← asNat? r) (← optId? v))
  | .list [.atom "genCompId", t, r, c] => do some (.genCompId (← glyphT? t) (← asNat? r) (← ids? c))
  | .list [.atom "decompose", t, r] => do some (.decompose (← glyphT? t) (← asNat? r))
  | .list [.atom "decomposeAll", t] => do some (.decomposeAll (← glyphT? t))
  | .list [.atom "insAnchor", t, r, v, d] => do
    some (.insAnchor (← glyphT? t) (← asNat? r) (← optId? v) (← asBool? d))
  | .list [.atom "reinsAnchor", t, r, k] => do some (.reinsAnchor (← glyphT? t) (← asNat? r) (← asNat? k))
  | .list [.atom "rmAnchor", t, r] => do some (.rmAnchor (← glyphT? t) (← asNat? r))
  | .list [.atom "clearAnchors", t] => do some (.clearAnchors (← glyphT? t))
  | .list [.atom "setAnchorId", t, r, v] => do some (.setAnchorId (← glyphT? t) (← asNat? r) (← optId? v))
  | .list [.atom "genAnchorId", t, r, c] => do some (.genAnchorId (← glyphT? t) (← asNat? r) (← ids? c))
  | .list [.atom "setAnchors", t, vs] => do some (.setAnchors (← glyphT? t) (← asListOf? optId? vs))
  | .list [.atom "insGuide", t, r, v, d] => do
    some (.insGuide (← anyT? t) (← asNat? r) (← optId? v) (← asBool? d))
  | .list [.atom "reinsGuide", t, r, k] => do some (.reinsGuide (← anyT? t) (← asNat? r) (← asNat? k))
  | .list [.atom "rmGuide", t, r] => do some (.rmGuide (← anyT? t) (← asNat? r))
  | .list [.atom "clearGuides", t] => do some (.clearGuides (← anyT? t))
  | .list [.atom "setGuideId", t, r, v] => do some (.setGuideId (← anyT? t) (← asNat? r) (← optId? v))
  | .list [.atom "genGuideId", t, r, c] => do some (.genGuideId (← anyT? t) (← asNat? r) (← ids? c))
  | .list [.atom "setGuides", t, vs] => do some (.setGuides (← anyT? t) (← asListOf? optId? vs))
  | .list [.atom "limboSetId", kind, k, v] => do
    let kd ← asNat? kind
    if kd < 4 then some (.limboSetId kd (← asNat? k) (← optId? v)) else none
  | .list [.atom "limboGenId", kind, k, c] => do
    let kd ← asNat? kind
    if kd < 4 then some (.limboGenId kd (← asNat? k) (← ids? c)) else none
  | .list [.atom "limboAddPoint", k, ty, i] => do some (.limboAddPoint (← asNat? k) ⟨← typ? ty, ← optId? i⟩)
  | .list [.atom "clearGlyph", t] => do some (.clearGlyph (← glyphT? t))
  | .list [.atom "draw", t, cs, ks, s] => do
    some (.draw (← glyphT? t) (← asListOf? contour? cs) (← asListOf? comp? ks) (← asBool? s))
  | .list [.atom "drawFrom", t, src, s] => do some (.drawFrom (← glyphT? t) (← glyphT? src) (← asBool? s))
  | .list [.atom "copyFrom", t, src] => do some (.copyFrom (← glyphT? t) (← glyphT? src))
  | .list [.atom "insertGlyph", t, src] => do some (.insertGlyph (← glyphT? t) (← glyphT? src))
  | .list [.atom "roundtrip", t] => do some (.roundtrip (← glyphT? t))
  | .list [.atom "deserializeFrom", t, src] => do some (.deserializeFrom (← glyphT? t) (← glyphT? src))
  | .list [.atom "fontRoundtrip"] => some .fontRoundtrip
  | .list [.atom "instAnchor", t, v] => do some (.instAnchor (← glyphT? t) (← optId? v))
  | .list [.atom "instGuide", t, v] => do some (.instGuide (← anyT? t) (← optId? v))
  | .list [.atom "reload", t, d] => do some (.reload (← glyphT? t) (← data? d))
  | .list [.atom "reopen", ds, fg, th] => do
    let l ← asListOf? data? ds
    if l.length = 3 then some (.reopen l (← asListOf? optId? fg) (← thenAnchor? th)) else none
  | .list [.atom "rmAbsentPoint", t, rc] => do some (.rmAbsentPoint (← glyphT? t) (← asNat? rc))
  | .list [.atom "rmAbsent", kind, t, k] => do
    let kd ← asNat? kind
    let tt ← anyT? t
    -- the font only holds guidelines
    if kd < 4 ∧ (tt < 3 ∨ kd = 3) then some (.rmAbsent kd tt (← asNat? k)) else none
  | .list [.atom "rmForeign", kind, t, src, r] => do
    let kd ← asNat? kind
    let tt ← anyT? t
    let ss ← anyT? src
    if kd < 4 ∧ ((tt < 3 ∧ ss < 3) ∨ kd = 3) then some (.rmForeign kd tt ss (← asNat? r)) else none
  | .list [.atom "insAnchorBad", t, r, v] => do some (.insAnchorBad (← glyphT? t) (← asNat? r) (← optId? v))
  | .list [.atom "insGuideBad", t, r, v] => do some (.insGuideBad (← anyT? t) (← asNat? r) (← optId? v))
  | .list [.atom "setAnchorsBad", t, vs] => do some (.setAnchorsBad (← glyphT? t) (← asListOf? optId? vs))
  | .list [.atom "setGuidesBad", t, vs] => do some (.setGuidesBad (← anyT? t) (← asListOf? optId? vs))
  | .list [.atom "load", t] => do some (.load (← glyphT? t))
  | .list [.atom "insertGlyphVia", t, src] => do some (.insertGlyphVia (← glyphT? t) (← glyphT? src))
  | _ => none

def encOptId (v : Option Id) : SExp := ofOpt ofNat v

def encTyp : Typ → SExp
  | .off => .atom "0"
  | .move => .atom "1"
  | .line => .atom "2"
  | .curve => .atom "3"
  | .qcurve => .atom "4"

def encContour (c : Contour) : SExp :=
  .list [encOptId c.id, .list (c.pts.map fun p => .list [encTyp p.typ, encOptId p.id])]

def encErr : Err → SExp
  | .assertion => err "AssertionError"
  | .key => err "KeyError"
  | .index => err "IndexError"
  | .value => err "ValueError"
  | .notImplemented => err "NotImplementedError"
  | .pen => err "PenError"
  | .exhausted => err "ScriptExhausted"
  | .empty => err "Empty"
  | .cyclic => err "Cyclic"

def encRes : Res → SExp
  | .ok => .atom "ok"
  | .gen v => tagged "id" [encOptId v]
  | .err e => encErr e

def encGlyph (g : Glyph) : SExp :=
  .list [tagged "set" (g.reg.map ofNat), .list (g.contours.map encContour),
         .list (g.comps.map fun k => .list [ofNat k.base, encOptId k.id]),
         .list (g.anchors.map encOptId), .list (g.guides.map encOptId),
         .atom (if g.shallow then "shallow" else "loaded")]

def encFont (g : Glyph) : SExp :=
  .list [tagged "set" (g.reg.map ofNat), .list (g.guides.map encOptId)]

def encWorld (w : World) : SExp :=
  .list [encGlyph (w.get 0), encGlyph (w.get 1), encGlyph (w.get 2), encFont (w.get 3),
         .list [.list (w.limboC.map encContour), .list (w.limboK.map fun k => encOptId k.id),
                .list (w.limboA.map encOptId), .list (w.limboG.map encOptId)]]

def driverStep (w : World) (line : SExp) : World × SExp :=
  match parseOp line with
  | none => (w, .atom "bad-op")
  | some op =>
    let r := step w op
    (r.1, .list [encRes r.2, encWorld r.1])

end Ident
end DefconModel
