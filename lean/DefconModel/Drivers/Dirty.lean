/-
Driver glue for M-DirtyTree / M-Dirty.  The model is told the initial tree (shape, kinds, flags) and then, per
operation, only `(mut <receiver> <kind> "<mutator>" effective|same)`, `(hold x)`, `(release x)`: which objects a
call touches is computed by the model from its own tree and the target table.  An operation, kind or mutator it does
not know prints `bad-op`.  Not part of the proved core.
-/
import DefconModel.Util.SExp
import DefconModel.DirtyTree

namespace DefconModel
namespace Dirty
open SExp DirtyTree

structure DState where
  ts : TState := {}

def kindNames : List (String × Kind) :=
  [("font", .font), ("layerSet", .layerSet), ("layer", .layer), ("glyph", .glyph), ("contour", .contour),
   ("component", .component), ("anchor", .anchor), ("guideline", .guideline), ("image", .image), ("lib", .lib),
   ("info", .info), ("kerning", .kerning), ("groups", .groups), ("features", .features), ("images", .images),
   ("data", .data)]

def kindOf? (s : String) : Option Kind := (kindNames.find? (fun p => p.1 = s)).map Prod.snd
def kindName (k : Kind) : String := ((kindNames.find? (fun p => p.2 = k)).map Prod.fst).getD "?"

def asKind? : SExp → Option Kind
  | .atom s => kindOf? s
  | _ => none

/-- kinds whose own data the harness fingerprints: an effective change of such an object is always seen -/
def fpKind : Kind → Bool
  | .contour | .component | .anchor | .guideline | .image | .lib => true
  | _ => false

def parseNodes (xs : List SExp) : Option (List (Nat × Node)) :=
  xs.mapM fun x => match x with
    | .list [i, p, k] => do
      let i ← asNat? i
      let p ← asInt? p
      let k ← asKind? k
      some (i, { kind := k, parent := if p < 0 then none else some p.toNat })
    | _ => none

/-- numbered 0, 1, 2, … in order, every parent older than its child -/
def wellNumbered : Nat → List (Nat × Node) → Bool
  | _, [] => true
  | n, (i, nd) :: rest =>
    i == n && (match nd.parent with | some p => decide (p < i) | none => true) && wellNumbered (n + 1) rest

def setOf (xs : List SExp) : SExp := tagged "set" xs

def kindAt (t : Tree) (x : Nat) : Option Kind := (t[x]?).map (·.kind)

/-- what one operation did, in the terms the harness observes on the implementation -/
def report (old new : TState) : SExp :=
  let n0 := old.tree.length
  let ids := List.range new.tree.length
  let dirtyNow (j : Nat) : Bool := decide (j ∈ new.s.dirty) && attached new.tree j
  let dirtyBefore (j : Nat) : Bool := decide (j ∈ old.s.dirty) && attached old.tree j
  let newLog := new.s.log.drop old.s.log.length
  let newHits := new.hits.drop old.hits.length
  let evid := ids.filter fun j =>
    decide (j < n0) && attached new.tree j &&
      ((dirtyNow j && !dirtyBefore j) || decide (j ∈ newLog) ||
       (decide (j ∈ newHits) && ((kindAt new.tree j).map fpKind).getD false))
  let deepest := evid.filter fun j => !(evid.any fun c => decide (j ∈ up new.tree c))
  let fresh := (ids.filter fun j => decide (n0 ≤ j)).map fun j =>
    SExp.list [ofNat j, (match parentOf new.tree j with | some p => ofNat p | none => ofInt (-1)),
               .atom (((kindAt new.tree j).map kindName).getD "?")]
  let gone := (List.range n0).filter fun j => attached old.tree j && !attached new.tree j
  .list [tagged "dirty" [setOf ((ids.filter dirtyNow).map ofNat)],
         tagged "changed" [setOf (((newLog.filter fun j => decide (j < n0)).eraseDups).map ofNat)],
         tagged "touched" [setOf (deepest.map ofNat)],
         tagged "new" [.list fresh],
         tagged "gone" [setOf (gone.map ofNat)]]

def driverStep (d : DState) (line : SExp) : DState × SExp :=
  let fin (ts' : TState) : DState × SExp := ({ ts := ts' }, report d.ts ts')
  match line with
  | .list [.atom "init", .list nodes, dirty] =>
    match parseNodes nodes, asListOf? asNat? dirty with
    | some ns, some ds =>
      if wellNumbered 0 ns then ({ ts := { tree := ns.map Prod.snd, s := { dirty := ds } } }, .atom "ok")
      else (d, .atom "bad-op")
    | _, _ => (d, .atom "bad-op")
  | .list [.atom "skip"] => (d, .list [.atom "skip"])
  | .list [.atom "save", .atom how, dirty] =>
    -- the font was written (or the attempt failed): which flags a save clears is C06's subject; the model is told the
    -- flags afterwards, exactly as it is told the initial ones
    match asListOf? asNat? dirty with
    | some ds =>
      let ts' := { d.ts with s := { d.ts.s with dirty := ds } }
      ({ ts := ts' }, .list [tagged "saved" [.atom how],
        tagged "dirty" [setOf (((List.range ts'.tree.length).filter fun j => decide (j ∈ ds) && attached ts'.tree j).map ofNat)]])
    | none => (d, .atom "bad-op")
  | .list [.atom "nop"] => fin d.ts
  | .list [.atom "mut", i, k, .str name, .atom mode] =>
    match asNat? i, asKind? k with
    | some i, some k =>
      match lookup k name with
      | some e =>
        if kindAt d.ts.tree i = some k && attached d.ts.tree i then
          if mode = "effective" && e.effective then fin (applyMut d.ts i e false)
          else if mode = "same" && e.guarded then fin (applyMut d.ts i e true)
          else (d, .atom "bad-op")
        else (d, .atom "bad-op")
      | none => (d, .atom "bad-op")
    | _, _ => (d, .atom "bad-op")
  | .list [.atom "ghold"] =>
    -- a hold on the whole dispatcher: everything any object posts is queued
    fin ((List.range d.ts.tree.length).foldl holdT d.ts)
  | .list [.atom "grelease"] =>
    -- … released: containers first, so that what the objects below them post travels on
    fin ((List.range d.ts.tree.length).foldl releaseT d.ts)
  | .list [.atom "hold", i] =>
    match asNat? i with
    | some i => fin (holdT d.ts i)
    | none => (d, .atom "bad-op")
  | .list [.atom "release", i] =>
    match asNat? i with
    | some i => fin (releaseT d.ts i)
    | none => (d, .atom "bad-op")
  | _ => (d, .atom "bad-op")

end Dirty
end DefconModel
