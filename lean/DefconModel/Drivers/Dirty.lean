/-
Driver glue for M-Dirty: the tree (parent links) lives here; paths are computed with fuel.
Not part of the proved core.
-/
import DefconModel.Util.SExp
import DefconModel.Dirty

namespace DefconModel
namespace Dirty
open SExp

structure DState where
  parents : List (Nat × Option Nat) := []
  s : State := {}

def pathOf (parents : List (Nat × Option Nat)) : Nat → Nat → List Nat
  | 0, x => [x]
  | fuel + 1, x =>
    match AL.get? parents x with
    | some (some p) => x :: pathOf parents fuel p
    | _ => [x]

def setOf (xs : List SExp) : SExp := tagged "set" xs

def parseNodes (xs : List SExp) : Option (List (Nat × Option Nat)) :=
  xs.mapM fun x => match x with
    | .list [i, p] => do
      let i ← asNat? i
      let p ← asInt? p
      some (i, if p < 0 then none else some p.toNat)
    | _ => none

partial def driverStep (d : DState) (line : SExp) : DState × SExp :=
  let out (d' : DState) (old : DState) : SExp :=
    .list [tagged "dirty" [setOf (d'.s.dirty.map ofNat)],
           tagged "changed" [setOf ((d'.s.log.drop old.s.log.length).eraseDups.map ofNat)]]
  match line with
  | .list [.atom "init", .list nodes, dirty] =>
    match parseNodes nodes, asListOf? asNat? dirty with
    | some ns, some ds => ({ parents := ns, s := { dirty := ds } }, .atom "ok")
    | _, _ => (d, .atom "bad-op")
  | .list (.atom "seq" :: inner) =>
    let d' := inner.foldl (fun acc l => (driverStep acc l).1) d
    (d', out d' d)
  | .list [.atom "drop", i] =>
    -- the object left the font (removed by the mutator): it is no longer part of the compared tree
    match asNat? i with
    | some i => let d' := { d with s := { d.s with dirty := d.s.dirty.filter (· ≠ i) } }; (d', out d' d)
    | none => (d, .atom "bad-op")
  | .list [.atom "skip"] => (d, .list [.atom "skip"])
  | .list [.atom "same", _] => (d, out d d)
  | .list [.atom "grow", .list nodes, dirty, inner] =>
    match parseNodes nodes, asListOf? asNat? dirty with
    | some ns, some ds =>
      -- the inner operation ran while the new objects were being created: their flags are as the harness saw them
      let d1 := { d with parents := d.parents ++ ns }
      let (d2, _) := driverStep d1 inner
      let d3 := { d2 with s := { d2.s with dirty := d2.s.dirty ++ ds.filter (fun x => x ∉ d2.s.dirty) } }
      (d3, out d3 d)
    | _, _ => (d, .atom "bad-op")
  | .list [.atom "touch", i] =>
    match asNat? i with
    | some i =>
      match pathOf d.parents 32 i with
      | x :: rest => let d' := { d with s := touch d.s x rest }; (d', out d' d)
      | [] => (d, .atom "bad-op")
    | none => (d, .atom "bad-op")
  | .list [.atom "hold", i] =>
    match asNat? i with
    | some i => let d' := { d with s := hold d.s i }; (d', out d' d)
    | none => (d, .atom "bad-op")
  | .list [.atom "release", i] =>
    match asNat? i with
    | some i =>
      match pathOf d.parents 32 i with
      | x :: rest => let d' := { d with s := release d.s x rest }; (d', out d' d)
      | [] => (d, .atom "bad-op")
    | none => (d, .atom "bad-op")
  | _ => (d, .atom "bad-op")

end Dirty
end DefconModel
