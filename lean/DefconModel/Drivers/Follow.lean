/-
Driver glue for M-Follow: one line = one operation of a layer (or of a glyph / component in it), started from
the abstraction of that layer's state.  Not part of the proved core.

  (follow <op> ((<name> <obj>) ...) ((<obj> <data>) ...) ((<comp> <base name> <watch>) ...))
    → ((set <comp that posted Component.BaseGlyphDataChanged> ...) (set (<comp> <base name> <watch>) ...))

`<op>` = `(edit <obj> <data>)` | `(new <name> <obj> <data>)` | `(del <name>)` | `(rename <old> <new>)` |
`(addComp <comp> <base>)` | `(removeComp <comp>)` | `(setBase <comp> <base>)`;
`<watch>` = `layer` | `(g <obj>)` (`(g 0)`: registered with the layer for a base glyph, with no glyph of the layer).
-/
import DefconModel.Util.SExp
import DefconModel.Follow

namespace DefconModel
namespace Follow
open SExp

def parseWatch : SExp → Option Watch
  | .atom "layer" => some .layer
  | .list [.atom "g", n] => (asNat? n).map Watch.glyph
  | _ => none

def encWatch : Watch → SExp
  | .layer => .atom "layer"
  | .glyph o => .list [.atom "g", ofNat o]

def parseComp : SExp → Option Comp
  | .list [i, .str b, w] =>
    match asNat? i, parseWatch w with
    | some i, some w => some ⟨i, b, w⟩
    | _, _ => none
  | _ => none

def encComp (c : Comp) : SExp := .list [ofNat c.id, .str c.base, encWatch c.watch]

def parseFiled : SExp → Option (String × Nat)
  | .list [.str n, o] => (asNat? o).map (fun o => (n, o))
  | _ => none

def parseData : SExp → Option (Nat × Nat)
  | .list [o, d] =>
    match asNat? o, asNat? d with
    | some o, some d => some (o, d)
    | _, _ => none
  | _ => none

def parseOp : SExp → Option Op
  | .list [.atom "edit", o, d] =>
    match asNat? o, asNat? d with
    | some o, some d => some (.edit o d)
    | _, _ => none
  | .list [.atom "new", .str n, o, d] =>
    match asNat? o, asNat? d with
    | some o, some d => some (.newGlyph n o d)
    | _, _ => none
  | .list [.atom "del", .str n] => some (.delGlyph n)
  | .list [.atom "rename", .str a, .str b] => some (.rename a b)
  | .list [.atom "addComp", i, .str b] => (asNat? i).map (fun i => .addComp i b)
  | .list [.atom "removeComp", i] => (asNat? i).map .removeComp
  | .list [.atom "setBase", i, .str b] => (asNat? i).map (fun i => .setBase i b)
  | _ => none

def driverLine : SExp → SExp
  | .list [.atom "follow", op, .list filed, .list data, .list comps] =>
    match parseOp op, filed.mapM parseFiled, data.mapM parseData, comps.mapM parseComp with
    | some op, some f, some d, some cs =>
      let r := step { filed := f, data := d, comps := cs } op
      .list [tagged "set" (r.2.eraseDups.map ofNat), tagged "set" (r.1.comps.map encComp)]
    | _, _, _, _ => .atom "bad-op"
  | _ => .atom "bad-op"

end Follow
end DefconModel
